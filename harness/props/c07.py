"""C07 — queries and transitions are pure: inputs and earlier results are never modified.

Implementation side: histories of API calls run by harness/ops_c07.py with the digest oracle, the sharing
graph, the repeat check and real threads.  Model side: Model/Store.v (ownership / footprint model) evaluated in
Coq on the same resolved histories (Corr/C07.v)."""
import json
import os
import random
import time

import re
from pathlib import Path

from ..common import (ROOT, REPO, Report, cbool, clist, cstr, decide, load_findings, run_case_shards, run_impl,
                      standard_proof_part, write_replay, case_hash)

PROP = "C07"
DEFECTS = ["D15", "D16", "D17", "D18"]

# ------------------------------------------------------------------------------------------ domain generator
# A signature is a list of SLOTS: "a" (variable ?x, type a), "b" (?y, type b), "a2" (?x2, type a).  The binary e / k
# take two arguments of ONE type, so initial facts / fluents and action calls REPEAT an object ((k a1 a1), (act0 a1 a1)):
# the area in which the library keys arguments by object name (D07) and keeps `repeating_variables`.
PREDS = {"p": ["a"], "q": ["b"], "r": ["a", "b"], "z": [], "e": ["a", "a2"]}
FUNCS = {"f": ["a"], "g": ["b"], "h": [], "k": ["a", "a2"]}
SLOT_TYPE = {"a": "a", "b": "b", "a2": "a"}
SLOT_VAR = {"a": "?x", "b": "?y", "a2": "?x2"}
OBJS = {"a": ["a1", "a2"], "b": ["b1", "b2"], "c": ["c1"]}      # c is a strict subtype of a
SUBTYPES = {"a": ["a", "c"], "b": ["b"], "c": ["c"]}


def objs_of(ty):
    """the objects a parameter / quantifier of type ty ranges over (objects of subtypes included)"""
    return [o for t in SUBTYPES[ty] for o in OBJS[t]]


def _var(slot):
    return SLOT_VAR[slot]


def _atom_text(name, args):
    return "(%s%s)" % (name, "".join(" " + a for a in args))


class GenAction:
    """an action schema together with the shape the footprint model needs.

    The base group and the `when` groups of one action never touch the same predicate or fluent (each
    predicate / fluent is written by at most one of them, and read only by its writer or when nobody writes
    it): `Operator.grounded_effects` is a set of objects hashed by address, so the order in which the groups
    are applied differs from run to run, and interfering groups (deviation D12, property C03) would make the
    *value* of the successor order-dependent.  C07 is about values that change afterwards, not about that."""

    def __init__(self, rng, idx, typed):
        self.name = "act%d" % idx
        kinds = rng.choice([["a"], ["a", "b"], ["b"], ["a", "b"], ["a", "a2"], ["a", "a2", "b"]])
        self.params = [(_var(t), SLOT_TYPE[t]) for t in kinds]
        ptypes = kinds                     # the slots of the parameters
        avail_p = [n for n, sig in PREDS.items() if all(t in ptypes for t in sig)]
        avail_f = [n for n, sig in FUNCS.items() if all(t in ptypes for t in sig)] if typed else []
        self.typed = typed
        n_when = rng.choice([0, 0, 1, 2]) if typed else 0
        n_groups = 1 + n_when
        p_owner = {n: rng.randrange(n_groups) for n in avail_p}
        f_owner = {n: rng.choice([None] + list(range(n_groups))) for n in avail_f}

        def lit_text(n, neg):
            t = _atom_text(n, [_var(t) for t in PREDS[n]])
            return "(not %s)" % t if neg else t

        def lit(pool=None):
            return lit_text(rng.choice(pool or avail_p), rng.random() < 0.3)

        def fl_text(f):
            return _atom_text(f[0], f[1])

        def mkfl(n):
            return (n, [_var(t) for t in FUNCS[n]])

        def nexp(depth, pool):
            """returns (text, fluent leaves)"""
            r = rng.random()
            if depth == 0 or r < 0.35 or not pool:
                if rng.random() < 0.5 or not pool:
                    return str(rng.choice([0, 1, 2, 3, 5, 0.5])), []
                f = mkfl(rng.choice(pool))
                return fl_text(f), [f]
            a, la = nexp(depth - 1, pool)
            b, lb = nexp(depth - 1, pool)
            return "(%s %s %s)" % (rng.choice("+-*"), a, b), la + lb

        # precondition: 1-2 literals, 0-2 numeric comparisons; leaves in order of the text
        self.pre_leaves = []
        pre = [lit() for _ in range(rng.randint(1, 2))]
        for _ in range(rng.randint(0, 2) if avail_f else 0):
            a, la = nexp(1, avail_f)
            b, lb = nexp(0, avail_f)
            if not la and not lb:
                f = mkfl(rng.choice(avail_f))
                a, la = fl_text(f), [f]
            c = "(%s %s %s)" % (rng.choice([">=", "<=", ">", "<"]), a, b)
            if c not in pre:
                pre.append(c)
                self.pre_leaves += la + lb
        # a quantified precondition (literals only: no leaves): grounded per object against a copy of the signature
        self.n_forall_pre = 0
        if typed and rng.random() < 0.2:
            qt = rng.choice(["a", "b"])
            qp = "p" if qt == "a" else "q"
            body = "(not (%s ?w0))" % qp if rng.random() < 0.7 else "(%s ?w0)" % qp
            if "b" in ptypes and "a" in ptypes and rng.random() < 0.5:
                body = "(not (r ?x ?w0))" if qt == "b" else "(not (r ?w0 ?y))"
            pre.append("(forall (?w0 - %s) (and %s))" % (qt, body))
            self.n_forall_pre = 1
        self.pre_text = "(and %s)" % " ".join(dict.fromkeys(pre))

        def group_effects(g, min_n):
            """literals and numeric effects of group g: every target at most once"""
            my_p = [n for n in avail_p if p_owner[n] == g]
            my_f = [n for n in avail_f if f_owner[n] == g]
            readable = [n for n in avail_f if f_owner[n] in (None, g)]
            texts, shapes = [], []
            for n in rng.sample(my_p, min(len(my_p), rng.randint(0, 2))):
                texts.append(lit_text(n, rng.random() < 0.4))
            for n in rng.sample(my_f, min(len(my_f), rng.randint(0, 2))):
                e, le = nexp(1, readable)
                tgt = mkfl(n)
                texts.append("(%s %s %s)" % (rng.choice(["increase", "decrease", "assign"]), fl_text(tgt), e))
                shapes.append((tgt, le))
            return texts, shapes

        effs, self.groups = [], []
        texts, shapes = group_effects(0, 0)
        effs += texts
        self.groups.append({"ante": [], "effs": shapes})
        for g in range(1, n_groups):
            ante, leaves = [lit()], []
            if rng.random() < 0.4 and avail_f:
                f = mkfl(rng.choice(avail_f))
                ante.append("(%s %s %s)" % (rng.choice([">=", "<="]), fl_text(f), rng.choice([0, 1, 3])))
                leaves.append(f)
            texts, shapes = group_effects(g, 1)
            if not texts:
                continue
            effs.append("(when (and %s) (and %s))" % (" ".join(dict.fromkeys(ante)), " ".join(texts)))
            self.groups.append({"ante": leaves, "effs": shapes})
        # forall effects (typed domains only), at most one per quantified type
        self.n_forall = 0
        if typed:
            for qt in rng.sample(["a", "b"], rng.choice([0, 0, 1, 1, 2])):
                qv = "?v%d" % self.n_forall
                qp = "p" if qt == "a" else "q"
                qf = "f" if qt == "a" else "g"
                body = [rng.choice(["(not (%s %s))" % (qp, qv), "(%s %s)" % (qp, qv)])]
                if rng.random() < 0.6:
                    body.append("(%s (h) (%s %s))" % (rng.choice(["increase", "decrease"]), qf, qv))
                elif rng.random() < 0.5:
                    body.append("(assign (%s %s) %s)" % (qf, qv, rng.choice([0, 1, 7])))
                cond = rng.choice(["(%s %s)" % (qp, qv), "(not (%s %s))" % (qp, qv), "(>= (%s %s) 1)" % (qf, qv)])
                effs.append("(forall (%s - %s) (when %s (and %s)))" % (qv, qt, cond, " ".join(dict.fromkeys(body))))
                self.n_forall += 1
        if not effs:
            effs.append("(z)")
        self.eff_text = "(and %s)" % " ".join(dict.fromkeys(effs))

    def text(self):
        if self.typed:
            ps = " ".join("%s - %s" % p for p in self.params)
        else:
            ps = " ".join(p for p, _ in self.params)
        return "(:action %s\n  :parameters (%s)\n  :precondition %s\n  :effect %s)" % (self.name, ps, self.pre_text, self.eff_text)

    def ground_key(self, f, args):
        env = {p: a for (p, _), a in zip(self.params, args)}
        return _atom_text(f[0], [env[v] for v in f[1]])


class GenDomain:
    def __init__(self, rng, name, typed=True, n_actions=None, numeric=True):
        self.name, self.typed = name, typed
        self.actions = [GenAction(rng, i, typed) for i in range(n_actions or rng.randint(1, 3))]

    def text(self):
        def sig(tys):
            return "".join(" %s%s" % (_var(t), " - " + SLOT_TYPE[t] if self.typed else "") for t in tys)
        out = ["(define (domain %s)" % self.name,
               "(:requirements :typing :fluents :conditional-effects :universal-preconditions)" if self.typed else "(:requirements :strips)"]
        if self.typed:
            out.append("(:types a b - object c - a)")
        out.append("(:predicates %s)" % " ".join("(%s%s)" % (n, sig(t)) for n, t in PREDS.items()))
        if self.typed:
            out.append("(:functions %s)" % " ".join("(%s%s)" % (n, sig(t)) for n, t in FUNCS.items()))
        out += [a.text() for a in self.actions]
        out.append(")")
        return "\n".join(out)


def gen_problem(rng, dom, name, order=None):
    """objects in a random type order (the order decides whether the D15 'continue' is the last iteration)"""
    groups = [("a", OBJS["a"]), ("b", OBJS["b"]), ("c", OBJS["c"])]
    if order is None:
        order = rng.random() < 0.5
    if order:
        groups.reverse()
    if rng.random() < 0.3:
        groups = groups[1:] + groups[:1]
    if dom.typed:
        objs = " ".join("%s - %s" % (" ".join(o), t) for t, o in groups)
    else:
        objs = " ".join(" ".join(o) for t, o in groups) + " - object"
    init, keys = [], []
    for n, sig in PREDS.items():
        for args in _tuples(sig):
            if rng.random() < 0.6:
                init.append(_atom_text(n, args))
    for n, sig in (FUNCS.items() if dom.typed else []):
        for args in _tuples(sig):
            if rng.random() < 0.85:
                init.append("(= %s %s)" % (_atom_text(n, args), rng.choice([0, 1, 2, 4, 10])))
                keys.append(_atom_text(n, args))
    goal = ["(z)"]
    if dom.typed and rng.random() < 0.5:
        # numeric goals: the leaf of a zero-arity fluent is the domain's own lifted function object
        goal.append(rng.choice(["(>= (h) 0)", "(<= (f a1) 10)", "(= (h) 1)", "(> (+ (h) (g b1)) 2)"]))
    text = "(define (problem %s) (:domain %s)\n(:objects %s)\n(:init %s)\n(:goal (and %s)))" % (name, dom.name, objs, " ".join(init), " ".join(goal))
    return text, keys, [o for _, os_ in groups for o in os_]


def _tuples(sig):
    out = [[]]
    for t in sig:
        out = [x + [o] for x in out for o in objs_of(SLOT_TYPE[t])]
    return out


def gen_agent_domain(rng, k, typed=True):
    """small agent domain for the combine operation; introduces its own types"""
    tys = ["agent%d" % k, "thing"]
    if typed:
        return ("(define (domain ma)\n(:requirements :typing)\n(:types %s - object)\n(:predicates (at%d ?x - %s) (free ?t - thing))\n"
                "(:action go%d :parameters (?x - %s ?t - thing) :precondition (and (at%d ?x)) :effect (and (not (at%d ?x)) (free ?t))))"
                % (" ".join(tys), k, tys[0], k, tys[0], k, k))
    return ("(define (domain ma)\n(:requirements :strips)\n(:predicates (at%d ?x) (free ?t))\n"
            "(:action go%d :parameters (?x ?t) :precondition (and (at%d ?x)) :effect (and (not (at%d ?x)) (free ?t))))" % (k, k, k, k))


def gen_indep(rng):
    """An INDEPENDENT domain + problem + short plan, parsed and executed BEFORE the history starts; its values
    (digests) and answers (serialisations, exports, applicability, repeated transitions) are re-checked after every
    call of the history.  It deliberately uses the type / predicate / function NAMES of the generated domains with
    another meaning (here c is a subtype of b, not of a; q is about a's; f is binary): state that leaks between
    domains through anything keyed by name shows up as a changed answer."""
    typed = rng.random() < 0.85
    if not typed:
        dom = ("(define (domain dz)\n(:requirements :strips)\n(:predicates (p ?x) (q ?x) (e ?x ?y))\n"
               "(:action hop :parameters (?x ?y) :precondition (and (p ?x)) :effect (and (not (p ?x)) (p ?y) (e ?x ?y)))\n"
               "(:action mark :parameters (?x) :precondition (and (p ?x)) :effect (and (q ?x))))")
        prob = ("(define (problem pz) (:domain dz)\n(:objects a1 a2 c1)\n(:init (p a1) %s)\n(:goal (and (q a2))))"
                % " ".join(rng.sample(["(q c1)", "(e a1 a1)", "(e c1 a2)", "(p c1)"], rng.randint(0, 3))))
        calls = rng.choice([[("mark", ["a1"]), ("hop", ["a1", "a2"]), ("mark", ["a2"])],
                            [("hop", ["a1", "a1"]), ("hop", ["a1", "c1"]), ("mark", ["c1"])]])
    else:
        dom = ("(define (domain dz)\n(:requirements :typing :fluents :conditional-effects)\n(:types a b - object c - b)\n"
               "(:predicates (p ?y - b) (q ?x - a) (e ?x - a ?x2 - a))\n(:functions (f ?x - a ?x2 - a) (g ?y - b) (h))\n"
               "(:action fill :parameters (?y - b)\n  :precondition (and (p ?y) (<= (g ?y) 8))\n"
               "  :effect (and (increase (g ?y) 2) (increase (h) 1)))\n"
               "(:action hop :parameters (?x - a ?x2 - a)\n  :precondition (and (q ?x))\n"
               "  :effect (and (q ?x2) (e ?x ?x2) (increase (f ?x ?x2) 1) (when (e ?x2 ?x) (and (assign (h) 0)))))\n"
               "(:action shut :parameters (?y - b)\n  :precondition (and (p ?y))\n"
               "  :effect (and (not (p ?y)) (forall (?v - b) (when (p ?v) (and (decrease (g ?v) 1)))))))")
        init = ["(p b1)", "(p c1)", "(q a1)", "(= (g b1) %d)" % rng.choice([0, 1, 4]), "(= (g c1) %d)" % rng.choice([0, 3]),
                "(= (h) 0)", "(= (f a1 a2) %d)" % rng.choice([0, 2]), "(= (f a1 a1) %d)" % rng.choice([0, 5]), "(= (f a2 a1) 1)"]
        rng.shuffle(init)
        prob = ("(define (problem pz) (:domain dz)\n(:objects a1 a2 - a b1 - b c1 - c)\n(:init %s)\n(:goal (and (q a2) (>= (h) 1))))"
                % " ".join(init))
        calls = rng.choice([[("fill", ["c1"]), ("hop", ["a1", "a2"]), ("fill", ["b1"])],
                            [("hop", ["a1", "a1"]), ("fill", ["c1"]), ("shut", ["b1"])],
                            [("fill", ["b1"]), ("shut", ["c1"]), ("hop", ["a1", "a2"]), ("hop", ["a2", "a1"])]])
    return {"dom": dom, "prob": prob, "calls": [{"act": a, "args": x} for a, x in calls]}


# ------------------------------------------------------------------------------------------ history generator
def gen_history(rng, hid, tier, n_ops=None, style=None):
    """A job for ops_c07.history.  The first ops set the stage (parse domain, parse problem, an operator)."""
    style = style or rng.choice(["sim", "sim", "sim", "domains", "mixed"])
    main = GenDomain(rng, "d0", typed=rng.random() < 0.85)
    doms = [main]
    if style != "sim":
        doms.append(GenDomain(rng, "d1", typed=rng.random() < 0.4, n_actions=1))
    probs = []
    for j in range(rng.choice([1, 1, 2])):
        probs.append(gen_problem(rng, main, "pr%d" % j))
    ma = [[gen_agent_domain(rng, k, typed=rng.random() < 0.9) for k in range(rng.randint(1, 3))]]
    n_ops = n_ops or rng.randint(3, 12)
    ops = [{"k": "parse_domain", "src": 0}, {"k": "parse_problem", "src": 0, "dom": 0}]

    def mk_op():
        a = rng.randrange(len(main.actions))
        act = main.actions[a]
        args = [rng.choice(objs_of(t)) for _, t in act.params]
        return {"k": "mk_op", "dom": 0, "act": act.name, "ai": a, "args": args,
                "objs": (rng.randrange(8) if rng.random() < 0.8 else None)}

    def joint_members(idle=None):
        """a joint action of 0-3 members: acting members and nops in any mix - nobody (empty list), only nops, one acting
        member (with or without nops around it), several acting members"""
        shape = rng.choice(["empty", "idle", "idle", "one", "one", "one", "several", "several", "mixed", "mixed"]) if idle is None else \
            ("idle" if idle else rng.choice(["one", "several", "mixed"]))

        def acting():
            a = rng.randrange(len(main.actions))
            act = main.actions[a]
            return {"ai": a, "act": act.name, "args": [rng.choice(objs_of(t)) for _, t in act.params]}
        if shape == "empty":
            return []
        if shape == "idle":
            return [{"nop": True} for _ in range(rng.randint(1, 3))]
        if shape == "one":
            ms = [acting()] + [{"nop": True} for _ in range(rng.randint(0, 2))]
        elif shape == "several":
            ms = [acting() for _ in range(rng.randint(2, 3))]
        else:
            ms = [acting(), acting() if rng.random() < 0.5 else {"nop": True}, {"nop": True}]
        rng.shuffle(ms)
        return ms

    def ma_plan():
        steps = [joint_members(idle=(rng.random() < (0.35 if i == 0 else 0.2))) for i in range(rng.randint(2, 4))]
        return {"k": "ma_plan", "dom": 0, "objs": rng.randrange(16), "steps": steps, "allow": rng.random() < 0.4,
                "allow_exporter": rng.random() < 0.2}

    ops.append(mk_op())
    weights = {"sim": [("joint", 12), ("ma_triplet", 5), ("ma_plan", 5), ("ma_export_traj", 3), ("apply", 30), ("applicable", 10), ("mk_op", 10), ("triplet", 8), ("plan", 6), ("export_traj", 4),
                       ("ground", 3), ("copy", 4), ("serialize", 6), ("typed_serialize", 2), ("state_objects", 2),
                       ("state_eq", 2), ("str_op", 4), ("str_action", 5), ("export", 6), ("export_problem", 4),
                       ("str_domain", 2), ("parse_problem", 3), ("parse_traj", 5), ("convert_plan", 4)],
               "domains": [("joint", 4), ("parse_domain", 14), ("new_domain", 10), ("combine", 14), ("shallow_copy", 8), ("export", 16),
                           ("str_domain", 4), ("str_action", 6), ("apply", 10), ("mk_op", 5), ("triplet", 4),
                           ("export_problem", 3)],
               "mixed": [("joint", 7), ("ma_triplet", 3), ("ma_plan", 3), ("ma_export_traj", 2), ("apply", 20), ("applicable", 6), ("mk_op", 8), ("triplet", 6), ("plan", 5), ("export_traj", 3),
                         ("copy", 3), ("serialize", 5), ("str_action", 4), ("export", 8), ("export_problem", 3),
                         ("parse_domain", 6), ("new_domain", 5), ("combine", 8), ("shallow_copy", 4),
                         ("parse_problem", 3), ("str_op", 3), ("ground", 2), ("state_eq", 2), ("parse_traj", 3), ("convert_plan", 3)]}[style]
    names = [n for n, w in weights for _ in range(w)]
    while len(ops) < n_ops:
        k = rng.choice(names)
        if k == "apply":
            fl = rng.choice([(False, False), (False, False), (True, False), (False, True), (True, True)])
            ops.append({"k": "apply", "op": rng.randrange(8), "st": rng.randrange(16), "allow": fl[0], "skip": fl[1]})
        elif k == "applicable":
            ops.append({"k": "applicable", "op": rng.randrange(8), "st": rng.randrange(16)})
        elif k == "mk_op":
            ops.append(mk_op())
        elif k == "triplet":
            a = rng.randrange(len(main.actions))
            act = main.actions[a]
            args = [rng.choice(objs_of(t)) for _, t in act.params]
            ops.append({"k": "triplet", "dom": 0, "st": rng.randrange(16), "objs": rng.randrange(16), "ai": a, "args": args,
                        "call": "(%s %s)" % (act.name, " ".join(args)), "allow": rng.random() < 0.25})
        elif k == "plan":
            calls = []
            for _ in range(rng.randint(2, 4)):
                a = rng.randrange(len(main.actions))
                act = main.actions[a]
                args = [rng.choice(objs_of(t)) for _, t in act.params]
                calls.append({"ai": a, "args": args, "call": "(%s %s)" % (act.name, " ".join(args))})
            ops.append({"k": "plan", "dom": 0, "objs": rng.randrange(16), "calls": calls, "allow": rng.random() < 0.3})
        elif k == "joint":
            ops.append({"k": k, "dom": 0, "st": rng.randrange(16), "objs": (rng.randrange(16) if rng.random() < 0.8 else None),
                        "members": joint_members(), "allow": rng.random() < 0.45})
        elif k == "ma_triplet":
            ops.append({"k": k, "dom": 0, "st": rng.randrange(16), "objs": rng.randrange(16), "members": joint_members(),
                        "allow": rng.random() < 0.35, "allow_exporter": rng.random() < 0.2})
        elif k == "ma_plan":
            ops.append(ma_plan())
        elif k == "ma_export_traj":
            if not any(o["k"] == "ma_plan" for o in ops):
                ops.append(ma_plan())
            ops.append({"k": k, "maplan": rng.randrange(4)})
        elif k == "export_traj":
            ops.append({"k": k, "plan": rng.randrange(4)})
        elif k == "convert_plan":
            # a sequential plan over actions that have an agent (objects of type a play the agents)
            with_agent = [i for i, a in enumerate(main.actions) if any(t == "a" for _, t in a.params)] or [0]
            calls = []
            for _ in range(rng.randint(3, 8)):
                a = rng.choice(with_agent)
                act = main.actions[a]
                args = [rng.choice(objs_of(t)) for _, t in act.params]
                calls.append({"ai": a, "args": args, "call": "(%s %s)" % (act.name, " ".join(args))})
            ops.append({"k": k, "dom": 0, "objs": rng.randrange(16), "calls": calls, "agents": objs_of("a"),
                        "validate": rng.random() < 0.7, "filter": rng.random() < 0.8})
        elif k == "parse_traj":
            if not any(o["k"] == "plan" for o in ops):       # make sure there is a trajectory to read back
                calls = []
                for _ in range(rng.randint(2, 3)):
                    a = rng.randrange(len(main.actions))
                    act = main.actions[a]
                    args = [rng.choice(objs_of(t)) for _, t in act.params]
                    calls.append({"ai": a, "args": args, "call": "(%s %s)" % (act.name, " ".join(args))})
                ops.append({"k": "plan", "dom": 0, "objs": rng.randrange(16), "calls": calls, "allow": rng.random() < 0.3})
            ops.append({"k": k, "plan": rng.randrange(4), "noprob": rng.random() < 0.25})
        elif k == "state_eq":
            ops.append({"k": k, "st": rng.randrange(16), "st2": rng.randrange(16)})
        elif k in ("ground", "str_op"):
            ops.append({"k": k, "op": rng.randrange(8)})
        elif k in ("copy", "serialize", "typed_serialize", "state_objects", "export_problem"):
            ops.append({"k": k, "st": rng.randrange(16)})
        elif k == "str_action":
            a = rng.randrange(len(main.actions))
            ops.append({"k": k, "dom": 0, "act": main.actions[a].name, "ai": a})
        elif k in ("export", "str_domain", "shallow_copy"):
            ops.append({"k": k, "dom": rng.randrange(8)})
        elif k == "parse_problem":
            ops.append({"k": k, "src": rng.randrange(len(probs)), "dom": 0})
        elif k == "parse_domain":
            ops.append({"k": k, "src": rng.randrange(len(doms))})
        elif k == "new_domain":
            ops.append({"k": k})
        elif k == "combine":
            ops.append({"k": k, "src": 0, "dummy": rng.random() < 0.3})
    return {"op": "c07.history", "id": hid, "doms": [d.text() for d in doms], "probs": [p[0] for p in probs],
            "ma": ma, "ops": ops, "style": style, "indep": gen_indep(rng),
            "_shape": {"doms": doms, "probs": probs}}


# ------------------------------------------------------------------------------------------ model literals
def c_owner(name):
    if name == "M":
        return "OMod"
    return {"D": "(ODom %s)", "S": "(OSt %s)", "O": "(OOp %s)"}[name[0]] % name[1:]


def c_shape(act, args, keys):
    def key(f):
        k = act.ground_key(f, args)
        return keys.setdefault(k, len(keys))
    n_pre = len(act.pre_leaves) + sum(len(g["ante"]) for g in act.groups)
    effs = ["(%d, %d)" % (key(t), len(le)) for g in act.groups for (t, le) in g["effs"]]
    return "{| a_pre := %d; a_effs := %s; a_forall := %d |}" % (n_pre, clist(effs), act.n_forall)


def c_members(job, keys, members, apps):
    """a joint action for the model (Model/Store.v `member`): None = nop, Some = the schema's index and shape and the
    value-level fact "applicable in the state the joint action is applied to" (from the driver's own operators)"""
    shape = job["_shape"]
    out, it = [], iter(apps)
    for m in members:
        if m.get("nop"):
            out.append("None")
            continue
        act = shape["doms"][0].actions[m["ai"]]
        out.append("(Some {| mb_act := %d; mb_sh := %s; mb_app := %s |})" % (m["ai"], c_shape(act, m["args"], keys),
                                                                             cbool(next(it, False) is True)))
    return clist(out)


def c_op(step, job, keys, plans=None):
    """the model operations for one executed step (a list: parse_plan is one trajectory step per action, the
    trajectory export reads every state of the plan); only the last one is observed"""
    plans = plans if plans is not None else []
    if step.get("skipped"):
        return ["ONop"]
    op, res = step["op"], step["res"]
    k = op["k"]
    shape = job["_shape"]
    failed = "raised" in res
    if k == "parse_domain":
        if failed:
            return ["ONop"]
        d = shape["doms"][op["src"]]
        return ["(OParseDomain %s %d)" % (cbool(d.typed), len(d.actions))]
    if k == "new_domain":
        return ["ONop" if failed else "ONewDomain"]
    if k == "combine":
        n_ma = job["ma_nacts"][op["src"]] if job.get("ma_nacts") else len(job["ma"][op["src"]])
        return ["ONop" if failed else "(OCombine %d)" % (n_ma + (2 if op.get("dummy") else 0))]
    if k == "shallow_copy":
        return ["ONop" if failed else "(OShallowCopy %d)" % op["dom"]]
    if k == "parse_problem":
        if failed:
            return ["ONop"]
        ks = [keys.setdefault(x, len(keys)) for x in shape["probs"][op["src"]][1]]
        return ["(OParseProblem %d %s)" % (op["dom"], clist(str(x) for x in ks))]
    if k == "mk_op":
        if failed:
            return ["ONop"]
        act = shape["doms"][0].actions[op["ai"]]
        objs = "None" if op.get("objs") is None else "(Some %d)" % op["objs"]
        return ["(OMkOp %d %d %s %s)" % (op["dom"], op["ai"], objs, c_shape(act, op["args"], keys))]
    if k == "ground":
        return ["ONop" if failed else "(OGround %d)" % op["op"]]
    if k == "applicable":
        return ["ONop" if failed else "(OApplicable %d %d)" % (op["op"], op["st"])]
    if k == "apply":
        if failed and res["raised"] != "ValueError":
            return ["ONop"]
        return ["(OApply %d %d %s %s)" % (op["op"], op["st"], cbool(op.get("skip")), cbool(failed))]
    if k == "copy":
        return ["ONop" if failed else "(OCopy %d)" % op["st"]]
    if k in ("serialize", "typed_serialize", "state_objects", "export_problem"):
        return ["(OReadState %d)" % op["st"]]
    if k == "state_eq":
        return ["(OReadState %d)" % op["st"], "(OReadState %d)" % op["st2"]]
    if k in ("export", "str_action", "str_domain"):
        return ["(OReadDomain %d)" % op["dom"]]
    if k == "str_op":
        return ["(OReadOp %d)" % op["op"]]
    if k == "triplet":
        if failed:
            return ["ONop"]
        act = shape["doms"][0].actions[op["ai"]]
        return ["(OTriplet %d %d %d %d %s %s)" % (op["dom"], op["ai"], op["st"], op["objs"],
                                                   c_shape(act, op["args"], keys), cbool(res.get("refused")))]
    if k == "plan":
        if failed:
            return ["ONop"]
        out, src = [], op["objs"]
        for i, (c, refused) in enumerate(zip(op["calls"], res["refused"])):
            act = shape["doms"][0].actions[c["ai"]]
            out.append("(OTriplet %d %d %d %d %s %s)" % (op["dom"], c["ai"], src, op["objs"],
                                                          c_shape(act, c["args"], keys), cbool(refused)))
            src = res["base_s"] + i
        plans.append((op["objs"], res["base_s"], res["n"]))
        return out
    if k in ("joint", "ma_triplet", "ma_plan") and failed and res["raised"] != "ValueError":
        return ["ONop"]
    # joint-action calls are rendered by the MODEL (Corr/C07.v `render`), from the call's arguments
    if k == "joint":
        objs = "None" if op.get("objs") is None else "(Some %d)" % op["objs"]
        return ("call", "(CJoint %d %d %s %s %s)" % (op["dom"], op["st"], objs, c_members(job, keys, op["members"], res["apps"]),
                                                     cbool(op.get("allow"))))
    if k == "ma_triplet":
        return ("call", "(CMaTriplet %d %d %d %s %s)" % (op["dom"], op["st"], op["objs"],
                                                         c_members(job, keys, op["members"], res["apps"]),
                                                         cbool(op.get("allow") or op.get("allow_exporter"))))
    if k == "ma_plan":
        # the steps the call got to (the driver's own run of the plan stops at the step that raises)
        steps = [c_members(job, keys, members, apps) for members, apps in zip(op["steps"], res["apps"])]
        if not failed:
            plans.append(("ma", op["objs"], res.get("plan_states", [])))
        return ("call", "(CMaPlan %d %d %s %s)" % (op["dom"], op["objs"], clist(steps), cbool(op.get("allow") or op.get("allow_exporter"))))
    if k == "ma_export_traj":
        if failed:
            return ["ONop"]
        ma = [p for p in plans if p[0] == "ma"]
        _, pj, states = ma[op["maplan"]]
        return ["(OReadState %d)" % pj] + ["(OReadState %d)" % x for x in states]
    if k == "export_traj":
        if failed:
            return ["ONop"]
        pj, base, n = [p for p in plans if p[0] != "ma"][op["plan"]]
        return ["(OReadState %d)" % pj] + ["(OReadState %d)" % (base + i) for i in range(n)]
    if k == "convert_plan":
        # reads the schema and the problem (its simulation runs on temporaries: operators and successor states nobody keeps)
        return ["(OReadDomain %d)" % op["dom"], "(OReadState %d)" % op["objs"]]
    if k == "parse_traj":
        # export (reads every state of the plan), then one ONewState per State the parser reads from the text and one
        # OCopy per `previous_state = next_state.copy()` whose result is kept (all but the last)
        if failed:
            return ["ONop"]
        pj, base, n = [p for p in plans if p[0] != "ma"][op["plan"]]
        out = ["(OReadState %d)" % pj] + ["(OReadState %d)" % (base + i) for i in range(n)]
        ks = lambda names: clist(str(keys.setdefault(x, len(keys))) for x in names)
        idx, fl = res["base_s"], res["fluents"]
        out.append("(ONewState %d %d %s)" % (res["dom"], res["pj"], ks(fl[0])))
        idx += 1
        for i in range(res["n"]):
            out.append("(ONewState %d %d %s)" % (res["dom"], res["pj"], ks(fl[i + 1])))
            if i < res["n"] - 1:
                out.append("(OCopy %d)" % idx)
                idx += 1
            idx += 1
        return out
    raise ValueError(k)


def c_cfg(cfg):
    return "{| fix15 := %s; fix16 := %s; fix17 := %s; fix18 := %s |}" % tuple(cbool(cfg[d]) for d in DEFECTS)


def history_case(job, res, cfg):
    keys, plans = {}, []
    steps = []
    for st in res["steps"]:
        changed = st.get("changed", [])
        sharing = st.get("sharing")
        if sharing is None:       # skipped step: the sharing graph is that of the previous step
            sharing = prev_sharing(res["steps"], st)
        mops = c_op(st, job, keys, plans)
        call = mops[1] if isinstance(mops, tuple) else "(CSeq %s)" % clist(mops)
        steps.append("{| cs_call := %s; cs_changed := %s; cs_sharing := %s |}" % (
            call, clist(c_owner(n) for n in changed),
            clist("(%s, %s)" % (c_owner(a), c_owner(b)) for a, b, _ in sharing if not (a[0] == "O" and b[0] == "O"))))
    # what the model has no cell for crosses as part of the repeat verdict: answers / values of the independent world,
    # objects shared with it (the process-wide statics are part of the module root M, i.e. of so_changed)
    repeat_ok = (not res["repeat_mismatch"] and not res["repeat_changed"] and not res["module_leak"] and not res.get("indep")
                 and not res.get("twin_mismatch"))
    return "{| c_cfg := %s; c_calls := %s; c_repeat_ok := %s; c_thread := None |}" % (
        c_cfg(cfg), clist(steps), cbool(repeat_ok))


def prev_sharing(steps, st):
    last = []
    for s in steps:
        if s is st:
            return last
        if "sharing" in s:
            last = s["sharing"]
    return last


def thread_case(res, cfg):
    """real threads: only the verdict of the differential run crosses"""
    ok = (res.get("n_diffs") == 0 and res.get("n_foreign") == 0 and res.get("domain_changed_rounds") == 0
          and not res.get("module_leak"))
    return ("{| c_cfg := %s; c_calls := []; c_repeat_ok := true; c_thread := Some {| t_ok := %s; t_prefix := []; "
            "t_threads := []; t_sched := [] |} |}" % (c_cfg(cfg), cbool(ok)))


def c_cell(name):
    if name == "T":
        return "(ODom 0, 0)"
    if name == "X":
        return "(ODom 0, 1)"
    return "(ODom 0, %d)" % (2 + int(name[1:]))


def sched_ok_py(res):
    return (res.get("n_diffs") == 0 and res.get("domain_changed_runs") == 0 and not res.get("module_leak")
            and not res.get("errors"))


def sched_case(job, res, cfg):
    """deterministic scheduler: per call of every thread the shared cells read / written (union over all schedules),
    one recorded schedule, and the verdict of the differential runs"""
    main = job["_shape"]["doms"][0]
    threads = []
    for t, steps in enumerate(res["ref"]):
        keys, plans, out = {}, [], []
        for i, st in enumerate(steps):
            mops = c_op(st, job, keys, plans)
            assert len(mops) == 1, "composite calls are not generated for scheduled threads"
            f = res["foot"][t][i]
            out.append("{| ts_op := %s; ts_reads := %s; ts_writes := %s |}" % (
                mops[0], clist(c_cell(c) for c in f["r"]), clist(c_cell(c) for c in f["w"])))
        threads.append(clist(out))
    sample, last = [], None
    for t, kind, cell in res.get("sample", []):
        ev = "(%d, %s %s)" % (t, "Write" if kind == "W" else "Read", c_cell(cell))
        if ev != last:
            sample.append(ev)
            last = ev
    prefix = "[OParseDomain %s %d]" % (cbool(main.typed), len(main.actions))
    return ("{| c_cfg := %s; c_calls := []; c_repeat_ok := true; c_thread := Some {| t_ok := %s; t_prefix := %s; "
            "t_threads := %s; t_sched := %s |} |}" % (c_cfg(cfg), cbool(sched_ok_py(res)), prefix, clist(threads),
                                                      clist(sample[:150])))


# ------------------------------------------------------------------------------------------ thread jobs
def gen_thread_job(rng, tid, tier):
    """N histories over ONE shared domain; each thread has its own problem, operators and states"""
    main = GenDomain(rng, "d0", typed=True, n_actions=rng.randint(1, 3))
    while not any(a.n_forall for a in main.actions) and rng.random() < 0.8:
        main = GenDomain(rng, "d0", typed=True, n_actions=rng.randint(1, 3))
    n = rng.randint(2, 4)
    probs = [gen_problem(rng, main, "pr%d" % j) for j in range(n)]
    threads = []
    for t in range(n):
        ops = [{"k": "parse_problem", "src": t, "dom": 0}]
        for _ in range(rng.randint(6, 14) if tier == "quick" else rng.randint(10, 24)):
            r = rng.random()
            a = rng.randrange(len(main.actions))
            act = main.actions[a]
            args = [rng.choice(objs_of(ty)) for _, ty in act.params]
            if r < 0.25 or len(ops) == 1:
                ops.append({"k": "mk_op", "dom": 0, "act": act.name, "ai": a, "args": args, "objs": 0})
            elif r < 0.6:
                ops.append({"k": "apply", "op": rng.randrange(8), "st": rng.randrange(16),
                            "allow": rng.random() < 0.6, "skip": rng.random() < 0.3})
            elif r < 0.7:
                ops.append({"k": "triplet", "dom": 0, "st": rng.randrange(16), "objs": 0, "ai": a, "args": args,
                            "call": "(%s %s)" % (act.name, " ".join(args)), "allow": rng.random() < 0.5})
            elif r < 0.8:
                ops.append({"k": "str_action", "dom": 0, "act": act.name, "ai": a})
            elif r < 0.88:
                ops.append({"k": "export", "dom": 0})
            elif r < 0.91:
                ops.append({"k": "str_op", "op": rng.randrange(8)})
            elif r < 0.94:
                # a plan of the thread's own, its trajectory written and read back, a sequential plan regrouped
                calls = []
                for _ in range(rng.randint(2, 3)):
                    a2 = rng.randrange(len(main.actions))
                    act2 = main.actions[a2]
                    args2 = [rng.choice(objs_of(ty)) for _, ty in act2.params]
                    calls.append({"ai": a2, "args": args2, "call": "(%s %s)" % (act2.name, " ".join(args2))})
                ops.append({"k": "plan", "dom": 0, "objs": 0, "calls": calls, "allow": rng.random() < 0.5})
                ops.append({"k": "parse_traj", "plan": rng.randrange(4), "noprob": rng.random() < 0.25})
                ops.append({"k": "convert_plan", "dom": 0, "objs": 0, "calls": calls, "agents": objs_of("a"),
                            "validate": rng.random() < 0.7, "filter": True})
            else:
                ops.append({"k": "applicable", "op": rng.randrange(8), "st": rng.randrange(16)})
        threads.append(ops)
    return {"op": "c07.threads", "id": tid, "doms": [main.text()], "probs": [p[0] for p in probs], "ma": [],
            "threads": threads, "rounds": 3 if tier == "quick" else 8}


def gen_sched_job(rng, sid, tier, n_threads=None):
    """short histories for the deterministic scheduler: every thread parses its own problem, builds its own
    operators on the SHARED domain and mixes transitions with readers of the shared schema"""
    main = GenDomain(rng, "d0", typed=True, n_actions=rng.randint(1, 2))
    while not any(a.n_forall for a in main.actions):
        main = GenDomain(rng, "d0", typed=True, n_actions=rng.randint(1, 2))
    n = n_threads or (2 if tier == "quick" or rng.random() < 0.6 else 3)
    probs = [gen_problem(rng, main, "pr%d" % j) for j in range(n)]
    fa = [i for i, a in enumerate(main.actions) if a.n_forall]
    threads = []
    for t in range(n):
        def call(prefer_forall):
            a = rng.choice(fa) if prefer_forall else rng.randrange(len(main.actions))
            act = main.actions[a]
            return a, act, [rng.choice(objs_of(ty)) for _, ty in act.params]
        a, act, args = call(True)
        ops = [{"k": "parse_problem", "src": t, "dom": 0},
               {"k": "mk_op", "dom": 0, "act": act.name, "ai": a, "args": args, "objs": 0}]
        for _ in range(rng.randint(2, 4) if tier == "quick" else rng.randint(3, 6)):
            r = rng.random()
            a, act, args = call(rng.random() < 0.6)
            if r < 0.35:
                ops.append({"k": "apply", "op": rng.randrange(4), "st": rng.randrange(8), "allow": rng.random() < 0.8,
                            "skip": rng.random() < 0.2})
            elif r < 0.45:
                ops.append({"k": "mk_op", "dom": 0, "act": act.name, "ai": a, "args": args, "objs": 0})
            elif r < 0.55:
                ops.append({"k": "triplet", "dom": 0, "st": rng.randrange(8), "objs": 0, "ai": a, "args": args,
                            "call": "(%s %s)" % (act.name, " ".join(args)), "allow": rng.random() < 0.5})
            elif r < 0.7:
                ops.append({"k": "str_action", "dom": 0, "act": act.name, "ai": a})
            elif r < 0.8:
                ops.append({"k": "export", "dom": 0})
            elif r < 0.86:
                ops.append({"k": "str_op", "op": rng.randrange(4)})
            elif r < 0.92:
                ops.append({"k": "applicable", "op": rng.randrange(4), "st": rng.randrange(8)})
            elif r < 0.96:
                ops.append({"k": "str_domain", "dom": 0})
            else:
                ops.append({"k": "export_problem", "st": 0})
        threads.append(ops)
    return {"op": "c07.sched", "id": sid, "doms": [main.text()], "probs": [p[0] for p in probs], "ma": [],
            "threads": threads, "random": 8 if tier == "quick" else 40, "seed": rng.randrange(10 ** 6),
            "max_points": 150 if tier == "quick" else (300 if n == 2 else 150),
            "_shape": {"doms": [main], "probs": probs}}


# ------------------------------------------------------------------------------------------ shrinking
def public(job):
    return {k: v for k, v in job.items() if k != "_shape"}


def dirty(res):
    """the oracle's verdict on one history result (independent of the model)"""
    if "steps" not in res:
        return True
    if res["repeat_mismatch"] or res["repeat_changed"] or res["module_leak"] or res.get("indep") or res.get("twin_mismatch"):
        return True
    for st in res["steps"]:
        if st.get("changed"):
            return True
        for a, b, _ in st.get("sharing", []):
            if a[0] != "O" and b[0] != "O":
                return True
    return False


def shrink(job, still_bad, budget=40):
    """delta-debugging on the op sequence: drop ops while the oracle still reports the violation"""
    ops = list(job["ops"])
    last = None
    if job.get("indep"):
        # is the independent world needed to see the failure?  (it is when building it is itself the failing history)
        budget -= 1
        r = run_impl([dict(public(job), indep=None)], nproc=1)[0]
        if still_bad(r):
            job, last = dict(job, indep=None), r
    i = len(ops) - 1
    while i >= 0 and budget > 0:
        cand = ops[:i] + ops[i + 1:]
        budget -= 1
        r = run_impl([dict(public(job), ops=cand)], nproc=1)[0]
        if still_bad(r):
            ops, last = cand, r
        i -= 1
    return dict(job, ops=ops), last


def summary_of(res):
    """what the oracle saw in one history result, for a replay file"""
    if not isinstance(res, dict) or "steps" not in res:
        return res
    return {"changed": [[i, s["changed"], s.get("statics_changed", [])] for i, s in enumerate(res["steps"]) if s.get("changed")],
            "value_sharing": sorted({(a, b) for s in res["steps"] for a, b, _ in s.get("sharing", []) if a[0] != "O" and b[0] != "O"}),
            "repeat_mismatch": res["repeat_mismatch"], "repeat_changed": res["repeat_changed"], "module_leak": res["module_leak"],
            "independent_world": res.get("indep", []),
            "independent_world_build": res.get("statics_changed_while_building_independent_world", []),
            "answers_differ_from_the_run_without_the_independent_world": res.get("twin_mismatch", [])}


# ------------------------------------------------------------------------------------------ shipped fixtures
class FxAction:
    """shape of a shipped action as far as the verdict needs it: the footprint model's predictions of changed values
    and of the sharing graph do not depend on the numbers of leaves / numeric effects (they only size the operator's
    private region), so the default shape is used"""
    pre_leaves, groups, params, n_forall = [], [], [], 0

    def __init__(self, name):
        self.name = name

    def ground_key(self, f, args):
        return ""


class FxDomain:
    def __init__(self, text):
        self.typed = "(:types" in text.lower()
        self.actions = [FxAction(n) for n in re.findall(r"\(\s*:action\s+([^\s()]+)", text.lower())]


FIXTURES = [("elevators_domain.pddl", "elevators_p03.pddl", "elevators_p03_plan.solution"),
            ("depot_numeric.pddl", "pfile2.pddl", "depot_numeric.solution"),
            ("depot_numeric.pddl", "pfile2.pddl", "depot_numeric_faulty.solution"),
            ("domain_spider.pddl", "pfile01_spider.pddl", "pfile01_spider.solution"),
            ("minecraft_domain.pddl", "minecraft_problem.pddl", "minecraft_pfile0.solution"),
            ("domain_miconic.pddl", "miconic_problem.pddl", "miconic_solution.solution")]
MA_FIXTURES = ["blocks_ma_problem", "multi_agent_problem"]


def fixture_jobs(rng, tier, seed=0):
    """histories over the repository's own domains, problems and plans (tests/exporters_tests) and agent domains
    (tests/multi_agent_tests): parse, the shipped plan through parse_plan (strict and lenient), trajectory / domain /
    problem export, re-application of the plan's first operators to earlier and later states, combine"""
    base = Path(REPO) / "tests"
    jobs = []
    ma, ma_nacts = [], []
    for d in MA_FIXTURES:
        texts = [f.read_text() for f in sorted((base / "multi_agent_tests" / d).glob("domain-*.pddl"))]
        if texts:
            ma.append(texts)
            ma_nacts.append(len({n for t in texts for n in re.findall(r"\(\s*:action\s+([^\s()]+)", t.lower())}))
    for fi, (df, pf, sf) in enumerate(FIXTURES):
        if tier == "quick" and fi % 2 != seed % 2:
            continue                 # quick: every other shipped fixture (alternating with the seed); thorough: all
        try:
            dtext, ptext = (base / "exporters_tests" / df).read_text(), (base / "exporters_tests" / pf).read_text()
            lines = [l.strip().lower() for l in (base / "exporters_tests" / sf).read_text().splitlines() if l.strip().startswith("(")]
        except OSError:
            continue
        dom = FxDomain(dtext)
        names = [a.name for a in dom.actions]
        calls = []
        for l in lines:
            toks = l.replace("(", " ").replace(")", " ").split()
            if toks and toks[0] in names:
                calls.append({"ai": names.index(toks[0]), "args": toks[1:], "call": "(%s)" % " ".join(toks)})
        if not calls:
            continue
        k = min(len(calls), 5 if tier == "quick" else 14)
        start = 0 if tier == "quick" or len(calls) <= k else rng.randrange(0, 2)
        plan = calls[:k]
        ops = [{"k": "parse_domain", "src": 0}, {"k": "parse_problem", "src": 0, "dom": 0},
               {"k": "plan", "dom": 0, "objs": 0, "calls": plan, "allow": False},
               {"k": "export_traj", "plan": 0}, {"k": "parse_traj", "plan": 0, "noprob": False},
               {"k": "export", "dom": 0}, {"k": "export_problem", "st": 0}, {"k": "str_domain", "dom": 0}]
        # the plan's first operators again, on the initial state and on later states (also out of order)
        for j in range(min(3, k)):
            c = plan[j]
            ops.append({"k": "mk_op", "dom": 0, "act": names[c["ai"]], "ai": c["ai"], "args": c["args"], "objs": 0})
            ops.append({"k": "apply", "op": k + j, "st": j, "allow": False, "skip": False})
            ops.append({"k": "apply", "op": j, "st": rng.randrange(k + 1), "allow": True, "skip": rng.random() < 0.3})
            ops.append({"k": "triplet", "dom": 0, "st": rng.randrange(k + 1), "objs": 0, "ai": c["ai"], "args": c["args"],
                        "call": c["call"], "allow": False})
        ops += [{"k": "plan", "dom": 0, "objs": 0, "calls": list(reversed(plan))[:4], "allow": False},
                {"k": "plan", "dom": 0, "objs": 0, "calls": plan[:4], "allow": True},
                {"k": "export_traj", "plan": 1}, {"k": "state_eq", "st": 1, "st2": k + 1},
                {"k": "serialize", "st": 2}, {"k": "str_action", "dom": 0, "act": names[plan[0]["ai"]], "ai": plan[0]["ai"]},
                {"k": "str_op", "op": 0}, {"k": "shallow_copy", "dom": 0}]
        if ma:
            ops += [{"k": "combine", "src": fi % len(ma), "dummy": fi % 2 == 1}, {"k": "new_domain"}, {"k": "export", "dom": 2}]
        ops += [{"k": "parse_domain", "src": 0}, {"k": "export", "dom": 0}, {"k": "export_traj", "plan": 0}]
        jobs.append({"op": "c07.history", "id": "fx%d" % fi, "doms": [dtext], "probs": [ptext], "ma": ma, "ma_nacts": ma_nacts,
                     "ops": ops, "style": "fixture", "fixture": [df, pf, sf], "indep": gen_indep(rng),
                     "_shape": {"doms": [dom], "probs": [(ptext, [], [])]}})
    return jobs


# ------------------------------------------------------------------------------------------ the check
def witness_jobs():
    """the recorded witnesses of D15-D18 (findings.d/C07.json), as histories"""
    dom = ("(define (domain d0)\n(:requirements :typing :fluents :conditional-effects)\n(:types a b - object)\n"
           "(:predicates (p ?x - a) (q ?y - b) (r ?x - a ?y - b) (z))\n(:functions (f ?x - a) (g ?y - b) (h))\n"
           "(:action act0\n  :parameters (?x - a)\n  :precondition (and (p ?x) (>= (f ?x) 0))\n"
           "  :effect (and (z) (increase (f ?x) 1) (forall (?v0 - b) (when (q ?v0) (and (not (q ?v0)))))))\n)")
    prob = ("(define (problem pr0) (:domain d0)\n(:objects b1 b2 - b a1 a2 - a)\n"
            "(:init (p a1) (q b1) (q b2) (= (f a1) 0) (= (f a2) 5) (= (h) 0))\n(:goal (and (z))))")

    class A:
        name, params, pre_leaves, n_forall = "act0", [("?x", "a")], [("f", ["?x"])], 1
        groups = [{"ante": [], "effs": [(("f", ["?x"]), [])]}]
        ground_key = GenAction.ground_key

    class D:
        typed, actions = True, [A()]
    keys = ["(f a1)", "(f a2)", "(h)"]
    shape = {"doms": [D()], "probs": [(prob, keys, [])]}
    base = [{"k": "parse_domain", "src": 0}, {"k": "parse_problem", "src": 0, "dom": 0},
            {"k": "mk_op", "dom": 0, "act": "act0", "ai": 0, "args": ["a1"], "objs": 0}]
    ag = [gen_agent_domain(random.Random(0), 0, True)]
    mk = lambda wid, ops: {"op": "c07.history", "id": wid, "doms": [dom], "probs": [prob], "ma": [ag], "ops": ops,
                           "style": "witness", "witness": wid, "indep": gen_indep(random.Random(len(wid) + len(ops))), "_shape": shape}
    return [
        mk("D15", base + [{"k": "apply", "op": 0, "st": 0, "allow": False, "skip": False}, {"k": "str_action", "dom": 0, "act": "act0", "ai": 0}]),
        mk("D16", base + [{"k": "apply", "op": 0, "st": 0, "allow": False, "skip": False}, {"k": "apply", "op": 0, "st": 1, "allow": False, "skip": False}]),
        mk("D17", base[:2] + [{"k": "triplet", "dom": 0, "st": 0, "objs": 0, "ai": 0, "args": ["a2"], "call": "(act0 a2)", "allow": False}]),
        mk("D18", [{"k": "new_domain"}, {"k": "combine", "src": 0, "dummy": False}, {"k": "new_domain"}]),
    ]


def run(args):
    rep = Report(PROP, args.tier, args.seed)
    standard_proof_part(rep, PROP)
    rng = random.Random(args.seed * 104729 + 7)
    findings = {f["id"]: f for f in load_findings(PROP)}
    # a repair that is recorded as fixed is part of the model's configuration; an open finding is reproduced by it
    cfg = {d: findings.get(d, {}).get("status") != "open" for d in DEFECTS}
    # scratch runs against a tree that carries a PROPOSED repair (VERIF_REPO=<worktree> VERIF_C07_ASSUME_FIXED=D17):
    # the model is configured as if the finding were recorded as fixed; the registered check never sets this
    for d in os.environ.get("VERIF_C07_ASSUME_FIXED", "").split(","):
        if d in cfg:
            cfg[d] = True
    def oracle_bad(r):
        return (("steps" in r and dirty(r))
                or ("n_runs" in r and (r["n_diffs"] or r["n_shared_writes"] or r["domain_changed_runs"] or r["module_leak"]))
                or ("n_foreign" in r and (r["n_diffs"] or r["n_foreign"] or r["domain_changed_rounds"]))
                or "raised" in r)

    def only_d17(r):
        """the oracle's complaint is exactly the open finding D17: value sharing, and only in a history with a refused step"""
        open_ids = [d for d in DEFECTS if not cfg[d]]
        return (open_ids == ["D17"] and "steps" in r and not any(s.get("changed") for s in r["steps"])
                and not r["repeat_mismatch"] and not r["repeat_changed"] and not r["module_leak"] and not r.get("indep")
                and not r.get("twin_mismatch")
                and any(s["op"]["k"] in ("triplet", "plan") and (s["res"].get("refused") is True or (isinstance(s["res"].get("refused"), list) and any(s["res"]["refused"])))
                        for s in r["steps"] if not s.get("skipped")))

    if args.replay:
        data = json.load(open(args.replay))
        jobs = [data["input"]["job"]]
        for j in jobs:
            j["_shape"] = None
        # a replay re-executes the history on the current tree and applies the oracle directly
        res = run_impl([public(j) for j in jobs], nproc=1)
        bad = [r for r in res if oracle_bad(r)]
        rep.coverage.update({"evaluations": len(jobs), "distinct_nontrivial": len(jobs), "samples": [public(jobs[0])],
                             "rule": "replay of one recorded history; oracle only (digests, sharing, repeats, schedules)",
                             "replay_result": res})
        for r in bad:
            if only_d17(r):
                rep.known("D17: %s" % findings["D17"].get("what", ""))
            else:
                rep.violation(write_replay(PROP, "replay_again", {"kind": "input", "input": {"job": public(jobs[0])}, "result": r}), True)
        return rep.finish()

    # the corpus: minimised histories / schedules that exposed seeded defects (work of the mutation self-test); oracle only
    corpus_files = sorted((ROOT / "corpus" / PROP).glob("*.json"))
    cjobs = [json.load(open(f))["job"] for f in corpus_files]
    cres = run_impl(cjobs, nproc=min(8, max(1, len(cjobs)))) if cjobs else []
    for f, j, r in zip(corpus_files, cjobs, cres):
        if oracle_bad(r) and not only_d17(r):
            rep.violation(write_replay(PROP, "corpus_%s" % f.stem, {"kind": "input", "why": "corpus history fails the oracle", "input": {"job": j}, "result": r}), True)
    rep.coverage["corpus"] = {"files": len(corpus_files), "failing": sum(1 for r in cres if oracle_bad(r) and not only_d17(r)),
                              "known_d17_only": sum(1 for r in cres if oracle_bad(r) and only_d17(r))}

    n_hist = 200 if args.tier == "quick" else 1800
    n_thr = 10 if args.tier == "quick" else 60
    jobs = witness_jobs() + fixture_jobs(rng, args.tier, args.seed)
    for i in range(n_hist):
        jobs.append(gen_history(rng, i, args.tier))
    hashseeds = [args.seed % 1000] if args.tier == "quick" else [args.seed % 1000, 1 + args.seed % 1000, 2 + args.seed % 1000]
    results = [None] * len(jobs)
    timing = {}
    t0 = time.time()
    for k, hs in enumerate(hashseeds):
        idx = [i for i in range(len(jobs)) if i % len(hashseeds) == k or jobs[i].get("witness") or jobs[i].get("fixture")]
        out = run_impl([public(jobs[i]) for i in idx], hashseed=hs)
        for i, r in zip(idx, out):
            results[i] = r
    timing["impl_histories_s"] = round(time.time() - t0, 1)
    t0 = time.time()
    tjobs = [gen_thread_job(rng, i, args.tier) for i in range(n_thr)]
    tres = run_impl(tjobs, hashseed=hashseeds[0], nproc=min(8, len(tjobs)))
    timing["impl_real_threads_s"] = round(time.time() - t0, 1)
    t0 = time.time()
    n_sched = 4 if args.tier == "quick" else 14
    sjobs = [gen_sched_job(rng, i, args.tier) for i in range(n_sched)]
    sres = run_impl([public(j) for j in sjobs], hashseed=hashseeds[0], nproc=min(16, len(sjobs)))
    timing["impl_scheduler_s"] = round(time.time() - t0, 1)

    cases, kinds, nsteps, raised, refused = [], {}, {}, 0, 0
    rep_calls, rep_init, traj_ok, traj_raised, indep_states, indep_rep = 0, 0, 0, 0, 0, 0

    def repeats(args):
        return len(set(args)) < len(args)
    joint_stats = {"nobody_acts": 0, "one_member_acts": 0, "several_members_act": 0, "refused": 0,
                   "allowed_inapplicable": 0, "plans_with_an_idle_first_step": 0, "temporary_operators_kept": 0,
                   "temporary_states_kept": 0}

    def count_joint(op, r):
        groups = op["steps"] if op["k"] == "ma_plan" else [op["members"]]
        for g, apps in zip(groups, r.get("apps", []) if op["k"] == "ma_plan" else [r.get("apps", [])]):
            n_act = sum(1 for m_ in g if not m_.get("nop"))
            joint_stats["nobody_acts" if n_act == 0 else "one_member_acts" if n_act == 1 else "several_members_act"] += 1
            if any(a is not True for a in apps) and (op.get("allow") or op.get("allow_exporter")):
                joint_stats["allowed_inapplicable"] += 1
        joint_stats["refused"] += 1 if r.get("raised") == "ValueError" else 0
        joint_stats["temporary_operators_kept"] += r.get("n_ops", 0)
        joint_stats["temporary_states_kept"] += r.get("n_states", 0)
        if op["k"] == "ma_plan" and groups and all(m_.get("nop") for m_ in groups[0]):
            joint_stats["plans_with_an_idle_first_step"] += 1
    for job, res in zip(jobs, results):
        if "steps" not in res:
            p = write_replay(PROP, "driver_failed_%s" % job["id"], {"kind": "correspondence", "why": "history driver failed", "input": {"job": public(job)}, "result": res})
            rep.violation(p, False)
            continue
        if dirty(res) and not job.get("witness") and args.tier == "quick":
            pass
        lit = history_case(job, res, cfg)
        executed = [s for s in res["steps"] if not s.get("skipped")]
        for s in executed:
            kinds[s["op"]["k"]] = kinds.get(s["op"]["k"], 0) + 1
            raised += 1 if "raised" in s["res"] else 0
            refused += 1 if s["res"].get("refused") else 0
            if s["op"]["k"] in ("mk_op", "triplet"):
                rep_calls += 1 if repeats(s["op"].get("args", [])) else 0
            if s["op"]["k"] == "plan":
                rep_calls += sum(1 for c in s["op"]["calls"] if repeats(c["args"]))
            if s["op"]["k"] in ("joint", "ma_triplet", "ma_plan"):
                count_joint(s["op"], s["res"])
            if s["op"]["k"] == "parse_traj":
                traj_ok, traj_raised = traj_ok + ("raised" not in s["res"]), traj_raised + ("raised" in s["res"])
        rep_init += 1 if any(re.search(r"\(= \((\w+) (\w+) \2\)", p) for p in job["probs"]) else 0
        indep_states += (res.get("indep_world") or {}).get("states", 0)
        indep_rep += 1 if job.get("indep") and any(repeats(c["args"]) for c in job["indep"]["calls"]) else 0
        nsteps[len(executed)] = nsteps.get(len(executed), 0) + 1
        has_ref = any(s["res"].get("refused") for s in executed)
        n_state_ops = sum(1 for s in executed if s["op"]["k"] in ("apply", "triplet", "combine", "copy", "joint", "ma_triplet", "ma_plan"))
        cases.append({"lit": lit,
                      "input": {"job": public(job), "resolved": [s.get("op") for s in res["steps"]],
                                "observed": {"changed": [[i, s["changed"]] for i, s in enumerate(res["steps"]) if s.get("changed")],
                                             "value_sharing": sorted({(a, b) for s in res["steps"] for a, b, _ in s.get("sharing", []) if a[0] != "O" and b[0] != "O"}),
                                             "repeat_mismatch": res["repeat_mismatch"], "repeat_changed": res["repeat_changed"],
                                             "module_leak": res["module_leak"],
                                             "process_statics_changed": res.get("statics_changed", []),
                                             "independent_world": res.get("indep", []),
                                             "independent_world_build": res.get("statics_changed_while_building_independent_world", []),
                                             "answers_differ_from_the_run_without_the_independent_world": res.get("twin_mismatch", [])}},
                      "nontrivial": len(executed) >= 3 and n_state_ops >= 1,
                      "witness_of": job.get("witness") if (job.get("witness") and not cfg.get(job.get("witness"), True)) else None,
                      "klass": "D17" if has_ref else None, "_job": job, "_res": res})
    for job, res in zip(tjobs, tres):
        if "n_diffs" not in res:
            p = write_replay(PROP, "thread_driver_failed_%s" % job["id"], {"kind": "correspondence", "why": "thread driver failed", "input": {"job": job}, "result": res})
            rep.violation(p, False)
            continue
        cases.append({"lit": thread_case(res, cfg), "input": {"job": job, "observed": res}, "nontrivial": True,
                      "witness_of": None, "klass": None})
    for job, res in zip(sjobs, sres):
        if "n_runs" not in res:
            p = write_replay(PROP, "sched_driver_failed_%s" % job["id"], {"kind": "correspondence", "why": "scheduler driver failed", "input": {"job": public(job)}, "result": res})
            rep.violation(p, False)
            continue
        cases.append({"lit": sched_case(job, res, cfg),
                      "input": {"job": public(job), "observed": {k: v for k, v in res.items() if k not in ("ref", "foot", "sample")},
                                "footprints": res["foot"]},
                      "nontrivial": res["switches"] > 0, "witness_of": None, "klass": None})
    t0 = time.time()
    verdicts, info = run_case_shards(PROP, "Corr.C07", [c["lit"] for c in cases], shard_size=40, max_bytes=100_000, run_fn="Verif.Corr.C07.run",
                                     header_extra="From Verif Require Import Model.Store.\n")
    timing["coq_cases_s"] = round(time.time() - t0, 1)
    # shrink failing histories (oracle-dirty outside the known class) before they are written as replays
    n_shrunk = 0
    for i, (c, ch) in enumerate(zip(cases, verdicts)):
        if ch in "oA" and "_job" in c and 3 < len(c["_job"]["ops"]) <= 14 and n_shrunk < 3:
            n_shrunk += 1
            small, last = shrink(c["_job"], lambda r: oracle_bad(r) and not only_d17(r), budget=20)
            c["input"]["job"] = public(small)
            c["input"]["shrunk_from_ops"] = len(c["_job"]["ops"])
            if last is not None:
                c["input"]["observed_on_shrunk_history"] = summary_of(last)
    for c in cases:
        c.pop("_job", None)
        c.pop("_res", None)
    decide(rep, PROP, "Corr.C07", cases, verdicts, info, explain_expr="explain %s",
           header_extra="From Verif Require Import Model.Store.\n")
    cov = rep.coverage
    cov["configuration"] = {d: ("repaired" if cfg[d] else "open finding, reproduced by the model") for d in DEFECTS}
    cov["input_distribution"] = {"histories": len(jobs), "thread_jobs": len(tjobs), "ops_by_kind": kinds,
                                 "history_length_executed": {str(k): v for k, v in sorted(nsteps.items())},
                                 "calls_raised": raised, "steps_refused": refused,
                                 "operator_calls_repeating_an_object": rep_calls,
                                 "histories_with_an_initial_fluent_repeating_an_object": rep_init,
                                 "joint_actions": joint_stats,
                                 "trajectories_read_back": traj_ok, "trajectory_read_back_raised": traj_raised,
                                 "independent_worlds": sum(1 for j in jobs if j.get("indep")),
                                 "independent_world_states_rechecked_after_every_call": indep_states,
                                 "independent_worlds_whose_plan_repeats_an_object": indep_rep,
                                 "process_wide_static_objects_digested": (results[0] or {}).get("n_statics") if results else None,
                                 "styles": {s: sum(1 for j in jobs if j.get("style") == s) for s in ("sim", "domains", "mixed", "witness", "fixture")},
                                 "thread_counts": {str(n): sum(1 for j in tjobs if len(j["threads"]) == n) for n in (2, 3, 4)},
                                 "thread_rounds": sum(j["rounds"] for j in tjobs),
                                 "thread_steps": sum(sum(r.get("steps", [])) for r in tres if isinstance(r, dict)),
                                 "sched_jobs": len(sjobs),
                                 "sched_threads": {str(n): sum(1 for j in sjobs if len(j["threads"]) == n) for n in (2, 3)},
                                 "sched_runs": sum(r.get("n_runs", 0) for r in sres),
                                 "sched_yield_points_hit": sum(r.get("hits", 0) for r in sres),
                                 "sched_context_switches": sum(r.get("switches", 0) for r in sres),
                                 "sched_one_preemption_space_complete": sum(1 for r in sres if r.get("one_preemption_exhaustive")),
                                 "sched_shared_writes": sum(r.get("n_shared_writes", 0) for r in sres),
                                 "python_hash_seeds": hashseeds}
    cov["timing"] = timing
    cov["exhaustive"] = False
    cov["rule"] = ("histories of 3-12 API calls (parse domain/problem, Domain(), combine agent domains, Domain.shallow_copy, Operator, ground, "
                   "is_applicable, apply x 4 flag combinations, re-apply to earlier/later states, State.copy, State ==, serialize, str of "
                   "operator/action/domain/problem, domain and problem export, create_single_triplet, parse_plan of 2-4 calls, trajectory export, "
                   "trajectory written to a file and read back by TrajectoryParser with / without the problem, multi_agent apply_actions on joint "
                   "actions of 0-3 members (empty, only nops, one acting member among nops, several acting members; both allow values; refusals; "
                   "with / without problem objects), create_multi_agent_triplet, MultiAgentTrajectoryExporter.parse_plan of 2-4 joint steps "
                   "(35 % with an idle first step) and its export - the Operators and State copies these calls create and drop are kept alive "
                   "as handles, the initial State parse_plan builds is digested at creation and after the call) "
                   "over generated typed/untyped domains with numeric fluents, conditional effects, forall effects and forall preconditions, a strict "
                   "subtype (c - a), a binary predicate e and a binary function k over ONE type - so initial facts / fluents and action calls "
                   "repeat an object: (= (k a1 a1) 0), (act0 a1 a1) - and problems with numeric goals; plus one long history per shipped "
                   "(domain, problem, plan) of tests/exporters_tests with the shipped agent domains of tests/multi_agent_tests.  BEFORE every "
                   "history an INDEPENDENT domain + problem (same type / predicate / function names, other meaning: c - b, binary f) is parsed "
                   "and simulated for 3-4 calls.  After EVERY call digests of the module root (DEFAULT_TYPES + every process-wide static object "
                   "of the loaded pddl_plus_parser modules: module globals, class attributes, __defaults__ / __kwdefaults__ of functions and "
                   "methods), of all domains, of ALL live states and of the independent world are compared (oracle), the independent world's "
                   "answers (exports, serialisations, applicability, a repeated transition) are re-asked and compared, the sharing graph of "
                   "mutable objects between roots is compared with the model's (no root may share with the independent world), every query "
                   "is repeated at the end; and every history is ALSO run alone (TWIN run: statics restored, functools memo tables of the "
                   "library emptied, no independent world before it) and must give the same answers call by call.  Threads: N=2-4 real threads on one shared domain (switch interval 1e-6) against "
                   "sequential runs; deterministic scheduler jobs (2-3 threads of 4-8 calls, logging proxies on the shared domain's containers): "
                   "all one-preemption schedules (per thread order, capped as reported) + seeded random schedules, results against solo runs, "
                   "shared read/write footprint of every call against the model.  Non-trivial: >= 3 executed calls including a "
                   "transition/combine/copy (histories), at least one context switch (scheduler jobs); distinct by hash of the job.")
    gen_cases = [c for c in cases if c["input"].get("job", {}).get("style") in ("sim", "domains", "mixed")]
    fx_cases = [c for c in cases if c["input"].get("job", {}).get("style") == "fixture"]
    sc_cases = [c for c in cases if c["input"].get("job", {}).get("op") == "c07.sched"]
    cov["samples"] = [{"ops": c["input"].get("resolved"), "observed": c["input"].get("observed")} for c in gen_cases[:3]] + \
                     [{"fixture": c["input"]["job"].get("fixture"), "calls": len(c["input"].get("resolved") or []), "observed": c["input"].get("observed")} for c in fx_cases[:1]] + \
                     [{"scheduler_threads": c["input"]["job"]["threads"], "observed": c["input"]["observed"]} for c in sc_cases[:1]]
    cov["explanation"] = ("theorems C07_* (Props/C07.v) proved for all histories on the store model; model tied to the code by the "
                          "per-step comparison of changed values and sharing pairs on the cases above")
    rep.assumptions = ["process-wide static objects are one read-only cell (OMod, 1) of the model; the independent world parsed before the history has no cells in the model: what the oracle sees of it (changed digest / changed answer / shared object) crosses as part of the repeat verdict",
                       "values are abstract in the model (cells carry stamps); value-dependent branch outcomes (refused?) are inputs of the model taken from the run",
                       "objects no operation writes after construction (PDDLType, Predicate/GroundedPredicate, PDDLObject and their signature dicts) are values, not cells; the digest oracle still covers them",
                       "CPython scheduler / GIL / byte-code atomicity are outside the model; real threads and multi-preemption schedules are sampled; the one-preemption schedule space of each scheduler job is enumerated at the granularity of method calls on the proxied containers (Domain.types/actions/predicates/functions/constants/requirements, Action.signature and effect sets)",
                       "a Problem's references into its own Domain (Problem.domain; goal-tree leaves that are the domain's lifted zero-arity PDDLFunction objects) are not counted as sharing between values",
                       "shipped fixtures use the default action shape in the model (the predictions compared - changed values, sharing graph - do not depend on the sizes of an operator's private region)",
                       "base and `when` groups of generated actions do not interfere (D12/C03 is not C07's business)"]
    return rep.finish()
