"""C09 — exporting a problem and parsing it back preserves it.

Every valid problem of C05's generator (over generated domains) and every shipped problem file is parsed, exported
with ProblemExporter.export_problem, parsed again by the real ProblemParser against the same domain, and exported /
parsed once more.  Inside Coq: the model replays both rounds (its export is compared with the implementation's text
read by the model's tokenizer, up to the order inside sets), the spec reads the exported text independently, and
the three dumps must be equivalent."""
import json
import random

from ..common import (Report, chex, clist, cstr, decide, load_findings, run_case_shards, run_impl, standard_proof_part,
                      write_replay)
from .. import pddlgen as G
from . import c05 as C5

PROP = "C09"
CORR = "Corr.C09"
HEADER = "From Coq Require Import PrimFloat.\nFrom Verif Require Import Spec.Pddl Spec.Problem.\n"


def cobs_text(r, key, raised_keys):
    if key in r:
        return "(Returned %s)" % cstr(r[key])
    return "Raised"


def cobs_dump(r, key):
    return "(Returned %s)" % C5.cpdump(r[key]) if key in r else "Raised"


def rcase_lit(text, r):
    reprs = clist(["(%s, %s)" % (chex(float.fromhex(h)), cstr(s)) for h, s in sorted(r["reprs"].items())])
    return ("{| r_text := %s; r_nums := %s; r_reprs := %s; r_obs1 := %s; r_export := %s; r_obs2 := %s; r_export2 := %s; r_obs3 := %s |}" % (
        cstr(text), C5.cnums(r["nums"]), reprs, cobs_dump(r, "dump1"), cobs_text(r, "export2", ()), cobs_dump(r, "dump2"),
        cobs_text(r, "export3", ()), cobs_dump(r, "dump3")))


def rworld_lit(vocab, lits):
    return "{| rw_vocab := %s; rw_cases := %s |}" % (C5.cvocab(vocab), clist(lits))


HAND = [
    ("empty-sections", "(define (problem pr) (:domain dom) (:objects) (:init) (:goal (and)))", None),
    ("empty-goal", "(define (problem pr) (:domain dom) (:objects o0 - t1) (:init (p0 o0) (= (h) 0.1)) (:goal (and)))", None),
    ("goal-constant-precision", "(define (problem pr) (:domain dom) (:objects o0 - t1) (:init (= (f0 o0) 0.30000000000000004)) "
                                "(:goal (and (>= (f0 o0) 2.123456) (< (h) 1e-7) (> (h) 1e22) (<= (h) -0.00001))))", None),
    ("untyped-objects-and-constants", "(define (problem pr) (:domain dom) (:objects o0 o1 - t1 o2 - t2 o3 o4) "
                                      "(:init (p1 o0 o0) (p1 c0 o1) (z) (q o2) (= (g3 o3 o4 c0) -2.5e-3)) (:goal (and (z) (p1 c0 c0))))", None),
    ("full-repeat", "(define (problem pr) (:domain dom) (:objects o0 o1 - t1) (:init (= (f2 o0 o0) 5) (= (f2 o0 o1) 6)) (:goal (and)))", "D07"),
    ("partial-repeat", "(define (problem pr) (:domain dom) (:objects o3 o4) (:init (= (g3 o3 o4 o3) 1)) (:goal (and)))", "D07"),
    ("goal-repeat", "(define (problem pr) (:domain dom) (:objects o0 - t1) (:init) (:goal (and (= (f2 o0 o0) 1))))", "D07"),
    ("plain-decimals-with-exponent-repr", "(define (problem pr) (:domain dom) (:objects o0 o1 - t1) (:init (= (f0 o0) 0.00002) "
                                          "(= (f0 o1) -25000000000000000) (= (h) 25000000000000000) (= (f2 o0 o1) -0.00002)) "
                                          "(:goal (and (>= (f0 o0) 0.00002) (< (h) -25000000000000000))))", None),
    ("goal-constants-equal-up-to-4-decimals", "(define (problem pr) (:domain dom) (:objects o0 - t1) (:init (= (f0 o0) 1)) "
                                              "(:goal (and (>= (f0 o0) 0.99991) (>= (f0 o0) 0.99994) (< (h) 2.50004) (< (h) 2.49996) "
                                              "(= (f0 c0) 7) (= (f0 c0) 7.0) (<= (h) 3) (<= (h) 3))))", None),
    ("nan-inf-values", "(define (problem pr) (:domain dom) (:objects o0 - t1) (:init (= (h) inf) (= (f0 o0) -inf)) (:goal (and (< (h) inf))))", None),
]


def build(rng, tier, seed=0):
    worlds = []
    for f in load_findings(PROP):
        w = f.get("witness") or {}
        if "domain_text" in w:
            worlds.append({"domain_text": w["domain_text"], "source": "finding",
                           "cases": [{"text": w["problem_text"], "kind": "finding-witness-" + f["id"], "nontrivial": True,
                                      "klass": f["id"] if f.get("status") == "open" else None,
                                      "witness_of": f["id"] if f.get("status") == "open" else None}]})
    worlds.append({"domain_text": C5.HAND_DOMAIN, "source": "hand",
                   "cases": [{"text": t, "kind": "hand-" + k, "klass": kl, "nontrivial": True} for k, t, kl in HAND]})
    # one ProblemExporter object, one source path and one export path for a sequence of problems (long, short, same size
    # with other content, empty, long again); every third generated world below is run that way too
    sq = C5.same_path_world()
    worlds.append({"domain_text": sq["domain_text"], "source": "hand", "reuse": True,
                   "cases": [{"text": c["text"], "kind": "sequence-" + c["kind"], "klass": None, "nontrivial": True} for c in sq["cases"]]})
    n_worlds = 70 if tier == "quick" else 400
    for wi in range(n_worlds):
        w = C5.gen_domain(rng)
        dtext = G.render(w.domain_tree(C5.domain_name(w)), rng, noise=False)
        cases = []
        for _ in range(3):
            d07 = rng.random() < 0.25
            desc = C5.gen_problem(rng, w, d07=d07)
            if rng.random() < 0.15:
                desc["metric"] = True
            text = G.render(C5.problem_tree(desc), rng, noise=rng.random() < 0.3)
            rep = C5.has_repeat_fluent(desc)
            cases.append({"text": text, "kind": "generated-" + desc["style"] + ("-repeats" if rep else "")
                          + ("-twin-numeric-goals-" + desc["twins"] if desc.get("twins") else ""),
                          "klass": "D07" if rep else None,
                          "nontrivial": len(desc["init"]) + len(desc["goal"]) >= 2, "desc": desc})
        worlds.append({"domain_text": dtext, "cases": cases, "source": "generated", "reuse": wi % 3 == 0})
    # initial fluents repeating two or three different arguments, each problem under several PYTHONHASHSEEDs (the order of
    # repeating_variables decides the exported text); under the last hash seed with one exporter object and one path
    seeds = C5.hash_seeds(seed, tier)
    for w in C5.under_hash_seeds(C5.multi_repeat_worlds(seed, tier), seeds):
        for c in w["cases"]:
            c.pop("expect", None)
        w["reuse"] = w["hashseed"] == seeds[-1]
        worlds.append(w)
    # object sections outside the grammar of the spec (a name declared again, nested lists): the parsed problem must
    # survive the round trip like any other (the exporter writes the table in the normal form)
    orng = random.Random(seed * 7919 + 133)
    for w in C5.object_section_worlds(seed, tier):
        acc = [c for c in w["cases"] if c["expect"] != "raised"]
        w["cases"] = [{"text": c["text"], "kind": c["kind"], "klass": None, "nontrivial": True}
                      for c in orng.sample(acc, min(6, len(acc)))]
        if w["cases"]:
            worlds.append(w)
    fw, n_total, n_skipped = C5.fixture_worlds(tier)
    for w in fw:
        for c in w["cases"]:
            c.pop("expect", None)
    return worlds + fw, n_total, n_skipped


KEYWORDS = ["and", "or", "not", "forall", "exists", "imply", "when", "=", "<=", ">=", "<", ">", "+", "-", "*", "/",
            "assign", "increase", "decrease", "scale-up", "scale-down", "either"]
OPERATORS = ["=", "!=", "<=", ">=", ">", "<", "+", "-", "/", "*", "increase", "decrease", "assign"]


def hypotheses_report(results):
    """the hypotheses of the theorems (dom_ok, num_ok), checked on the vocabularies and numeral tables of this run"""
    rep = {"domains": 0, "domains_violating_dom_ok": [], "numeral_tables": 0, "numeral_tables_violating_num_ok": 0}
    for res in results:
        if "vocab" not in res:
            continue
        v = res["vocab"]
        rep["domains"] += 1
        cn = [c[0] for c in v["consts"]]
        bad = [f[0] for f in v["funcs"] if f[0] in KEYWORDS]
        if len(set(cn)) != len(cn) or bad:
            rep["domains_violating_dom_ok"].append({"name": v["name"], "keyword_functions": bad})
        for r in res["results"]:
            rep["numeral_tables"] += 1
            if any(k in OPERATORS for k in r.get("nums", {})):
                rep["numeral_tables_violating_num_ok"] += 1
    return rep


def run(args):
    rep = Report(PROP, args.tier, args.seed)
    standard_proof_part(rep, PROP)
    rng = random.Random(args.seed * 7919 + 9)
    n_total = n_skipped = 0
    if args.replay:
        worlds = [json.load(open(args.replay))["input"]["world"]]
    else:
        worlds, n_total, n_skipped = build(rng, args.tier, args.seed)
    jobs = []
    for w in worlds:
        job = {"op": "c09.world", "problems": [({"path": c["path"]} if "path" in c else c["text"]) for c in w["cases"]]}
        job.update({"domain_path": w["domain_path"]} if "domain_path" in w else {"domain_text": w["domain_text"]})
        if w.get("reuse"):
            job["reuse"] = True
        jobs.append(job)
    results = C5.run_grouped(worlds, jobs, args.seed % 5)
    cases, lits, units = [], [], []
    dist, outcomes = {}, {"round-trip completed": 0, "original rejected": 0, "round trip raised": 0}
    repr_failures, domain_failures = [], []
    sizes = {"objects": 0, "facts": 0, "fluents": 0, "goal_literals": 0, "goal_numeric": 0, "empty_init": 0, "empty_goal": 0,
             "empty_objects": 0}
    for w, res in zip(worlds, results):
        if "vocab" not in res:
            domain_failures.append({"world": w.get("domain_path") or w["domain_text"][:200], "raised": res.get("domain_raised")})
            continue
        piece, size = [], 0
        for ci, (c, r) in enumerate(zip(w["cases"], res["results"])):
            text = r.get("text", c.get("text"))
            lit = rcase_lit(text, r)
            dist[c["kind"]] = dist.get(c["kind"], 0) + 1
            if "dump1" not in r:
                outcomes["original rejected"] += 1
            elif "dump3" in r:
                outcomes["round-trip completed"] += 1
            else:
                outcomes["round trip raised"] += 1
            if "dump1" in r:
                d = r["dump1"]
                sizes["objects"] += len(d["objects"]); sizes["facts"] += len(d["facts"]); sizes["fluents"] += len(d["fluents"])
                sizes["goal_literals"] += len(d["goal"]); sizes["goal_numeric"] += len(d["goal_num"])
                sizes["empty_init"] += (not d["facts"] and not d["fluents"]); sizes["empty_goal"] += (not d["goal"] and not d["goal_num"])
                sizes["empty_objects"] += (not d["objects"])
            repr_failures += r.get("repr_roundtrip_failures", [])
            single = dict(w)
            # a world run with one exporter object and one path: the replay runs the problems before this one too
            single["cases"] = [{k: v for k, v in x.items() if k != "desc"} for x in w["cases"][:ci]] + [c] if w.get("reuse") else [c]
            cases.append({"lit": rworld_lit(res["vocab"], [lit]),
                          "input": {"world": single, "implementation": {k: v for k, v in r.items() if k not in ("text", "nums", "reprs")}},
                          "nontrivial": c["nontrivial"], "witness_of": c.get("witness_of"), "klass": c.get("klass")})
            if piece and size + len(lit) > 60_000:
                lits.append(rworld_lit(res["vocab"], piece)); units.append(len(piece))
                piece, size = [], 0
            piece.append(lit)
            size += len(lit)
        if piece:
            lits.append(rworld_lit(res["vocab"], piece)); units.append(len(piece))
    verdicts, info = run_case_shards(PROP, CORR, lits, shard_size=4, units=units, max_bytes=110_000, header_extra=HEADER)
    decide(rep, PROP, CORR, cases, verdicts, info, explain_expr="explain %s", header_extra=HEADER)
    if domain_failures:
        rep.violation(write_replay(PROP, "domain_failures", {"kind": "correspondence", "why": "a domain of the run did not parse",
                                                             "domains": domain_failures[:5]}), False)
    if repr_failures:
        rep.violation(write_replay(PROP, "repr_hypothesis", {"kind": "correspondence",
                                                             "why": "float(repr(x)) != x for a value of this run (hypothesis of C09_roundtrip)",
                                                             "values": repr_failures[:20]}), False)
    cov = rep.coverage
    cov["input_distribution"] = dict(sorted(dist.items()))
    cov["outcomes"] = outcomes
    cov["sizes_total"] = sizes
    cov["worlds"] = {"generated": sum(1 for w in worlds if w["source"] == "generated"),
                     "fixture_problems": sum(len(w["cases"]) for w in worlds if w["source"] == "fixture"),
                     "fixture_problems_shipped": n_total, "fixture_problems_left_to_thorough_tier": n_skipped}
    cov["repr_hypothesis_checked_values"] = sum(len(r.get("reprs", {})) for res in results if "results" in res for r in res["results"])
    cov["theorem_hypotheses_checked"] = hypotheses_report(results)
    cov["python_hash_seeds"] = {"default": args.seed % 5, "several_repeats_worlds": sorted({w["hashseed"] for w in worlds if "hashseed" in w})}
    cov["worlds_run_with_one_exporter_object_and_one_path"] = sum(1 for w in worlds if w.get("reuse"))
    cov["exhaustive"] = False
    cov["rule"] = ("valid problems of C05's generator over pddlgen domains widened with binary/ternary functions (all object list styles, "
                   "constants, subtypes, repeated arguments, zero-arity atoms, all numeral forms, numeric goals; every second domain with type / "
                   "constant / predicate / function / object names that contain '-' and '_' and share prefixes, and a domain name with separators), hand-written corner cases "
                   "(empty sections, goal constants beyond 4 decimals, plain-decimal values whose repr is in exponent form, inf), and the shipped problem files each against its domain "
                   "(quick: files <= 2100 bytes); two export/parse rounds each. Initial fluents that repeat TWO OR THREE different arguments "
                   "(functions of arity 4-6; written the way the library prints them = inside safe_repeats, arbitrary interleavings, every arrangement "
                   "of one shape), each problem under several PYTHONHASHSEEDs (quick 3, thorough 6) - the exported TEXT of every fluent is compared "
                   "with the model's (Counter's first-occurrence order, state_representation's re-expansion). Process level: a five-problem "
                   "sequence (long, short, same size with other content, empty, long again), every third generated world and the several-repeats "
                   "worlds of the last hash seed are run with ONE ProblemExporter object, ONE source path and ONE export path for all their problems. "
                   "Problems whose object section is outside the grammar of the spec (a name declared again, lists nested to depth 3). "
                   "Non-trivial: >= 2 init/goal items; distinct by input hash.")
    cov["samples"] = [{"kind": c["input"]["world"]["cases"][0]["kind"],
                       "text": (c["input"]["world"]["cases"][0].get("text") or c["input"]["world"]["cases"][0].get("path"))[:300]}
                      for c in (cases[:2] + cases[len(cases) // 2:len(cases) // 2 + 2] + cases[-1:])]
    cov["explanation"] = ("theorems C09_* (Props/C09.v) on the model; model tied to the implementation by replaying both rounds inside Coq; "
                          "spec oracle: the exported text read by Spec.Problem.read_problem means the parsed problem, dumps equivalent")
    rep.assumptions = ["ASCII input", "float(token) and repr(float) of CPython are supplied as tables with every case; float(repr(x)) == x "
                       "re-checked on every value of the run: %d failures" % len(repr_failures)]
    return rep.finish()
