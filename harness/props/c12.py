"""C12 — numeric expressions evaluate as arithmetic; comparisons use the stated tolerance; print/re-read."""
import concurrent.futures
import itertools
import json
import math
import random
import time

from ..common import (NCPU, Report, cbool, chex, clist, cstr, decide, load_findings, run_case_shards, run_impl,
                      standard_proof_part, write_replay)
from .. import c12_actions as ACT

PROP = "C12"
FUNCS = [["x", []], ["y", []], ["load", ["?t"]], ["dist", ["?a", "?b"]]]
HEADER = "From Coq Require Import PrimFloat.\nFrom Verif Require Import Base.Float Model.NumExpr Spec.Arith.\n" \
         "Definition F : domain_functions := %s.\n" % clist(
             "(%s, %s)" % (cstr(n), clist(cstr(p) for p in ps)) for n, ps in FUNCS)
FLUENTS = [("x", []), ("y", []), ("load", ["t1"]), ("load", ["t2"]), ("dist", ["a", "b"])]
OPS = {"+": "Add", "-": "Sub", "*": "Mul", "/": "Div"}
CMPS = {"=": "CEq", "!=": "CNe", "<=": "CLe", ">=": "CGe", "<": "CLt", ">": "CGt"}
ASGS = {"assign": "Assign", "increase": "Increase", "decrease": "Decrease"}

# EPSILON / NUMERIC_PRECISION settings (None = variable unset: the defaults 0.0001 / 4)
CONFIGS_QUICK = [{}, {"EPSILON": "0.000001", "NUMERIC_PRECISION": "2"}, {"EPSILON": "0.5", "NUMERIC_PRECISION": "0"},
                 {"EPSILON": "0", "NUMERIC_PRECISION": "6"}, {"EPSILON": "1e-9", "NUMERIC_PRECISION": "10"},
                 # one variable set, the other left to its default: the two settings are independent
                 {"NUMERIC_PRECISION": "2"}, {"NUMERIC_PRECISION": "7"}, {"EPSILON": "0.01"}]


def stated_config(env):
    """what the settings MEAN (README / module header): EPSILON is the tolerance (default 0.0001), NUMERIC_PRECISION the
    number of printed decimals (default 4).  Computed from the environment, never read back from the implementation."""
    return float(env.get("EPSILON", "0.0001")), int(env.get("NUMERIC_PRECISION", "4"))

CONFIGS_THOROUGH = CONFIGS_QUICK + [{"EPSILON": "0.0001", "NUMERIC_PRECISION": "1"}, {"EPSILON": "0.01", "NUMERIC_PRECISION": "17"},
                                    {"EPSILON": "3", "NUMERIC_PRECISION": "3"}, {"EPSILON": "1e-12", "NUMERIC_PRECISION": "20"}]


# ------------------------------------------------------------------ expressions (generator-level syntax)
# ["num", token] | ["fl", name, [args]] | ["bin", op, l, r]
def num(tok):
    return ["num", tok]


def tok_of(v):
    """a numeral the library reads back as exactly v"""
    if v != v:
        return "nan"
    r = repr(float(v))
    assert float(r) == v or v != v
    return r


def text(e):
    if e[0] == "num":
        return e[1]
    if e[0] == "fl":
        return "(" + " ".join([e[1]] + e[2]) + ")"
    return "(%s %s %s)" % (e[1], text(e[2]), text(e[3]))


def key_of(name, args):
    return "(%s %s)" % (name, " ".join(args))


def coq_aexp(e):
    if e[0] == "num":
        return "(ANum %s)" % chex(float(e[1]))
    if e[0] == "fl":
        return "(AFl %s %s)" % (cstr(e[1]), clist(cstr(a) for a in e[2]))
    return "(ABin %s %s %s)" % (OPS[e[1]], coq_aexp(e[2]), coq_aexp(e[3]))


def depth(e):
    return 0 if e[0] != "bin" else 1 + max(depth(e[2]), depth(e[3]))


def coq_expect(x):
    k = x[0]
    if k == "none":
        return "XNone"
    if k == "reject":
        return "XReject"
    if k == "calc":
        return "(XCalc %s)" % coq_aexp(x[1])
    if k == "cmp":
        return "(XCmp %s %s %s)" % (CMPS[x[1]], coq_aexp(x[2]), coq_aexp(x[3]))
    if k == "asg":
        return "(XAsg %s %s %s %s)" % (ASGS[x[1]], cstr(x[2]), clist(cstr(a) for a in x[3]), coq_aexp(x[4]))
    raise ValueError(k)


def fromhex(h):
    return float("nan") if h == "nan" else float.fromhex(h)


def hx(v):
    return "nan" if v != v else float(v).hex()


# ------------------------------------------------------------------ generators
GRID = [-1.5, 0.0, 0.5, 3.0]
# value classes sent through every comparison: infinities, NaN, +0/-0, the smallest subnormal and a larger one, the
# smallest normal, 1, 1e308 and the largest finite value of either sign
SPECIALS = [math.inf, -math.inf, math.nan, 0.0, -0.0, 1.0, 5e-324, -5e-324, 1e-310, 2.2250738585072014e-308,
            1e308, -1e308, 1.7976931348623157e308, -1.7976931348623157e308]


def state_entries(val):
    """val: {(name, tuple(args)): float} -> job entries"""
    return [[n, list(a), hx(v)] for (n, a), v in val.items()]


def mk(kind, e_text, val, x, nontrivial=True, **kw):
    d = {"kind": kind, "text": e_text, "state": state_entries(val), "x": x, "nontrivial": nontrivial}
    d.update(kw)
    return d


def all_trees(leaves, d):
    if d == 0:
        return list(leaves)
    sub = all_trees(leaves, d - 1)
    out = list(leaves)
    for op in OPS:
        for l in sub:
            for r in sub:
                out.append(["bin", op, l, r])
    # trees of depth <= d (sub already holds depth <= d-1, nested only through 'sub')
    return out


def gen_exhaustive(rng, tier):
    leaves = [num("2"), num("0.75"), ["fl", "x", []], ["fl", "load", ["t1"]]]
    if tier == "quick":
        leaves = leaves[1:]
    cases = []
    vals = [{("x", ()): a, ("load", ("t1",)): b} for a in GRID for b in GRID]
    small = all_trees(leaves, 1)
    for e in small:
        for v in vals:
            cases.append(mk("exhaustive-depth<=1-all-valuations", text(e), v, ["calc", e], nontrivial=e[0] == "bin"))
    big = [e for e in all_trees(leaves, 2) if depth(e) == 2]
    n_big = len(big)
    per = 1
    for i, e in enumerate(big):
        for j in range(per):
            v = dict(vals[(i * 7 + j * 5 + 3) % len(vals)])
            if (i + j) % 5 == 0:
                del v[("load", ("t1",))]        # a fluent missing from the state reads as 0
            cases.append(mk("exhaustive-depth2", text(e), v, ["calc", e]))
    return cases, {"leaves": [text(l) for l in leaves], "trees_depth<=1": len(small), "trees_depth2": n_big,
                   "grid": GRID, "valuations_per_small_tree": len(vals), "valuations_per_depth2_tree": per}


def rand_const(rng):
    r = rng.random()
    if r < 0.3:
        return rng.randint(-40, 40) / 8.0
    if r < 0.55:
        return round(rng.uniform(-100, 100), rng.randint(0, 4))
    if r < 0.7:
        return rng.uniform(-1, 1) * 10 ** rng.randint(-8, 12)
    if r < 0.8:
        return float(rng.randint(-5, 5))
    if r < 0.9:
        return rng.choice([0.0, -0.0, 1e-320, 1.7976931348623157e308, -1e300, 0.1, 1 / 3.0])
    return rng.choice([1.0, 2.0, 0.5]) * 2.0 ** rng.randint(-30, 60)


def rand_tok(rng, v):
    """different spellings of the same numeral"""
    r = rng.random()
    if v == int(v) and abs(v) < 1e6 and r < 0.5:
        return str(int(v)) if not (v == 0 and math.copysign(1, v) < 0) else "-0"
    if r < 0.6:
        return "%e" % v if float("%e" % v) == v else repr(v)
    return repr(v)


def rand_leaf(rng):
    if rng.random() < 0.5:
        v = rand_const(rng)
        t = rand_tok(rng, v)
        return num(t)
    n, a = rng.choice(FLUENTS)
    return ["fl", n, list(a)]


def rand_tree(rng, d):
    if d == 0 or rng.random() < 0.15:
        return rand_leaf(rng)
    return ["bin", rng.choice(list(OPS)), rand_tree(rng, d - 1), rand_tree(rng, d - 1)]


def rand_val(rng):
    v = {}
    for n, a in FLUENTS:
        if rng.random() < 0.8:
            v[(n, tuple(a))] = rand_const(rng) if rng.random() < 0.7 else rng.choice(GRID)
    return v


def gen_random(rng, n):
    cases = []
    for _ in range(n):
        e = rand_tree(rng, rng.randint(1, 4))
        val = rand_val(rng)
        r = rng.random()
        if r < 0.6:
            cases.append(mk("random-depth<=4", text(e), val, ["calc", e]))
        elif r < 0.8:
            c = rng.choice(list(CMPS))
            l = e if e[0] != "num" else ["fl", "x", []]
            rr = rand_tree(rng, rng.randint(0, 2))
            cases.append(mk("random-comparison", "(%s %s %s)" % (c, text(l), text(rr)), val, ["cmp", c, l, rr]))
        else:
            a = rng.choice(list(ASGS))
            n_, ar = rng.choice(FLUENTS)
            cases.append(mk("random-assignment", "(%s %s %s)" % (a, text(["fl", n_, list(ar)]), text(e)), val,
                            ["asg", a, n_, list(ar), e]))
    return cases


def gen_pairs(rng, eps, tier, full_specials=True):
    """value pairs 0, 0.5, 1, 2 tolerances apart (and one ulp either side of each) at several magnitudes"""
    mags = [1e-3, 1.0, 1e3, 1e5, 1e6, 1e9] + ([1e12, 1e15] if tier == "thorough" else [])
    cases = []
    stats = {"pairs": 0}
    for M in mags:
        for sgn in (1.0, -1.0):
            for exact_base in (True, False):
                x = sgn * (M if exact_base else M * rng.uniform(1.0, 2.0))
                for k in (0.0, 0.5, 1.0, 2.0):
                    for side in (1.0, -1.0):
                        y0 = x + side * k * eps
                        cands = [y0, math.nextafter(y0, math.inf), math.nextafter(y0, -math.inf)]
                        if tier == "quick":
                            cands = [y0, rng.choice(cands[1:])]
                        for y in cands:
                            stats["pairs"] += 1
                            ops = list(CMPS) if tier == "thorough" else rng.sample(list(CMPS), 2) + ["="]
                            for c in ops:
                                form = rng.randrange(4)
                                val = {("x", ()): x, ("load", ("t1",)): y}
                                if form == 0:
                                    l, r = ["fl", "x", []], ["fl", "load", ["t1"]]
                                elif form == 1:
                                    l, r = ["fl", "x", []], num(tok_of(y))
                                elif form == 2:
                                    l, r = num(tok_of(x)), ["fl", "load", ["t1"]]
                                else:
                                    l, r = ["bin", "*", ["fl", "x", []], num("1")], ["fl", "load", ["t1"]]
                                cases.append(mk("tolerance-pair", "(%s %s %s)" % (c, text(l), text(r)), val, ["cmp", c, l, r],
                                                pair={"x": hx(x), "y": hx(y), "k": k, "mag": M}))
    # infinities, NaN, both zeros, subnormals, the smallest normal, the largest finite values: every pair through every
    # comparison (thorough), a random third of the table per configuration (quick)
    specials = SPECIALS
    table = [(x, y, c) for x in specials for y in specials for c in CMPS]
    if tier == "quick" or not full_specials:
        table = rng.sample(table, 110 if tier == "quick" else 300) + \
                [(x, y, "=") for x, y in ((0.0, -0.0), (5e-324, 0.0), (1e308, -1e308), (math.inf, math.inf))]
    for x, y, c in table:
        val = {("x", ()): x, ("y", ()): y}
        cases.append(mk("special-values", "(%s (x) (y))" % c, val, ["cmp", c, ["fl", "x", []], ["fl", "y", []]]))
    stats["special_pairs"] = len(table)
    return cases, stats


def gen_assign(rng, n):
    cases = []
    for _ in range(n):
        a = rng.choice(list(ASGS))
        n_, ar = rng.choice(FLUENTS)
        tgt = ["fl", n_, list(ar)]
        rhs = rand_tree(rng, rng.randint(0, 2))
        if rng.random() < 0.3:
            rhs = ["bin", rng.choice(list(OPS)), tgt, rhs]     # the target on the right-hand side: old value is read
        val = rand_val(rng)
        cases.append(mk("assignment", "(%s %s %s)" % (a, text(tgt), text(rhs)), val, ["asg", a, n_, list(ar), rhs]))
    for a in ("scale-up", "scale-down"):
        for rhs in ("2", "0", "(y)"):
            cases.append(mk("scale (model agreement only)", "(%s (x) %s)" % (a, rhs), {("x", ()): 3.0, ("y", ()): 0.5}, ["none"]))
    return cases


def gen_malformed(rng):
    val = {("x", ()): 2.5, ("y", ()): 4.0}
    rej = ["(+ 1 2 3)", "(+ (x) 1 2)", "(- 5)", "(- (x))", "(* (x) (y) (x))", "(/ 1)", "(+)", "()", "(+ (x))",
           "(= (x) 1 2)", "(<= (x))", "(increase (x) 1 2)", "(assign (x))", "(+ (+ 1 2 3) (x))", "(- (x) (- (y)))",
           "+", "abc", "(+ x 2)", "(+ (x) abc)", "(zzz)", "(+ (zzz) 1)", "(* (x) (+ 1))", "(- 1 2 (x))", "((x))",
           "(+ (x) (y) 1)", "(/ (x) (y) (x) (y))", "(>= (+ (x) 1 1) 2)"]
    cases = [mk("malformed", t, val, ["reject"]) for t in rej]
    # quirks of the code outside the property's statement: agreement with the model only
    quirks = ["(<= 1 2)", "(assign 5 3)", "(= 1 2)", "(foo (x) 1)", "(load)", "(load a b)", "(dist a a)", "(dist a)",
              "5", "(x)", "(assign 5 (x))", "(increase (+ (x) 1) 2)", "(+ (= (x) 1) 2)", "(= (increase (x) 1) 2)",
              "(load t1 t2 t3)", "(1 2 3)", "(+ 1_0 2)", "(+ +1 -.5)", "(+ 1e400 -1e400)", "(* inf 0)", "(+ nan 1)",
              "(- -0.0 0)", "(/ 0 0)", "(/ (x) -0.0)", "(/ (x) 0)", "(= (/ 1 0) 1)", "(assign (x) (/ 1 0))",
              "(+ 1 2)", "(= (x) nan)", "(<= (x) inf)", "(!= (x) 2.5)", "(+ 0x10 1)", "(+ 1,5 1)", "(+ infinity 1)"]
    cases += [mk("quirk (model agreement only)", t, val, ["none"]) for t in quirks]
    return cases


def gen_print(rng, digits, n):
    """constants that stress the fixed-point rounding at this configuration's number of digits"""
    vals = [0.0, -0.0, 1.0, -3.0, 1e22, 2.0 ** 70, -2.0 ** 53, 1e300, math.inf, -math.inf, math.nan,
            5e-324, -5e-324, 1e-10, -1e-7, 0.1, 0.2, 0.3, 1 / 3.0, 2.675, 1.005, 0.125, 0.375, 2.5, 3.5, 0.5, 1.5, -0.5, -2.5,
            2.0 ** 52 - 0.5, 2.0 ** 51 + 0.25, 4503599627370495.5, 999.99995, 0.99999, 9.9995, 0.00005, 0.00015, -0.00005,
            123456789.123456789, 1e15 + 0.3, 1e-5, 0.5 * 10.0 ** -digits if digits < 300 else 0.0]
    d1 = min(digits, 40)
    for _ in range(n):
        k = 2 * rng.randint(0, 2 ** min(d1 + 1, 50)) + 1
        tie = rng.randint(0, 50) + k / 2.0 ** (d1 + 1) if d1 < 50 else 0.5          # an exact tie at this precision
        sgn = rng.choice([1.0, -1.0])
        vals += [sgn * tie, math.nextafter(sgn * tie, math.inf), math.nextafter(sgn * tie, -math.inf)]
        s = "%d.%s5" % (rng.randint(0, 999), "".join(rng.choice("0123456789") for _ in range(digits)))
        vals.append(sgn * float(s))                                                    # decimal "ties" that are not ties in binary
        vals.append(rng.uniform(-1, 1) * 10 ** rng.randint(-digits - 2, 15))
    cases = []
    for v in vals:
        t = tok_of(v)
        form = rng.randrange(3)
        if form == 0:
            e = num(t)
        elif form == 1:
            e = ["bin", rng.choice(list(OPS)), num(t), ["fl", "x", []]]
        else:
            e = ["bin", rng.choice(list(OPS)), ["fl", "y", []], ["bin", "*", num(t), num(tok_of(rand_const(rng)))]]
        cases.append(mk("print-stress", text(e), {("x", ()): 1.0, ("y", ()): 2.0}, ["calc", e], printed=hx(v)))
    return cases


def build_inputs(rng, tier, configs_info):
    """configs_info: list of (env, eps, digits).  Returns the inputs, each carrying its env."""
    inputs = []
    meta = {}
    exh, meta["exhaustive"] = gen_exhaustive(rng, tier)
    ncfg = len(configs_info)
    # the exhaustive and random expression cases are spread over the configurations (arithmetic does not depend on
    # them, printing does); tolerance pairs and print stress are generated per configuration
    if tier == "quick":
        small = [c for c in exh if c["kind"] != "exhaustive-depth2"]
        big = [c for c in exh if c["kind"] == "exhaustive-depth2"]
        exh = small + rng.sample(big, min(len(big), 900))
        meta["exhaustive"]["quick_sample_of_depth2"] = min(len(big), 900)
    for i, c in enumerate(exh):
        c["env"] = configs_info[i % ncfg][0]
    inputs += exh
    rnd = gen_random(rng, 600 if tier == "quick" else 8000)
    for i, c in enumerate(rnd):
        c["env"] = configs_info[i % ncfg][0]
    inputs += rnd
    meta["pairs"] = {}
    other_cfg = 1 + rng.randrange(max(1, ncfg - 1))
    for cfg_i, (env, eps, digits) in enumerate(configs_info):
        # the complete table of special values x special values x operators under the first four settings (thorough)
        ps, st = gen_pairs(rng, eps, tier, full_specials=cfg_i < 4)
        cap = 220 if tier == "quick" else 1800
        if len(ps) > cap:
            # a random part of the tolerance pairs per configuration (every magnitude / distance / side stays represented)
            keep = set(rng.sample(range(len(ps)), cap))
            ps = [c for j, c in enumerate(ps) if j in keep or c["kind"] != "tolerance-pair"]
        pr = gen_print(rng, digits, 10 if tier == "quick" else 100)
        asg = gen_assign(rng, 40 if tier == "quick" else 200)
        # arity and the other malformed forms do not depend on the settings: quick runs them under the default setting and
        # one other (by seed), thorough under every setting
        cfg_pos = [e for e, _, _ in configs_info].index(env)
        mal = gen_malformed(rng) if (tier != "quick" or cfg_pos in (0, other_cfg)) else []
        for c in ps + pr + asg + mal:
            c["env"] = env
        inputs += ps + pr + asg + mal
        meta["pairs"][json.dumps(env, sort_keys=True)] = st["pairs"]
    # one tree evaluated on several states in a row: fluents present, then missing (read 0), then present again
    nseq = 40 if tier == "quick" else 200
    meta["sequences"] = nseq
    for k in range(nseq):
        a, b, c3 = (rng.choice([0.5, 1.0, 2.0, 3.0, 5.0, -4.0, 7.25]) for _ in range(3))
        shape = rng.randrange(4)
        fx, fy = ["fl", "x", []], ["fl", "y", []]
        if shape == 0:
            e = ["bin", rng.choice(list(OPS)), fx, fy]; x = ["calc", e]; txt = text(e)
        elif shape == 1:
            op = rng.choice(["<=", ">=", "<", ">", "="]); r = ["bin", "+", fy, num(tok_of(c3))]
            x = ["cmp", op, fx, r]; txt = "(%s %s %s)" % (op, text(fx), text(r))
        elif shape == 2:
            asg = rng.choice(["increase", "decrease", "assign"]); r = ["bin", "*", fy, num(tok_of(c3))]
            x = ["asg", asg, "x", [], r]; txt = "(%s %s %s)" % (asg, text(fx), text(r))
        else:
            asg = rng.choice(["increase", "decrease"]); r = ["bin", "-", fx, num(tok_of(c3))]
            x = ["asg", asg, "x", [], r]; txt = "(%s %s %s)" % (asg, text(fx), text(r))
        states = [{("x", ()): a, ("y", ()): b}, {("y", ()): b} if k % 2 else {}, {("x", ()): b}, {("x", ()): a, ("y", ()): b}, {}]
        env = configs_info[k % ncfg][0]
        for pos, st in enumerate(states):
            cse = mk("sequence", txt, st, x)
            cse["env"] = env
            cse["seq"] = [k, pos]
            inputs.append(cse)
    # regression corpus: the witnesses of the repaired findings (default configuration)
    d20 = mk("regression-D20", "(= (x) (y))", {("x", ()): 1000000.0, ("y", ()): 1000000.0005}, ["cmp", "=", ["fl", "x", []], ["fl", "y", []]])
    d20b = mk("regression-D20", "(>= (x) (y))", {("x", ()): 1000000.0, ("y", ()): 1000000.0005}, ["cmp", ">=", ["fl", "x", []], ["fl", "y", []]])
    d08 = mk("regression-D08", "(+ (x) 1 2)", {("x", ()): 1.0}, ["reject"])
    for c in (d20, d20b, d08):
        c["env"] = {}
    inputs += [d20, d20b, d08]
    return inputs, meta


# ------------------------------------------------------------------ Coq literals
def cfl(h):
    return chex(fromhex(h))


def cobs_f(r):
    return "(Returned %s)" % cfl(r["ok"]) if "ok" in r else "Raised"


def case_lit(inp, res):
    if "construct" not in res:
        raise RuntimeError("implementation driver failed before construct: %r" % (res,))
    nums = clist("(%s, %s)" % (cstr(k), cfl(v)) for k, v in res["nums"].items())
    state = clist("(%s, %s)" % (cstr(key_of(n, a)), cfl(h)) for n, a, h in inp["state"])
    if "ok" in res["construct"]:
        ev = res["eval"]
        if "ok" in ev:
            r = ev["ok"]
            evl = "(Returned (OBool %s))" % cbool(r["bool"]) if "bool" in r else \
                "(Returned (OAssign %s %s))" % (cstr(r["assign"]), cfl(r["value"]))
        else:
            evl = "Raised"
        re_ = res["re"]
        rel = "(Returned (%s, %s))" % (cstr(re_["ok"]["pddl"]), cobs_f(re_["ok"]["calc"])) if "ok" in re_ else "Raised"
        obs = "(Returned {| o_pddl := %s; o_calc := %s; o_eval := %s; o_re := %s |})" % (
            cstr(res["pddl"]), cobs_f(res["calc"]), evl, rel)
    else:
        obs = "Raised"
    return ("{| c_text := %s; c_nums := %s; c_funcs := F; c_state := %s; c_eps := %s; c_digits := %d; c_obs := %s; c_x := %s |}"
            % (cstr(inp["text"]), nums, state, chex(stated_config(inp.get("env", {}))[0]), stated_config(inp.get("env", {}))[1],
               obs, coq_expect(inp["x"])))


def _rename_replays(rep, first, prefix):
    """decide() numbers its replay files from 0 on every call: give those of one family their own names"""
    import os
    for k in range(first, len(rep.violations)):
        path, concrete = rep.violations[k]
        newp = path.with_name(prefix + path.name)
        try:
            data = json.loads(path.read_text())
            data["replay_cmd"] = "./check %s --replay %s" % (PROP, newp)
            newp.write_text(json.dumps(data, indent=1, default=str))
            os.unlink(path)
            rep.violations[k] = (newp, concrete)
        except OSError:
            pass


def shards_with_retry(prop, module, lits, units=None, retries=2, **kw):
    """run_case_shards; shards that could not be evaluated (another builder rebuilding shared .vo files, memory pressure)
    are evaluated again on their own; what still fails is reported by decide()"""
    units = list(units) if units is not None else [1] * len(lits)
    verdicts, info = run_case_shards(prop, module, lits, units=units, **kw)
    for attempt in range(retries):
        if "?" not in verdicts:
            break
        time.sleep(15)
        pos, bad = 0, []
        for i, u in enumerate(units):
            if "?" in verdicts[pos:pos + u]:
                bad.append((i, pos))
            pos += u
        v2, info2 = run_case_shards(prop + "/retry", module, [lits[i] for i, _ in bad], units=[units[i] for i, _ in bad], **kw)
        vl = list(verdicts)
        p2 = 0
        for i, pos in bad:
            vl[pos:pos + units[i]] = v2[p2:p2 + units[i]]
            p2 += units[i]
        verdicts = "".join(vl)
        info["shard_errors"] = info2["shard_errors"]
        info["retried_cases"] = info.get("retried_cases", 0) + len(bad)
    return verdicts, info


def run_expressions(rep, args, rng, configs, replay_case, laps):
    """first family: one expression / comparison / assignment per case, under the EPSILON / NUMERIC_PRECISION settings"""
    t0 = time.time()
    configs_info = [(env,) + stated_config(env) for env in configs]
    if replay_case is not None:
        inputs, meta = [replay_case], {}
    else:
        inputs, meta = build_inputs(rng, args.tier, configs_info)
    laps["generate_s"] = round(time.time() - t0, 1)
    t0 = time.time()
    # run the implementation: one batch of worker processes per environment setting, the batches side by side
    results = [None] * len(inputs)
    nproc = max(1, NCPU // max(1, min(len(configs_info), 4)))

    def one_env(env):
        idx = [i for i, c in enumerate(inputs) if c["env"] == env and "seq" not in c]
        jobs = [{"op": "c12.run_case", "text": inputs[i]["text"], "funcs": FUNCS, "state": inputs[i]["state"]} for i in idx]
        # sequences: one tree, several states in a row (each position is judged as its own case)
        seqs = {}
        for i, c in enumerate(inputs):
            if c["env"] == env and "seq" in c:
                seqs.setdefault(c["seq"][0], []).append(i)
        sidx = []
        for sid, members in seqs.items():
            members.sort(key=lambda i: inputs[i]["seq"][1])
            jobs.append({"op": "c12.run_sequence", "text": inputs[members[0]]["text"], "funcs": FUNCS,
                         "states": [inputs[i]["state"] for i in members]})
            sidx.append(members)
        jobs.append({"op": "c12.config"})
        out = run_impl(jobs, env_extra=env, nproc=min(nproc, max(1, len(jobs) // 150)))
        return idx, sidx, out

    impl_configs = []
    with concurrent.futures.ThreadPoolExecutor(max_workers=4) as ex:
        for (env, _, _), (idx, sidx, out) in zip(configs_info, ex.map(one_env, [c[0] for c in configs_info])):
            for i, r in zip(idx, out[:len(idx)]):
                results[i] = r
            for members, rs in zip(sidx, out[len(idx):len(idx) + len(sidx)]):
                for i, r in zip(members, rs):
                    results[i] = r
            c = out[-1]
            impl_configs.append({"env": env, "EPSILON": c["eps"], "DEFAULT_DIGITS": c["digits"]})
    laps["implementation_s"] = round(time.time() - t0, 1)
    t0 = time.time()
    cases = []
    for inp, res in zip(inputs, results):
        cases.append({"lit": case_lit(inp, res), "input": {"case": inp, "implementation": res},
                      "nontrivial": inp["nontrivial"], "witness_of": None})
    verdicts, info = shards_with_retry(PROP, "Corr.C12", [c["lit"] for c in cases], shard_size=150,
                                       header_extra=HEADER)
    laps["coq_cases_s"] = round(time.time() - t0, 1)
    laps["case_literal_bytes"] = sum(len(c["lit"]) for c in cases)
    t0 = time.time()
    first = len(rep.violations)
    decide(rep, PROP, "Corr.C12", cases, verdicts, info, explain_expr="explain %s", header_extra=HEADER)
    _rename_replays(rep, first, "expr_")
    laps["decide_s"] = round(time.time() - t0, 1)

    cov = rep.coverage
    kinds, outcomes, cmp_truth, xs = {}, {}, {}, {}
    for inp, res in zip(inputs, results):
        kinds[inp["kind"]] = kinds.get(inp["kind"], 0) + 1
        xs[inp["x"][0]] = xs.get(inp["x"][0], 0) + 1
        if "ok" not in res["construct"]:
            o = "construct raised " + res["construct"]["raised"]
        elif inp["x"][0] in ("cmp", "asg"):
            o = "evaluate " + ("returned" if "ok" in res["eval"] else "raised " + res["eval"]["raised"])
        else:
            o = "calculate " + ("returned" if "ok" in res["calc"] else "raised " + res["calc"]["raised"])
        outcomes[o] = outcomes.get(o, 0) + 1
        if inp["kind"] == "tolerance-pair" and "ok" in res.get("eval", {}):
            k = "%s k=%s -> %s" % (inp["x"][1], inp["pair"]["k"], res["eval"]["ok"].get("bool"))
            cmp_truth[k] = cmp_truth.get(k, 0) + 1
    cov["input_distribution"] = kinds
    cov["expectation_kinds"] = xs
    cov["outcomes"] = outcomes
    cov["tolerance_pairs_truth_table"] = dict(sorted(cmp_truth.items()))
    cov["configurations"] = [{"env": e, "stated_EPSILON": hx(eps), "stated_DIGITS": d} for e, eps, d in configs_info]
    cov["implementation_configurations"] = impl_configs
    cov["generator"] = meta
    cov["samples"] = [c["input"]["case"] for c in cases[:2]] + [c["input"]["case"] for c in cases[len(cases) // 2: len(cases) // 2 + 2]] + \
                     [c["input"]["case"] for c in cases[-2:]]


def run_actions(rep, args, rng, replay_input, laps):
    """second family: actions with several numeric effects reading each other's targets (harness/c12_actions.py), judged
    by the shared execution model and spec through Corr.Core"""
    t0 = time.time()
    if replay_input is not None:
        worlds = [replay_input["world"]]
        hashseeds = [replay_input.get("hashseed", 0)]
    else:
        worlds = ACT.gen_worlds(rng, args.tier)
        hashseeds = [0, 1 + args.seed % 97] if args.tier == "quick" else [0, 1, 2, 3]
    all_cases, all_verdicts = [], ""
    info_total = {"shards": 0, "shard_errors": [], "cmd": ""}
    stats = {"worlds": len(worlds), "probes": 0, "steps": 0, "applicable": 0, "refused": 0, "raised": 0, "second_applications": 0,
             "forced_numeric_orders": 0, "forced_group_orders": 0, "shapes": {}, "kinds": {}, "modes": {}, "antecedents": {},
             "preconditions": {}, "literal_bytes": 0, "hash_seeds": hashseeds}
    changed_inputs = []
    for hk, hs in enumerate(hashseeds):
        natural_only = hk > 0 and replay_input is None
        jobs = [ACT.job_of(w, natural_only) for w in worlds]
        results = run_impl(jobs, hashseed=hs, nproc=min(NCPU, max(1, len(jobs) // 8)))
        lits, units, recs = [], [], []
        for w, j, r in zip(worlds, jobs, results):
            if "raised" in r:
                raise RuntimeError("implementation driver failed: %r" % (r,))
            lit, u, rc = ACT.world_literal(w, j, r)
            lits.append(lit)
            units.append(u)
            for kind, pi, si, single in rc:
                step = r["probes"][pi]["steps"][si] if pi is not None else None
                inp = {"world": dict(w, probes=[j["probes"][pi]] if pi is not None else []), "unit": kind, "step": si,
                       "hashseed": hs, "implementation": step if step is not None else {k: r.get(k) for k in ("vocab", "parse_raised")}}
                nontrivial = kind == "succ" and "value" in step["succ"]
                recs.append({"lit": single, "input": inp, "nontrivial": nontrivial, "witness_of": None})
            for pi, pr in enumerate(r.get("probes", [])):
                for si, st in enumerate(pr["steps"]):
                    if not st["input_unchanged"]:
                        changed_inputs.append({"world": dict(w, probes=[j["probes"][pi]]), "step": si, "hashseed": hs, "implementation": st})
            if hk == 0:
                for k_, d_ in (("shape", "shapes"), ("kind", "kinds"), ("mode", "modes"), ("antecedent", "antecedents"),
                               ("precondition", "preconditions")):
                    v = w["info"].get(k_)
                    if v is not None:
                        stats[d_][v] = stats[d_].get(v, 0) + 1
            for pr_in, pr in zip(j["probes"], r.get("probes", [])):
                stats["probes"] += 1
                stats["forced_numeric_orders"] += 1 if pr_in["num_order"] is not None else 0
                stats["forced_group_orders"] += 1 if pr_in["group_seed"] else 0
                for si, st in enumerate(pr["steps"]):
                    stats["steps"] += 1
                    stats["second_applications"] += 1 if si else 0
                    if "value" in st["succ"]:
                        stats["applicable"] += 1
                    elif st["app"].get("value") is False:
                        stats["refused"] += 1
                    else:
                        stats["raised"] += 1
        stats["literal_bytes"] += sum(len(x) for x in lits)
        verdicts, info = shards_with_retry(PROP + "/act", "Corr.Core", lits, units=units, shard_size=8, header_extra=ACT.HEADER,
                                           max_bytes=90_000)
        info_total["shards"] += info["shards"]
        info_total["shard_errors"] += info["shard_errors"]
        info_total["cmd"] = info["cmd"]
        all_cases += recs
        all_verdicts += verdicts
    laps["actions_s"] = round(time.time() - t0, 1)
    vc1, dn1 = dict(rep.coverage.get("verdict_counts", {})), rep.coverage.get("distinct_nontrivial", 0)
    first = len(rep.violations)
    decide(rep, PROP, "Corr.Core", all_cases, all_verdicts, info_total, explain_expr="explain %s", header_extra=ACT.HEADER,
           max_replays=5)
    _rename_replays(rep, first, "act_")
    vc2 = rep.coverage.get("verdict_counts", {})
    rep.coverage["verdict_counts"] = {k: vc1.get(k, 0) + vc2.get(k, 0) for k in set(vc1) | set(vc2)}
    rep.coverage["verdict_counts_actions"] = vc2
    rep.coverage["distinct_nontrivial"] = dn1 + rep.coverage.get("distinct_nontrivial", 0)
    for k, ci in enumerate(changed_inputs[:3]):
        p = write_replay(PROP, "act_input_changed_%d" % k, {"kind": "input", "why": "Operator.apply changed the state it was given", "input": ci})
        rep.violation(p, True)
    stats["inputs_changed_by_apply"] = len(changed_inputs)
    rep.coverage["actions_with_several_numeric_effects"] = stats
    if worlds:
        rep.coverage.setdefault("samples", []).append({"domain": worlds[0]["domain_text"], "probe": worlds[0]["probes"][:1]})


def run(args):
    rep = Report(PROP, args.tier, args.seed)
    standard_proof_part(rep, PROP)
    rng = random.Random(args.seed * 104729 + 12)
    rng_act = random.Random(args.seed * 7919 + 1212)
    configs = CONFIGS_QUICK if args.tier == "quick" else CONFIGS_THOROUGH
    laps = {}
    replay_case = replay_act = None
    if args.replay:
        data = json.load(open(args.replay))
        if "world" in data["input"]:
            replay_act = data["input"]
        else:
            replay_case = data["input"]["case"]
            configs = [replay_case.get("env", {})]
    if replay_act is None:
        run_expressions(rep, args, rng, configs, replay_case, laps)
    if replay_case is None:
        run_actions(rep, args, rng_act, replay_act, laps)
    cov = rep.coverage
    cov["timing"] = laps
    cov["exhaustive"] = False
    cov["rule"] = ("all expression trees of depth <= 2 over + - * / and the leaves listed in generator.exhaustive (every valuation of the grid "
                   "for depth <= 1, rotating valuations for depth 2); random trees of depth <= 4 with dyadic/decimal/extreme constants and "
                   "five fluents (some missing from the state), alone or as a side of a comparison / right-hand side of an assignment; value "
                   "pairs 0, 0.5, 1, 2 tolerances apart and one ulp either side of each, both directions and signs, at magnitudes 1e-3..1e9 "
                   "(1e15 thorough), all six comparison operators, plus infinities/NaN/zeros/subnormals/extremes; assignments; malformed forms (arity != 2 ...) "
                   "that must be rejected; constants stressing the fixed-point rounding (exact ties at the configured digits, one ulp "
                   "either side, decimal pseudo-ties, huge/tiny/special values); each under the EPSILON/NUMERIC_PRECISION settings listed "
                   "in configurations (implementation run in subprocesses with those environment variables).  Second family "
                   "(actions_with_several_numeric_effects): one-action domains whose 2-4 numeric effects read each other's targets "
                   "(symmetric and asymmetric pairs, closed/open chains, an effect reading its own target, random right-hand sides; 0-ary and "
                   "parametrised fluents; all in the unconditional group, split over the unconditional group and one or two `when`s with "
                   "literal or numeric antecedents on a target, mutually exclusive whens writing one target, a forall-when), applied through "
                   "Operator.apply to random states (non-dyadic values, magnitudes 1e-7..1e15, absent fluents) with the effect groups and the "
                   "numeric effects inside every group visited in the library's own, sorted, reversed and random forced orders, under "
                   "several PYTHONHASHSEEDs, and the same Operator object applied again to its own successor; every successor fluent "
                   "compared bit-exactly with the shared execution model and with the PDDL successor (right-hand sides read in the "
                   "pre-state).  Non-trivial: the expression contains an operator, comparison or assignment, or is a print-stress constant "
                   "or malformed form; for the second family a successor unit of an applicable call; distinct by input hash.")
    cov["explanation"] = ("theorems C12_* (Props/C12.v) proved for all inputs and all eps/rel_tol/digits on the model; model tied to the "
                          "implementation by the cases above: model vs implementation (bit-equal floats, equal texts) and implementation "
                          "vs the spec oracle (Spec/Arith.v evaluated in Coq on the generator's abstract expression; Spec/Pddl.v successor "
                          "for the actions with several numeric effects)")
    rep.assumptions = ["fluent values and constants are binary64 floats; float(str) of CPython is trusted (numerals cross as hex)",
                       "ASCII expression text; heads of compound forms are atoms",
                       "actions with several numeric effects: the effects that fire together have pairwise distinct targets"]
    return rep.finish()
