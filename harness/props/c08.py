"""C08 - exporting a domain and parsing it back preserves vocabulary and behaviour."""
import glob
import json
import os
import random
import re
import time

from ..common import (REPO, Report, cbool, chex, clist, cobs, cstr, decide, load_findings, run_case_shards, run_impl,
                      standard_proof_part, write_replay)
from .. import pddlgen as G
from ..core_common import build_world, catom, cstate

PROP = "C08"
HEADER = "From Coq Require Import PrimFloat.\nFrom Verif Require Import Spec.Pddl.\n"

# numerals that are NOT representable with 2 (conditions) / 4 (effects) decimals, ties and carries included
LONG_NUMERALS = ["0.125", "2.675", "1.005", "0.12345678", "3.99999", "-0.004", "0.375", "2.99999", "0.00004", "7.5",
                 "0.0051", "12.3456789", "-1.99999", "0.999", "100.005", "1e-3", "0.30000000000000004", "2.5e2"]


# ---------------------------------------------------------------- generation
def is_numeral(tok):
    if not isinstance(tok, str) or tok.startswith("?"):
        return False
    try:
        float(tok)
        return tok[0] in "0123456789-+."
    except ValueError:
        return False


def map_numerals(tree, rng, p):
    if isinstance(tree, str):
        return rng.choice(LONG_NUMERALS) if is_numeral(tree) and rng.random() < p else tree
    return [map_numerals(x, rng, p) for x in tree]


def has_vacuous_forall(tree):
    if isinstance(tree, str):
        return False
    if len(tree) == 3 and tree[0] == "forall" and isinstance(tree[2], list) and len(tree[2]) == 1 \
            and tree[2][0] in ("and", "or"):
        return True
    return any(has_vacuous_forall(x) for x in tree)


def count_numerals(tree):
    if isinstance(tree, str):
        return 1 if is_numeral(tree) else 0
    return sum(count_numerals(x) for x in tree)


def gen_cases(rng, tier):
    """generated worlds: 'plain' (constants representable at the exporter's decimals; with probes) and 'rounding'
    (long constants; the text-level units only)"""
    n_plain, n_round = {"quick": (45, 25), "thorough": (360, 180)}[tier]
    out = []
    while len([c for c in out if c["kind"] == "plain"]) < n_plain:
        w = G.gen_world(rng, max_actions=rng.choice([1, 2, 2, 3]))
        wd = build_world(rng, w, n_states=2, calls_per_action=3, perms=(0, 1), noise=rng.random() < 0.5)
        wd["kind"] = "plain"
        wd["probes"] = wd["probes"][:10]
        out.append(wd)
    k = 0
    while k < n_round:
        w = G.gen_world(rng, max_actions=2)
        for a in w.actions:
            a["pre"] = map_numerals(a["pre"], rng, 0.6)
            a["eff"] = map_numerals(a["eff"], rng, 0.6)
        if sum(count_numerals(a["pre"]) + count_numerals(a["eff"]) for a in w.actions) == 0:
            continue
        wd = build_world(rng, w, n_states=1, calls_per_action=1, perms=(0,), noise=False)
        wd["kind"] = "rounding"
        wd["probes"] = []
        out.append(wd)
        k += 1
    for wd in out:
        wd["klass"] = "D83" if has_vacuous_forall(wd["tree"]) else None
    return out


def shipped_cases(rng, tier):
    files = []
    for f in sorted(glob.glob(str(REPO) + "/tests/**/*.pddl", recursive=True)):
        try:
            head = open(f, errors="replace").read(4000)
        except OSError:
            continue
        if re.search(r"\(\s*define\s*\(\s*domain\b", re.sub(r";[^\n]*", "", head), re.I):
            files.append(f)
    # identical copies of one file are the same input
    seen, uniq = {}, []
    for f in files:
        txt = open(f, errors="replace").read()
        if txt in seen:
            seen[txt].append(f)
            continue
        seen[txt] = [f]
        uniq.append(f)
    out = []
    for f in uniq:
        out.append({"kind": "shipped", "domain_path": os.path.relpath(f, str(REPO)), "copies": len(seen[open(f, errors="replace").read()]),
                    "auto_seed": rng.randint(1, 10 ** 6), "features": ["shipped"], "klass": None})
    return out, len(files)


HAND_CORPUS = [
    # :private predicates, untyped domain (no :types section), empty precondition and effect
    ("private-untyped",
     "(define (domain hc1) (:requirements :strips) (:predicates (p ?x) (:private (q ?x ?y) (r))) "
     "(:action a :parameters (?x ?y) :precondition () :effect (and)) "
     "(:action b :parameters (?x ?y) :precondition (and (p ?x) (not (q ?x ?y))) :effect (and (r) (q ?y ?x) (not (p ?x)))))",
     [["o1", "object"], ["o2", "object"]],
     [("b", ["o1", "o2"], [["p", ["o1"]]], []), ("b", ["o1", "o2"], [["p", ["o1"]], ["q", ["o1", "o2"]]], []), ("a", ["o1", "o2"], [], [])]),
    # constant named like the root type, constants in literals and in fluents, trailing untyped constant
    ("constants",
     "(define (domain hc2) (:requirements :typing :fluents) (:types a b - object) (:constants object k - a z) "
     "(:predicates (p ?x - a) (g ?x - object)) (:functions (f ?x - a)) "
     "(:action act :parameters (?x - a) :precondition (and (p object) (g z) (>= (f k) 0.5)) "
     ":effect (and (p ?x) (increase (f object) 0.25) (assign (f ?x) (- (f k) 1.75)))))",
     [["o1", "a"]], [("act", ["o1"], [["p", ["object"]], ["g", ["z"]]], [["f", ["k"], 1.0], ["f", ["object"], 0.0], ["f", ["o1"], 3.0]]),
                     ("act", ["o1"], [["p", ["object"]]], [["f", ["k"], 1.0], ["f", ["object"], 0.0], ["f", ["o1"], 3.0]])]),
    # deep nesting, quantifier inside a disjunction, (in)equalities at several levels, forall-when with inequality
    ("nesting",
     "(define (domain hc3) (:requirements :adl) (:types a - object b - a) (:predicates (p ?x - a) (e ?x - a ?y - a)) "
     "(:action act :parameters (?x - a ?y - b) :precondition (and (or (and (p ?x) (or (not (p ?y)) (= ?x ?y))) "
     "(forall (?q - b) (or (e ?q ?x) (not (= ?q ?y))))) (not (= ?x ?y))) "
     ":effect (and (forall (?u - a) (when (and (e ?u ?x) (not (= ?u ?y))) (and (not (e ?u ?x)) (p ?u)))) "
     "(when (or (p ?y) (not (p ?x))) (e ?x ?y)))))",
     [["o1", "a"], ["o2", "b"], ["o3", "b"]],
     [("act", ["o1", "o2"], [["p", ["o1"]], ["e", ["o3", "o1"]], ["e", ["o2", "o1"]]], []),
      ("act", ["o1", "o2"], [["p", ["o2"]], ["e", ["o3", "o1"]]], []), ("act", ["o3", "o2"], [["p", ["o3"]]], [])]),
]


def hand_probe(name, action, args, objs, facts, fluents):
    o = " ".join("%s - %s" % (n, t) for n, t in objs)
    init = " ".join(["(= (%s) %r)" % (" ".join([f] + a), float(v)) for f, a, v in fluents] +
                    ["(%s)" % " ".join([p] + a) for p, a in facts])
    return {"action": action, "args": args, "perm_seed": 0,
            "problem_text": "(define (problem prob) (:domain %s) (:objects %s) (:init %s) (:goal (and)))" % (name, o, init),
            "state": {"facts": facts, "fluents": [[f, a, float(v).hex()] for f, a, v in fluents]}}


def corpus_cases():
    out = []
    for tag, text, objs, probes in HAND_CORPUS:
        name = re.search(r"\(domain (\w+)\)", text).group(1)
        out.append({"kind": "corpus", "domain_text": text, "objects": objs,
                    "probes": [hand_probe(name, a, args, objs, facts, fl) for a, args, facts, fl in probes],
                    "features": ["hand:" + tag], "witness_of": None, "klass": None})
    for f in load_findings(PROP):
        w = f.get("witness")
        if not w or "domain_text" not in w:
            continue
        out.append({"kind": "corpus", "domain_text": w["domain_text"], "objects": w.get("objects", []),
                    "probes": w.get("probes", []), "features": ["corpus:" + f["id"]],
                    "witness_of": f["id"] if f.get("status") == "open" else None,
                    "klass": f["id"] if f.get("status") == "open" else None})
    return out


# ---------------------------------------------------------------- process-level sequences
def tree_atoms(t, out):
    if isinstance(t, str):
        out.add(t)
    else:
        for x in t:
            tree_atoms(x, out)
    return out


def quantified_vars(t, out):
    if isinstance(t, list):
        if len(t) >= 2 and t[0] == "forall" and isinstance(t[1], list):
            out.update(x for x in t[1] if isinstance(x, str) and x.startswith("?"))
        for x in t:
            quantified_vars(x, out)
    return out


def subst_tree(t, m):
    if isinstance(t, str):
        return m.get(t, t)
    return [subst_tree(x, m) for x in t]


def rename_of(rng, tree):
    """a renaming of the parameters of one action (fresh names, or a permutation of the parameters of one type) together
    with the domain text whose action is renamed the same way - by the generator, on the token tree"""
    idx = [i for i, it in enumerate(tree) if isinstance(it, list) and it and it[0] == ":action"]
    rng.shuffle(idx)
    for i in idx:
        a = tree[i]
        params = [x for x in a[3] if x.startswith("?")]
        if not params or quantified_vars(a, set()) & set(params):
            continue
        used = tree_atoms(tree, set())
        fresh = [n for n in ("?r%d" % k for k in range(40)) if n not in used]
        types = {}
        toks = a[3]
        pend = []
        for k, x in enumerate(toks):            # parameter -> type (grouped declarations: p q - t)
            if x.startswith("?"):
                pend.append(x)
            elif x != "-":
                for q in pend:
                    types[q] = x
                pend = []
        same = [[q for q in params if types.get(q) == types.get(p0)] for p0 in params]
        same = [g for g in same if len(g) >= 2]
        r = rng.random()
        if same and r < 0.3:
            g = rng.choice(same)
            x, y = rng.sample(g, 2)
            mapping, kind = {x: y, y: x}, "swap"
        elif r < 0.65 or len(params) == 1:
            mapping, kind = {q: fresh[k] for k, q in enumerate(params)}, "all-fresh"
        else:
            q = rng.choice(params)
            mapping, kind = {q: fresh[0]}, "one-fresh"
        new_tree = list(tree)
        new_tree[i] = subst_tree(a, mapping)
        return {"action": a[1], "mapping": mapping, "kind": kind, "renamed_text": G.render(new_tree)}
    return None


def seq_cases(rng, tier, plain):
    """sequence cases are built on generated 'plain' worlds (constants representable, probes present)"""
    n = {"quick": 8, "thorough": 60}[tier]
    pool = [c for c in plain if c["kind"] == "plain" and c.get("tree")]
    out = []
    for c in rng.sample(pool, min(n, len(pool))):
        other = rng.choice([o for o in pool if o is not c] or pool)
        out.append({"kind": "sequence", "domain_text": c["domain_text"], "objects": c["objects"], "probes": c["probes"][:5],
                    "features": c["features"], "klass": c.get("klass"), "witness_of": None,
                    "other_text": other["domain_text"], "other_objects": other["objects"],
                    "rename": rename_of(rng, c["tree"])})
    return out


def seq_job(c):
    return {"op": "c08.roundtrip_seq", "domain_text": c["domain_text"], "other_text": c["other_text"], "rename": c["rename"],
            "probes": [{k: p[k] for k in ("action", "args", "problem_text", "perm_seed")} for p in c["probes"]]}


# ---------------------------------------------------------------- jobs and literals
def job_of(case):
    if "domain_path" in case:
        return {"op": "c08.roundtrip", "domain_path": str(REPO / case["domain_path"]), "auto_seed": case["auto_seed"]}
    return {"op": "c08.roundtrip", "domain_text": case["domain_text"],
            "probes": [{k: p[k] for k in ("action", "args", "problem_text", "perm_seed")} for p in case["probes"]]}


def obs_text(res, key):
    return "(Returned %s)" % cstr(res[key]) if key in res else "Raised"


def cobs_bool(r):
    return "(Returned %s)" % cbool(r["value"]) if "value" in r else "Raised"


def cobs_state(r):
    return "(Returned %s)" % cstate(r["value"]) if "value" in r else "Raised"


def meta(res, i):
    if "name%d" % i not in res:
        return ""
    return "%s|%s" % (res["name%d" % i], " ".join(res["reqs%d" % i]))


def case_literal(case, res):
    """-> (Coq literal, number of verdict units)"""
    if "raised" in res or "unreadable" in res:
        raise RuntimeError("driver failure: %r" % (res,))
    cfg = res["cfg"]
    nums = clist(["(%s, %s)" % (cstr(k), chex(float.fromhex(v))) for k, v in sorted(res["nums"].items())])
    if "auto" in res:
        objects, probes = res["auto"]["objects"], res["auto"]["probes"]
    else:
        objects, probes = case.get("objects", []), case.get("probes", [])
    plits = []
    if "vocab0" in res:
        for pr, r in zip(probes, res.get("probes", [])):
            plits.append("{| q_action := %s; q_args := %s; q_state := %s; q_app0 := %s; q_succ0 := %s; q_app1 := %s; q_succ1 := %s |}" % (
                cstr(pr["action"]), clist([cstr(a) for a in pr["args"]]), cstate(pr["state"]),
                cobs_bool(r["app0"]), cobs_state(r["succ0"]), cobs_bool(r["app1"]), cobs_state(r["succ1"])))
    lit = ("{| c_text := %s; c_nums := %s; c_eps := %s; c_dpre := %d; c_deff := %d; c_objs := %s; "
           "c_vocab0 := %s; c_meta0 := %s; c_x1 := %s; c_vocab1 := %s; c_meta1 := %s; c_x2 := %s; c_vocab2 := %s; c_probes := %s |}") % (
        cstr(res["text"]), nums, chex(float.fromhex(cfg["epsilon"])), cfg["dpre"], cfg["deff"],
        clist(["(%s, %s)" % (cstr(n), cstr(t)) for n, t in objects]),
        obs_text(res, "vocab0"), cstr(meta(res, 0)), obs_text(res, "x1"), obs_text(res, "vocab1"), cstr(meta(res, 1)),
        obs_text(res, "x2"), obs_text(res, "vocab2"), clist(plits))
    units = 1 if "vocab0" not in res else 4 + len(plits)
    return lit, units


UNIT_NAMES = ["export", "reparse", "second", "wf"]
NFIX = len(UNIT_NAMES)


def run(args):
    rep = Report(PROP, args.tier, args.seed)
    standard_proof_part(rep, PROP)
    rng = random.Random(args.seed * 15485863 + 8)
    n_files = 0
    if args.replay:
        data = json.load(open(args.replay))
        cases_in = [data["input"]["case"]]
        hashseeds = [data["input"].get("hashseed", 0)]
    else:
        shipped, n_files = shipped_cases(rng, args.tier)
        cases_in = corpus_cases() + gen_cases(rng, args.tier) + shipped
        hashseeds = [0] if args.tier == "quick" else [0, 1, 2]
    all_cases, all_verdicts = [], ""
    info_total = {"shards": 0, "shard_errors": [], "cmd": ""}
    stats = {"cases": 0, "by_kind": {}, "parsed": 0, "parse_rejected": 0, "exported": 0, "reparsed": 0, "probes": 0,
             "app_true": 0, "app_false": 0, "app_raised": 0, "succ_returned": 0, "features": {}, "numerals_in_export": 0,
             "numerals_rounded": 0, "shipped_files_found": n_files, "vacuous_forall_worlds": 0, "text_bytes": 0}
    cfg = None
    for hs in hashseeds:
        results = run_impl([job_of(c) for c in cases_in], hashseed=hs)
        lits, units = [], []
        for c, r in zip(cases_in, results):
            lit, u = case_literal(c, r)
            lits.append(lit)
            units.append(u)
        for attempt in range(3):
            verdicts, info = run_case_shards(PROP, "Corr.C08", lits, shard_size=8, units=units, header_extra=HEADER,
                                             max_bytes=110_000)
            if not info["shard_errors"]:
                break
            # a shard that could not be evaluated (another builder rebuilding shared .vo files, memory pressure) is
            # evaluated again; a failure that persists is reported by decide()
            stats["shard_retries"] = stats.get("shard_retries", 0) + 1
            time.sleep(20)
        info_total["shards"] += info["shards"]
        info_total["shard_errors"] += info["shard_errors"]
        info_total["cmd"] = info["cmd"]
        pos = 0
        for c, r, lit, u in zip(cases_in, results, lits, units):
            chars = verdicts[pos:pos + u]
            pos += u
            probes = r["auto"]["probes"] if "auto" in r else c.get("probes", [])
            for k, ch in enumerate(chars):
                unit = "rejected" if u == 1 else (UNIT_NAMES[k] if k < NFIX else "probe %d" % (k - NFIX))
                inp = {"case": {kk: vv for kk, vv in c.items() if kk != "tree"},
                       "unit": unit, "hashseed": hs,
                       "implementation": {kk: r.get(kk) for kk in ("vocab0", "vocab1", "vocab2", "x1", "x2", "parse_raised",
                                                                  "export_raised", "reparse_raised", "second_raised", "cfg")},
                       "probe": (dict(probes[k - NFIX], result=r["probes"][k - NFIX]) if k >= NFIX else None)}
                nontrivial = (c["kind"] != "corpus" and u > 1 and
                              (k < NFIX or len(probes[k - NFIX]["state"]["facts"]) > 0))
                all_cases.append({"lit": lit, "input": inp, "nontrivial": nontrivial,
                                  "witness_of": c.get("witness_of"), "klass": c.get("klass")})
                all_verdicts += ch
        if hs == hashseeds[0]:
            for c, r in zip(cases_in, results):
                cfg = r.get("cfg", cfg)
                stats["cases"] += 1
                stats["by_kind"][c["kind"]] = stats["by_kind"].get(c["kind"], 0) + 1
                stats["text_bytes"] += len(r.get("text", ""))
                for f in c.get("features", []):
                    stats["features"][f] = stats["features"].get(f, 0) + 1
                if c.get("klass") == "D83":
                    stats["vacuous_forall_worlds"] += 1
                if "vocab0" not in r:
                    stats["parse_rejected"] += 1
                    continue
                stats["parsed"] += 1
                stats["exported"] += 1 if "x1" in r else 0
                stats["reparsed"] += 1 if "vocab1" in r else 0
                if "x1" in r:
                    toks = re.sub(r"[()]", " ", r["x1"]).split()
                    nums = [t for t in toks if is_numeral(t)]
                    stats["numerals_in_export"] += len(nums)
                    stats["numerals_rounded"] += sum(1 for t in nums if "." in t)
                for b in r.get("probes", []):
                    stats["probes"] += 1
                    a = b["app0"]
                    if "value" in a:
                        stats["app_true" if a["value"] else "app_false"] += 1
                    else:
                        stats["app_raised"] += 1
                    stats["succ_returned"] += 1 if "value" in b["succ0"] else 0
    # process-level sequences: one exporter, one Domain object, one output path, exported again and again
    if args.replay and "stage" not in data["input"]:
        seqs = []
    elif args.replay:
        seqs = [data["input"]["case"]]
        cases_in = []
    else:
        seqs = seq_cases(rng, args.tier, cases_in)
    seq_stats = {"cases": len(seqs), "stages": {}, "renames": {}, "stage_units": 0}
    if seqs:
        sres = run_impl([seq_job(c) for c in seqs], hashseed=hashseeds[-1], nproc=min(8, len(seqs)))
        slits, sunits, srecs = [], [], []
        for c, r in zip(seqs, sres):
            if "raised" in r:
                raise RuntimeError("driver failure: %r" % (r,))
            if c["rename"]:
                seq_stats["renames"][c["rename"]["kind"]] = seq_stats["renames"].get(c["rename"]["kind"], 0) + 1
            for st in r.get("stages", []):
                cs = dict(c, domain_text=st["text"])
                if st["stage"] == "other-domain":
                    cs = dict(cs, probes=[], objects=c.get("other_objects", []))
                lit, u = case_literal(cs, st)
                slits.append(lit)
                sunits.append(u)
                seq_stats["stages"][st["stage"]] = seq_stats["stages"].get(st["stage"], 0) + 1
                for k in range(u):
                    unit = "rejected" if u == 1 else (UNIT_NAMES[k] if k < NFIX else "probe %d" % (k - NFIX))
                    inp = {"case": {kk: vv for kk, vv in c.items() if kk != "tree"}, "stage": st["stage"], "unit": unit,
                           "hashseed": hashseeds[-1],
                           "implementation": {kk: st.get(kk) for kk in ("vocab0", "vocab1", "vocab2", "x1", "x2", "parse_raised",
                                                                        "export_raised", "reparse_raised", "second_raised", "cfg")},
                           "probe": (dict(cs["probes"][k - NFIX], result=st["probes"][k - NFIX]) if k >= NFIX and u > 1 else None)}
                    srecs.append({"lit": lit, "input": inp, "nontrivial": u > 1 and st["stage"] != "first",
                                  "witness_of": None, "klass": c.get("klass")})
        sverdicts, sinfo = run_case_shards(PROP + "/seq", "Corr.C08", slits, shard_size=8, units=sunits, header_extra=HEADER,
                                           max_bytes=110_000)
        info_total["shards"] += sinfo["shards"]
        info_total["shard_errors"] += sinfo["shard_errors"]
        info_total["cmd"] = info_total["cmd"] or sinfo["cmd"]
        all_cases += srecs
        all_verdicts += sverdicts
        seq_stats["stage_units"] = len(srecs)
        seq_stats["verdicts"] = {ch: sverdicts.count(ch) for ch in set(sverdicts)}
    stats["sequences"] = seq_stats
    if info_total["shard_errors"]:
        rep.notes.append({"shard_errors": [{"file": e["file"], "rc": e["rc"], "out": e["out"][-400:]} for e in info_total["shard_errors"][:5]]})
    decide(rep, PROP, "Corr.C08", all_cases, all_verdicts, info_total, explain_expr="explain %s", header_extra=HEADER,
           max_replays=5)
    cov = rep.coverage
    cov["input_distribution"] = stats
    cov["hash_seeds"] = hashseeds
    cov["exporter_config"] = cfg
    cov["exhaustive"] = False
    cov["rule"] = ("generated typed domains (pddlgen: <=4 types in any declaration order, constants, 2-4 predicates, <=3 functions, 1-3 actions "
                   "with and/or/not/=/forall/comparison preconditions incl. nested ones, add/del/assign/increase/decrease/when/forall-when effects), "
                   "half of them rendered with layout/case/comment noise: 'plain' worlds keep constants representable at the exporter's decimals and carry "
                   "up to 10 probes (random states over all type-correct ground atoms x type-correct calls, effect collections in forced orders); "
                   "'rounding' worlds have 60% of their numerals replaced by long constants (ties, carries, negative zero, exponents) and are judged on "
                   "the text-level units only; plus every distinct domain file under tests/ of the repository with automatically built probes "
                   "(two objects per type, random facts/fluents, random type-correct calls with distinct arguments; every other state is completed with the "
                   "call's positive precondition literals so that about half of these probes are applicable), three hand-written corpus domains "
                   "(:private predicates in an untyped domain; a constant named 'object', constants in literals and fluents, an untyped trailing constant; "
                   "deep nesting with a quantifier inside a disjunction) and the witnesses of the recorded findings. Each case yields the units export / reparse / second and one "
                   "per probe. Process-level sequences (input_distribution.sequences): for a sample of the plain worlds ONE DomainExporter, ONE Domain object "
                   "and ONE output path are used again and again - export; run every probe on that Domain object and export again; parse and export ANOTHER "
                   "domain through the same exporter and path (judged against its own text), then the first again; change_signature of one action (fresh names / "
                   "one parameter / a swap) and export, judged against the text whose action the generator renamed; the inverse renaming and export, judged "
                   "against the original text - every stage a full case whose file is read back; every exported text must be ONE complete form (strict reader). "
                   "Non-trivial: a parsed, non-corpus case (for sequences: every stage after the first); probe units need a state with at least one fact. "
                   "Distinct by input hash.")
    samples = [c for c in all_cases if c["input"]["unit"] == "export"][:2] + [c for c in all_cases if c["input"]["unit"].startswith("probe")][:2]
    cov["samples"] = [{"unit": c["input"]["unit"], "domain": (c["input"]["case"].get("domain_text") or c["input"]["case"].get("domain_path"))[:500],
                       "exported": (c["input"]["implementation"].get("x1") or "")[:300], "probe": c["input"]["probe"] and
                       {k: c["input"]["probe"][k] for k in ("action", "args")}} for c in samples]
    rep.assumptions = ["ASCII text", "states define every fluent read; successor compared only when the firing effects are consistent",
                       "float(str) is data: the value of every numeral of T, X1, X2 is supplied by the implementation's float()"]
    return rep.finish()
