"""C03 - Operator.apply returns exactly the PDDL successor, whatever the iteration order of the effect collections.

Proof part: Props/C03.v (see its header).  Correspondence (Corr/C03.v): generated worlds (domain text + states + calls),
the implementation's answers (applicability, successor in the observed / forced visiting order, exception class of a
refusal, forced successor) against the model run in the SAME order and against the spec's successor.
Streams: corpus (witnesses of findings), the repository's own domains, random typed domains (pddlgen), and planted classes:
read-write (conditional / universal effects read what the unconditional group writes), guard-shape (preconditions of one
kind only, harness/guardgen.py), quantified-constant (D30), a quantified 'when' condition (D40), delete+add of one atom,
inconsistent groups (judged by the frame/membership oracle of Proofs/C03_Weak.v and compared exactly with the model in the
observed order), and a small scope enumerated exhaustively (thorough) or sampled (quick).
Round 3: CALL SEQUENCES on one Operator object (chains / spreads / mixtures, two units each: states read back at once and
again after the last call) in every generated stream and from every state of the small scope."""
import itertools
import json
import random

from ..common import (Report, cbool, chex, clist, cstr, decide, load_findings, run_case_shards, run_impl,
                      standard_proof_part)
from .. import pddlgen as G
from ..core_common import catom, count_groups, cstate

PROP = "C03"
TAGS = {"c": "consistent: spec successor", "I": "inconsistent: frame/membership oracle + exact model state (order observed)",
        "i": "inconsistent: frame/membership oracle only", "r": "refused call: an error expected", "?": "no reading / shard failed"}
BATCH = 400
# one coqc start (loading Corr/C03.vo and what it needs) costs ~0.85 CPU-s: shards of ~200 kB / 16 worlds instead of 110 kB / 8 halve that
# share (it was ~30 % of the thorough tier's CPU time); literals of this size parse without trouble under 'ulimit -s unlimited'
SHARD_WORLDS = 16
SHARD_BYTES = 200_000
HEADER = "From Coq Require Import PrimFloat.\nFrom Verif Require Import Spec.Pddl Corr.Core Corr.C03.\n"


# ------------------------------------------------------------------------------------------------ literals
def cobs_state(r):
    return "(Returned %s)" % cstate(r["value"]) if r and "value" in r else "Raised"


def cobs_bool(r):
    return "(Returned %s)" % cbool(r["value"]) if r and "value" in r else "Raised"


def nats(l):
    return clist([str(int(i)) for i in l])


def probe_literal(pr, st, r):
    if "problem_raised" in r:
        r = {"app": {}, "succ": {}, "forced": {}, "valerr": False, "order": [], "uorder": [], "obs_order": False}
    return ("{| q_action := %s; q_args := %s; q_state := %s; q_obs_order := %s; q_order := %s; q_uorder := %s; "
            "q_app := %s; q_succ := %s; q_valerr := %s; q_forced := %s |}") % (
        cstr(pr["action"]), clist([cstr(a) for a in pr["args"]]), cstate(st), cbool(r.get("obs_order")),
        nats(r.get("order", [])), nats(r.get("uorder", [])), cobs_bool(r.get("app")), cobs_state(r.get("succ")),
        cbool(r.get("valerr")), cobs_state(r.get("forced")))


def world_head(wd, res, eps_hex, prefix):
    nums = clist(["(%s, %s)" % (cstr(k), chex(float.fromhex(v))) for k, v in sorted(res["nums"].items())])
    objs = clist(["(%s, %s)" % (cstr(n), cstr(t)) for n, t in wd["objects"]])
    return "%s_text := %s; %s_nums := %s; %s_eps := %s; %s_objs := %s; %s_noobjs := %s" % (
        prefix, cstr(wd["domain_text"]), prefix, nums, prefix, chex(float.fromhex(eps_hex)), prefix, objs, prefix,
        cbool(bool(wd.get("noobjs"))))


def seq_literal(wd, sq, r):
    steps = []
    for st, o in zip(sq["steps"], r["steps"]):
        src = "SPrev" if st["src"] is None else "(SFrom %s)" % cstate(wd["states"][st["src"]])
        late = "(Some %s)" % cobs_state(o["late"]) if "late" in o else "None"
        steps.append("{| ss_src := %s; ss_allow := %s; ss_succ := %s; ss_valerr := %s; ss_late := %s |}" % (
            src, cbool(st["allow"]), cobs_state(o.get("succ")), cbool(o.get("valerr")), late))
    return ("{| sq_action := %s; sq_args := %s; sq_start := %s; sq_obs_order := %s; sq_order := %s; sq_uorder := %s; sq_steps := %s |}" % (
        cstr(sq["action"]), clist([cstr(a) for a in sq["args"]]), cstate(wd["states"][sq["start"]]), cbool(r.get("obs_order")),
        nats(r.get("order", [])), nats(r.get("uorder", [])), clist(steps)))


def full_literal(wd, res, eps_hex, only=None):
    probes = []
    for i, (pr, r) in enumerate(zip(wd["probes"], res["probes"])):
        if only is not None and i != only:
            continue
        probes.append(probe_literal(pr, wd["states"][pr["state"]], r))
    seqs = [seq_literal(wd, sq, r) for sq, r in zip(wd.get("seqs", []), res.get("seqs", []))]
    return "WFull {| %s; v_probes := %s; v_seqs := %s |}" % (world_head(wd, res, eps_hex, "v"), clist(probes), clist(seqs))


def compact_state(wd, st):
    """state dict -> (indices into the atom table, values in fluent-key order) or None when it does not fit"""
    try:
        idx = sorted(wd["atom_index"][(p, tuple(a))] for p, a in st["facts"])
        vals = {(f, tuple(a)): v for f, a, v in st["fluents"]}
        if set(vals) != set(wd["fkey_list"]):
            return None
        fl = [vals[k] for k in wd["fkey_list"]]
    except KeyError:
        return None
    return "(%s, %s)" % (nats(idx), clist([chex(float.fromhex(v) if isinstance(v, str) else float(v)) for v in fl]))


def cobs_cstate(wd, r):
    if not r or "value" not in r:
        return "Raised"
    c = compact_state(wd, r["value"])
    return None if c is None else "(Returned %s)" % c


def compact_literal(wd, res, eps_hex):
    """None when some observed state does not fit the tables (then the caller falls back to the full form)"""
    probes = []
    for pr, r in zip(wd["probes"], res["probes"]):
        if "problem_raised" in r:
            return None
        s1, s2 = cobs_cstate(wd, r.get("succ")), cobs_cstate(wd, r.get("forced"))
        if s1 is None or s2 is None:
            return None
        probes.append("{| xp_call := %d; xp_state := %d; xp_obs_order := %s; xp_order := %s; xp_uorder := %s; xp_app := %s; "
                      "xp_succ := %s; xp_valerr := %s; xp_forced := %s |}" % (
                          pr["call"], pr["state"], cbool(r.get("obs_order")), nats(r.get("order", [])),
                          nats(r.get("uorder", [])), cobs_bool(r.get("app")), s1, cbool(r.get("valerr")), s2))
    seqs = []
    for sq, r in zip(wd.get("seqs", []), res.get("seqs", [])):
        steps = []
        for st, o in zip(sq["steps"], r["steps"]):
            s1 = cobs_cstate(wd, o.get("succ"))
            late = "(Some %s)" % cobs_cstate(wd, o["late"]) if "late" in o else "None"
            if s1 is None or "None)" in late:
                return None
            steps.append("{| xt_src := %s; xt_allow := %s; xt_succ := %s; xt_valerr := %s; xt_late := %s |}" % (
                "None" if st["src"] is None else "(Some %d)" % st["src"], cbool(st["allow"]), s1, cbool(o.get("valerr")), late))
        seqs.append("{| xq_call := %d; xq_start := %d; xq_obs_order := %s; xq_order := %s; xq_uorder := %s; xq_steps := %s |}" % (
            sq["call"], sq["start"], cbool(r.get("obs_order")), nats(r.get("order", [])), nats(r.get("uorder", [])), clist(steps)))
    states = [compact_state(wd, st) for st in wd["states"]]
    if any(s is None for s in states):
        return None
    atoms = clist([catom(p, list(a)) for p, a in wd["atom_list"]])
    fkeys = clist([catom(f, list(a)) for f, a in wd["fkey_list"]])
    calls = clist(["(%s, %s)" % (cstr(a), clist([cstr(x) for x in args])) for a, args in wd["calls"]])
    return "WCompact {| %s; x_atoms := %s; x_fkeys := %s; x_states := %s; x_calls := %s; x_probes := %s; x_seqs := %s |}" % (
        world_head(wd, res, eps_hex, "x"), atoms, fkeys, clist(states), calls, clist(probes), clist(seqs))


# ------------------------------------------------------------------------------------------------ generation
def has_forall(t):
    return isinstance(t, list) and (bool(t) and t[0] == "forall" or any(has_forall(x) for x in t))


def d40_class(action_tree_eff):
    """some condition of a when / forall-when contains a quantifier"""
    for item in action_tree_eff[1:]:
        if isinstance(item, list) and item:
            if item[0] == "when" and has_forall(item[1]):
                return True
            if item[0] == "forall" and isinstance(item[2], list) and item[2][0] == "when" and has_forall(item[2][1]):
                return True
    return False


def n_perms(n):
    f = 1
    for i in range(2, n + 1):
        f *= i
    return f


def perm_choices(rng, ngroups, nuniv, tier):
    """None = the order the hash set happens to give; k = the k-th permutation of the parse order"""
    total = n_perms(ngroups)
    if ngroups + nuniv <= 1:
        return [None]
    if tier == "thorough" and ngroups <= 4:
        ks = list(range(total))
    else:
        ks = sorted(set(rng.randrange(total) for _ in range(2))) if total > 1 else [0]
    if nuniv > 1 and total == 1:
        ks = [0, 1]
    return [None] + ks


def seq_steps(rng, n_states, kind, k):
    """chain: every call gets the state the previous call returned; spread: fresh unrelated states in turn; mixed: both"""
    steps = []
    for i in range(k):
        if kind == "chain":
            src = None
        elif kind == "spread":
            src = rng.randrange(n_states)
        else:
            src = None if rng.random() < 0.6 else rng.randrange(n_states)
        steps.append({"src": src, "allow": rng.random() < 0.65})
    if kind == "chain" and rng.random() < 0.5:
        steps[0]["allow"] = steps[1]["allow"] = True        # at least two executed calls in a row
    return steps


def action_shape(a):
    nwhen, nuniv = count_groups(a)
    return {"nwhen": nwhen, "nuniv": nuniv,
            "numeric": sum(1 for x in flatten(a["eff"]) if x in ("assign", "increase", "decrease"))}


def build_seqs(rng, w, objs, n_states, tier, calls_per_action=2, only=None, calls_fn=None):
    """call sequences on ONE Operator object per (action, call)"""
    seqs = []
    for a in w.actions:
        if only is not None and a["name"] not in only:
            continue
        nwhen, nuniv = count_groups(a)
        for args in (calls_fn or G.calls_for)(rng, w, objs, a, limit=calls_per_action):
            for kind in ("chain", rng.choice(["spread", "mixed"])):
                ks = perm_choices(rng, 1 + nwhen, nuniv, "quick")
                # thorough: every sequence shape under the natural order AND under a forced permutation
                for k in ([rng.choice(ks)] if tier == "quick" or len(ks) == 1 else [None, rng.choice(ks[1:])]):
                    seqs.append({"action": a["name"], "args": args, "start": rng.randrange(n_states), "perm": k,
                                 "uperm": None if k is None else rng.randrange(max(1, n_perms(nuniv))),
                                 "inner_seed": 0 if k is None else rng.randint(1, 10 ** 6), "kind": kind,
                                 "steps": seq_steps(rng, n_states, kind, rng.choice([3, 4] if kind == "chain" else [3, 4, 5])),
                                 "d40_class": d40_class(a["eff"]), "qconst": ranges_over_constant(w, a),
                                 "shadow": shadows(a), "shape": action_shape(a)})
    return seqs


def guard_calls(rng, w, objs, a, limit):
    """calls for the guard-shape stream: half of them with the SAME object for the last two parameters (the ones the
    generated (in)equalities compare), half with different ones"""
    calls = G.calls_for(rng, w, objs, a, limit=400)
    same = [c for c in calls if len(c) >= 2 and c[-1] == c[-2]]
    diff = [c for c in calls if not (len(c) >= 2 and c[-1] == c[-2])]
    out = same[:(limit + 1) // 2] + diff[:limit // 2]
    return out or calls[:limit]


def build_world(rng, w, tier, n_states, calls_per_action, name="dom", noise=True, stream="random", seq_only=None,
                seq_calls=2, calls_fn=None, objs=None, noobjs=False, table=None):
    """objs: the problem's object table (default: 2-3 objects of random types; [] = a problem without objects);
    noobjs: every Operator is built with problem_objects=None; table: the name of the boundary class (evidence only)"""
    objs = G.gen_objects(rng, w) if objs is None else objs
    text = G.render(w.domain_tree(name), rng, noise)
    states, ptexts, probes = [], [], []
    for si in range(n_states):
        st = G.gen_state(rng, w, objs)
        states.append(st)
        ptexts.append(G.problem_text(w, objs, st, domain=name))
        for a in w.actions:
            nwhen, nuniv = count_groups(a)
            for args in (calls_fn or G.calls_for)(rng, w, objs, a, limit=calls_per_action):
                for k in perm_choices(rng, 1 + nwhen, nuniv, tier):
                    probes.append({"action": a["name"], "args": args, "state": si, "perm": k,
                                   "uperm": None if k is None else rng.randrange(max(1, n_perms(nuniv))),
                                   "inner_seed": 0 if k is None else rng.randint(1, 10 ** 6),
                                   "klass": None, "d40_class": d40_class(a["eff"]), "qconst": ranges_over_constant(w, a),
                                   "shadow": shadows(a), "shape": {"nwhen": nwhen, "nuniv": nuniv,
                                             "numeric": sum(1 for x in flatten(a["eff"]) if x in ("assign", "increase", "decrease"))}})
    return {"domain_text": text, "objects": objs, "states": states, "problem_texts": ptexts, "probes": probes,
            "seqs": build_seqs(rng, w, objs, n_states, tier, calls_per_action=seq_calls, only=seq_only, calls_fn=calls_fn),
            "stream": stream, "features": sorted(w.features), "witness_of": None, "compact": False, "noobjs": bool(noobjs),
            "table": table}


def flatten(t):
    if isinstance(t, str):
        yield t
    else:
        for x in t:
            yield from flatten(x)


def plant_when_forall(rng, w):
    """D40 class: put a quantified conjunct into the condition of some when / forall-when"""
    cands = []
    for a in w.actions:
        for item in a["eff"][1:]:
            if isinstance(item, list) and item and item[0] == "when":
                cands.append((a, item))
            elif isinstance(item, list) and item and item[0] == "forall" and item[2][0] == "when":
                cands.append((a, item[2]))
    unary = [(n, ps[0][1]) for n, ps in w.preds if len(ps) == 1]
    if not cands or not unary:
        return False
    a, when = rng.choice(cands)
    pn, pty = rng.choice(unary)
    body = [pn, "?w"] if rng.random() < 0.7 else ["not", [pn, "?w"]]
    q = ["forall", ["?w", "-", pty], [rng.choice(["and", "or"]), body]]
    cond = when[1]
    when[1] = (cond + [q]) if cond and cond[0] == "and" else ["and", cond, q]
    w.features.add("when-forall")
    return True


def quantified_types(t):
    """the types of all quantifiers in a tree (universal effects and 'forall' inside conditions)"""
    out = []
    if isinstance(t, list):
        if t and t[0] == "forall" and len(t) >= 3 and isinstance(t[1], list) and len(t[1]) == 3:
            out.append(t[1][2])
        for x in t:
            out += quantified_types(x)
    return out


def ranges_over_constant(w, a):
    """some quantifier of the action's effects ranges over a constant of the domain (the class of D30)"""
    return any(w.is_sub(ct, ty) for ty in quantified_types(a["eff"]) for _, ct in w.consts)


def plant_quantified_constant(rng, w):
    """D30 class: a constant whose type is (a subtype of) a type some universal effect / quantified 'when' condition ranges over"""
    tys = [ty for a in w.actions for ty in quantified_types(a["eff"])]
    if not tys:
        return False
    ty = rng.choice(tys)
    subs = [t for t in w.all_types() if w.is_sub(t, ty)]
    for _ in range(rng.choice([1, 1, 2])):
        w.consts.append(("k%d" % len(w.consts), rng.choice(subs)))
    w.features.add("const-of-quantified-type")
    return True


def plant_del_add(rng, w):
    """delete-then-add: one group both deletes and adds the same atom (consistent: the atom is there afterwards)"""
    groups = []
    for a in w.actions:
        groups.append((a, None))
        for item in a["eff"][1:]:
            if isinstance(item, list) and item and item[0] == "when":
                groups.append((a, item))
            elif isinstance(item, list) and item and item[0] == "forall" and item[2][0] == "when":
                groups.append((a, item[2]))
    rng.shuffle(groups)
    for a, when in groups:
        if when is None:
            prims = [x for x in a["eff"][1:] if isinstance(x, list) and x and x[0] not in ("when", "forall")]
        else:
            prims = when[2][1:] if when[2] and when[2][0] == "and" else [when[2]]
        lits = [x for x in prims if x and x[0] not in ("assign", "increase", "decrease")]
        if not lits:
            continue
        l = rng.choice(lits)
        opposite = copy_tree(l[1]) if l[0] == "not" else ["not", copy_tree(l)]
        if when is None:
            pos = rng.randint(1, len(a["eff"]))
            a["eff"] = a["eff"][:pos] + [opposite] + a["eff"][pos:]
        else:
            body = list(prims)
            body.insert(rng.randint(0, len(body)), opposite)
            when[2] = ["and"] + body
        w.features.add("del-add-same-atom")
        return True
    return False


def plant_inconsistent(rng, w):
    """make two effect groups clash: a literal added by one and deleted by another, or a fluent assigned twice"""
    a = rng.choice(w.actions)
    prims = [x for x in a["eff"][1:] if isinstance(x, list) and x and x[0] not in ("when", "forall")]
    if not prims:
        return False
    p = rng.choice(prims)
    if p[0] in ("assign", "increase", "decrease"):
        clash = [rng.choice(["assign", "increase"]), copy_tree(p[1]), rng.choice(["1", "2", "0.5"])]
    elif p[0] == "not":
        clash = copy_tree(p[1])
    else:
        clash = ["not", copy_tree(p)]
    scope = list(a["params"])
    cond = G.gen_form(rng, w, scope, 1, True, in_forall=True) if rng.random() < 0.5 else None
    if cond is None:
        # a condition that always holds and that every reader understands: (or L (not L))
        lit = G.gen_atom(rng, w, scope)
        if lit is None:
            return False
        cond = ["or", lit, ["not", copy_tree(lit)]]
    a["eff"] = a["eff"] + [["when", cond, clash]]
    w.features.add("inconsistent")
    return True


def plant_read_write(rng, w, guarded=None):
    """an action whose conditional / universal effects READ (in a condition or on a right-hand side) a fluent that the
    unconditional group of the same action WRITES, and the other way round; every group writes its own function, so the
    firing groups are consistent in every state.  With a constant of the quantified type in half of the cases (D30)."""
    ts = w.all_types()
    ty = rng.choice(ts)                                  # the type the universal effect ranges over
    px = rng.choice(ts)
    subs = [t for t in ts if w.is_sub(t, ty)]
    if rng.random() < 0.5:
        w.consts.append(("k%d" % len(w.consts), rng.choice(subs)))
        w.features.add("const-of-quantified-type")
    unary = rng.random() < 0.5
    w.funcs.append(("rf", [("?a0", px)] if unary else []))
    w.funcs.append(("rg", []))
    w.funcs.append(("rh", [("?a0", ty)]))
    params = [("?x0", px)] if unary or rng.random() < 0.4 else []
    if rng.random() < 0.3:
        params.append(("?x%d" % len(params), rng.choice(ts)))
    fterm = "?x0"
    if unary:
        cs = [c for c, t in w.consts if w.is_sub(t, px)]
        if cs and rng.random() < 0.25:
            fterm = rng.choice(cs)
    F = ["rf", fterm] if unary else ["rf"]
    Gf = ["rg"]
    H = ["rh", "?u"]

    def num():
        return rng.choice(["1", "2", "0.5", "3", "1.5"])

    def cmp_op():
        return rng.choice(["<", "<=", ">", ">="])

    def reads_f(others):
        r = rng.random()
        if r < 0.35:
            return copy_tree(F)
        if r < 0.6:
            return [rng.choice(["+", "-", "*"]), copy_tree(F), num()]
        if r < 0.8 and others:
            return [rng.choice(["+", "-"]), copy_tree(F), copy_tree(rng.choice(others))]
        return [rng.choice(["+", "-"]), num(), copy_tree(F)]
    items = []
    r = rng.random()
    rhs0 = num() if r < 0.4 else reads_f([Gf]) if r < 0.7 else copy_tree(Gf) if r < 0.85 else ["+", copy_tree(Gf), num()]
    items.append([rng.choice(["increase", "increase", "decrease", "assign"]), copy_tree(F), rhs0])
    lit = G.gen_atom(rng, w, list(params))
    if lit is not None and rng.random() < 0.4:
        items.append(lit if rng.random() < 0.5 else ["not", lit])
    shape = rng.choice(["when", "forall", "forall", "both", "both"])
    if shape in ("when", "both"):
        cond = [cmp_op(), copy_tree(F), num()] if rng.random() < 0.6 else [cmp_op(), copy_tree(F), copy_tree(Gf)]
        if rng.random() < 0.25:
            cond = ["forall", ["?w", "-", ty], ["and", [cmp_op(), ["rh", "?w"], copy_tree(F)]]]
            w.features.add("when-forall")
        if rng.random() < 0.3:
            cond = ["and", cond]
        res = [rng.choice(["assign", "increase", "decrease"]), copy_tree(Gf), reads_f([])]
        items.append(["when", cond, res if rng.random() < 0.6 else ["and", res]])
        w.features.add("when")
    if shape in ("forall", "both"):
        scope = list(params) + [("?u", ty)]
        r = rng.random()
        if r < 0.35:
            cond = [cmp_op(), copy_tree(F), copy_tree(H)]
        elif r < 0.6:
            cond = [cmp_op(), copy_tree(F), num()]
        else:
            cond = None
            for _ in range(6):
                a = G.gen_atom(rng, w, scope)
                if a is not None and "?u" in a:
                    cond = a if rng.random() < 0.7 else ["not", a]
                    break
            if cond is None:
                cond = [cmp_op(), copy_tree(H), num()]
        if rng.random() < 0.3:
            cond = ["and", cond]
        res = [rng.choice(["assign", "assign", "increase", "decrease"]), copy_tree(H), reads_f([H])]
        items.append(["forall", ["?u", "-", ty], ["when", cond, res if rng.random() < 0.6 else ["and", res]]])
        w.features.add("forall-when")
    rng.shuffle(items)
    r = rng.random() if guarded is None else (0.5 + rng.random() / 2 if guarded else 0.0)
    pre = ["and"] if r < 0.5 else ["and", [rng.choice(["<=", "<"]), copy_tree(F), rng.choice(["3", "4", "10"])]] if r < 0.8 \
        else ["and", [rng.choice([">=", ">"]), copy_tree(F), rng.choice(["1", "2"])]]
    name = "rw%d" % len(w.actions)
    w.actions.append({"name": name, "params": params, "group": False, "pre": pre, "eff": ["and"] + items})
    w.features.add("read-write")
    return {"name": name, "F": F, "params": params, "pre": pre}


def plant_inconsistent_univ(rng, w):
    """a clash between the INSTANCES of one universal effect (every instance sets the same fluent, to a value that depends on
    the instance), or between a universal effect and the unconditional group"""
    a = rng.choice(w.actions)
    ty = rng.choice(w.all_types())
    scope = list(a["params"]) + [("?u", ty)]
    prims = [x for x in a["eff"][1:] if isinstance(x, list) and x and x[0] not in ("when", "forall")]
    fl = G.gen_fluent(rng, w, list(a["params"]))
    if fl is not None and rng.random() < 0.6:
        rhs = G.gen_fluent(rng, w, scope, must_include="?u") or rng.choice(["1", "2", "0.5"])
        res = [rng.choice(["assign", "increase", "decrease"]), fl, rhs]
    elif prims:
        p = rng.choice(prims)
        if p[0] in ("assign", "increase", "decrease"):
            res = [rng.choice(["assign", "increase"]), copy_tree(p[1]), rng.choice(["1", "2", "0.5"])]
        elif p[0] == "not":
            res = copy_tree(p[1])
        else:
            res = ["not", copy_tree(p)]
    else:
        return False
    cond = G.gen_form(rng, w, scope, 1, True, in_forall=True) if rng.random() < 0.5 else None
    if cond is None:
        lit = G.gen_atom(rng, w, scope)
        if lit is None:
            return False
        cond = ["or", lit, ["not", copy_tree(lit)]]
    a["eff"] = a["eff"] + [["forall", ["?u", "-", ty], ["when", cond, res]]]
    w.features.add("inconsistent-universal")
    return True


# ----- SHADOWING: a quantified variable that has the name of an action parameter / of an enclosing quantified variable.
# Inside the quantifier the inner binding counts (the object being ranged over), outside of it the parameter keeps its meaning.
def quantifier_nodes(t, scope, out):
    """every ['forall', [v, '-', ty], body] node of a tree with the names bound around it: [(node, [(name, type)])]"""
    if isinstance(t, list):
        if t and t[0] == "forall" and len(t) >= 3 and isinstance(t[1], list) and len(t[1]) == 3:
            out.append((t, list(scope)))
            quantifier_nodes(t[2], scope + [(t[1][0], t[1][2])], out)
        else:
            for x in t:
                quantifier_nodes(x, scope, out)
    return out


def rename_bound(t, old, new):
    """rename the occurrences of old that the quantifier binds (an inner quantifier binding old again keeps its own)"""
    if isinstance(t, str):
        return new if t == old else t
    if t and t[0] == "forall" and len(t) >= 3 and isinstance(t[1], list) and t[1] and t[1][0] == old:
        return t
    return [rename_bound(x, old, new) for x in t]


def plant_shadow(rng, w, how_many=None, allow_new_param=True):
    """rename bound variables of the quantifiers in the actions' EFFECTS (universal effects, quantifiers inside 'when' /
    'forall-when' conditions) - and now and then of the precondition - to the name of an action parameter or of an enclosing
    quantified variable.  No capture: the chosen name does not occur in the quantifier's body, so the action means what it
    meant before the renaming.  When no parameter is free for it, a parameter is added to the action."""
    done = 0
    actions = list(w.actions)
    rng.shuffle(actions)
    for a in actions:
        nodes = quantifier_nodes(a["eff"], list(a["params"]), [])
        if rng.random() < 0.3:
            nodes += quantifier_nodes(a["pre"], list(a["params"]), [])
        rng.shuffle(nodes)
        for q, scope in nodes:
            if how_many is not None and done >= how_many:
                return done
            v, ty, body = q[1][0], q[1][2], q[2]
            if any(v == n for n, _ in scope):
                continue                                     # already shadows something
            used = set(flatten(body))
            free = [(n, t) for n, t in scope if n not in used]
            outer = [(n, t) for n, t in free if all(n != pn for pn, _ in a["params"])]
            inrange = [(n, t) for n, t in free if w.is_sub(t, ty)]        # the call argument is itself in the range
            if outer and rng.random() < 0.6:
                new, kind = rng.choice(outer)[0], "outer-variable"
            elif inrange and rng.random() < 0.8:
                new, kind = rng.choice(inrange)[0], "parameter"
            elif allow_new_param and (not free or rng.random() < 0.5):
                new = "?x%d" % len(a["params"])
                if any(new == n for n, _ in a["params"]) or new in used or new in set(flatten(a["eff"])) | set(flatten(a["pre"])):
                    continue
                subs = [t for t in w.all_types() if w.is_sub(t, ty)]
                a["params"] = list(a["params"]) + [(new, rng.choice([ty, ty, rng.choice(subs), rng.choice(w.all_types())]))]
                kind = "parameter"
            elif free:
                new = rng.choice(free)[0]
                kind = "parameter" if any(new == pn for pn, _ in a["params"]) else "outer-variable"
            else:
                continue
            q[2] = rename_bound(body, v, new)
            q[1][0] = new
            w.features.add("shadow:" + kind)
            done += 1
    return done


def shadows(a):
    """does some quantifier of the action's effects bind a name that is already bound around it"""
    return any(any(q[1][0] == n for n, _ in scope) for q, scope in quantifier_nodes(a["eff"], list(a["params"]), []))


# ----- BOUNDARY OBJECT TABLES: a problem without objects (quantifiers then range over the constants alone), a quantified type
# that nothing inhabits, an Operator built without any object table
TABLES = ["empty+constants", "empty-constants", "uninhabited", "no-table"]


def add_constant(w, ty):
    name = "k%d" % len(w.consts)
    while any(name == c for c, _ in w.consts):
        name += "x"
    w.consts.append((name, ty))
    return name


def boundary_table(rng, w, mode):
    """-> (objects, no-table flag) for the world, or None when the world cannot carry the class.  Constants are only ever ADDED
    (a constant may occur in the actions' bodies)."""
    qtys = [ty for a in w.actions for ty in quantified_types(a["eff"])]
    if not qtys:
        return None
    if mode == "no-table":
        return G.gen_objects(rng, w), True
    if mode == "empty+constants":
        ty = rng.choice(qtys)
        subs = [t for t in w.all_types() if w.is_sub(t, ty)]
        for _ in range(rng.choice([1, 2, 2])):
            add_constant(w, rng.choice(subs))
        for a in w.actions:
            for _, pt in a["params"]:
                if not any(w.is_sub(ct, pt) for _, ct in w.consts):
                    add_constant(w, pt)
        w.features.add("table:empty+constants")
        return [], False
    # a quantified type without any inhabitant
    free = [ty for ty in qtys if ty != "object" and not any(w.is_sub(ct, ty) for _, ct in w.consts)]
    if not free:
        return None
    ty = rng.choice(free)
    outside = [t for t in w.all_types() if not w.is_sub(t, ty)]
    if mode == "empty-constants":
        for a in w.actions:
            for _, pt in a["params"]:
                if not w.is_sub(pt, ty) and not any(w.is_sub(ct, pt) for _, ct in w.consts):
                    add_constant(w, pt)
        w.features.add("table:empty-constants")
        return [], False
    objs = [("o%d" % i, rng.choice(outside)) for i in range(rng.randint(1, 3))]
    w.features.add("table:uninhabited")
    return objs, False


# ----- the small scope: one action over {p/1, q/0, f/1, h/0}, types u < t, objects o0 - t, o1 - u
XS_PRIMS = [["p", "?x"], ["not", ["p", "?x"]], ["q"], ["not", ["q"]], ["increase", ["h"], "1"],
            ["assign", ["h"], ["f", "?x"]], ["decrease", ["f", "?x"], ["h"]]]
XS_CONDS = [["p", "?x"], ["not", ["q"]], [">", ["h"], "0"], ["or", ["q"], ["p", "?x"]],
            ["and", ["q"], ["<=", ["f", "?x"], "1"]]]
XS_WHEN_RES = [["q"], ["not", ["q"]], ["not", ["p", "?x"]], ["increase", ["h"], "2"],
               ["and", ["p", "?x"], ["assign", ["f", "?x"], "0"]]]
XS_ZCONDS = [["p", "?z"], ["not", ["=", "?z", "?x"]], ["and", ["p", "?z"], [">", ["f", "?z"], ["h"]]]]
XS_ZRES = [["not", ["p", "?z"]], ["p", "?z"], ["increase", ["f", "?z"], "1"], ["q"]]
# the bound variable has the NAME OF THE PARAMETER ?x: inside the quantifier ?x is the object ranged over, outside the argument
XS_SHADOW_CONDS = [["p", "?x"], ["and", ["p", "?x"], [">", ["f", "?x"], ["h"]]]]
XS_SHADOW_RES = [["not", ["p", "?x"]], ["increase", ["f", "?x"], "1"]]
XS_SHADOW_WHEN_RES = [["q"], ["not", ["p", "?x"]]]
XS_OBJS = [("o0", "t"), ("o1", "u")]
XS_ATOMS = [("p", ("o0",)), ("p", ("o1",)), ("q", ())]
XS_FKEYS = [("f", ("o0",)), ("f", ("o1",)), ("h", ())]
XS_VALUATIONS = [(1.0, 2.0, 0.0), (0.0, 1.0, 3.0)]


def xs_items():
    items = [("prim", p) for p in XS_PRIMS]
    items += [("when", ["when", c, r]) for c in XS_CONDS for r in XS_WHEN_RES]
    items += [("forall", ["forall", ["?z", "-", ty], ["when", c, r]]) for ty in ("t", "u") for c in XS_ZCONDS for r in XS_ZRES]
    return items


def xs_shadow_items():
    items = [("forall", ["forall", ["?x", "-", ty], ["when", c, r]]) for ty in ("t", "u") for c in XS_SHADOW_CONDS for r in XS_SHADOW_RES]
    items += [("when", ["when", ["forall", ["?x", "-", ty], ["and", ["p", "?x"]]], r]) for ty in ("t", "u") for r in XS_SHADOW_WHEN_RES]
    return items


def xs_bodies():
    items = xs_items()
    out = [[i] for i in items]
    out += [[a, b] for a, b in itertools.combinations(items, 2)]
    return out


def xs_shadow_bodies():
    """every shadowing item alone, with every other shadowing item, with every primitive effect and with every 4th 'when' /
    'forall-when' item of the small scope"""
    items, sh = xs_items(), xs_shadow_items()
    prims = [i for i in items if i[0] == "prim"]
    rest = [i for i in items if i[0] != "prim"]
    out = [[i] for i in sh]
    out += [[a, b] for a, b in itertools.combinations(sh, 2)]
    out += [[a, b] for a in sh for b in prims]
    out += [[a, b] for k, a in enumerate(sh) for j, b in enumerate(rest) if (j + k) % 4 == 0]
    return out


def xs_world(rng, body, tier):
    body = list(body)
    if rng.random() < 0.5:
        body.reverse()
    eff = ["and"] + [copy_tree(t) for _, t in body]
    tree = ["define", ["domain", "xs"], [":requirements", ":typing", ":fluents", ":conditional-effects"],
            [":types", "t", "-", "object", "u", "-", "t"],
            [":predicates", ["p", "?a", "-", "t"], ["q"]], [":functions", ["f", "?a", "-", "t"], ["h"]],
            [":action", "act", ":parameters", ["?x", "-", "t"], ":precondition", ["and"], ":effect", eff]]
    text = G.render(tree)
    states, ptexts = [], []
    for mask in range(8):
        for val in XS_VALUATIONS:
            st = {"facts": [[p, list(a)] for i, (p, a) in enumerate(XS_ATOMS) if mask >> i & 1],
                  "fluents": [[f, list(a), v] for (f, a), v in zip(XS_FKEYS, val)]}
            states.append(st)
            ptexts.append(xs_problem(st))
    nwhen = sum(1 for k, _ in body if k == "when")
    nuniv = sum(1 for k, _ in body if k == "forall")
    shadow = any(q[1][0] == "?x" for q, _ in quantifier_nodes(eff, [], []))
    calls = [("act", ["o0"]), ("act", ["o1"])]
    probes = []
    for si in range(len(states)):
        for ci, (an, args) in enumerate(calls):
            # the natural order for every probe; every other permutation on a rotating subset of the states
            ks = [None]
            total = n_perms(1 + nwhen)
            if total > 1 or nuniv > 1:
                ks.append((si + ci) % max(total, 2))
            for k in ks:
                probes.append({"action": an, "args": args, "state": si, "call": ci, "perm": k,
                               "uperm": None if k is None else (si // 2) % max(1, n_perms(nuniv)),
                               "inner_seed": 0 if k is None else 1 + si, "klass": None, "shadow": shadow,
                               "shape": {"nwhen": nwhen, "nuniv": nuniv,
                                         "numeric": sum(1 for x in flatten(eff) if x in ("assign", "increase", "decrease"))}})
    # call sequences on one Operator object: from every state a chain of three calls, and per call one Operator
    # applied to all 16 states in turn
    shape = {"nwhen": nwhen, "nuniv": nuniv,
             "numeric": sum(1 for x in flatten(eff) if x in ("assign", "increase", "decrease"))}
    total = n_perms(1 + nwhen)
    seqs = []
    for si in range(len(states)):
        ci = si % 2
        k = None if (si // 2) % 2 == 0 or (total == 1 and nuniv <= 1) else (si + ci) % max(total, 2)
        seqs.append({"action": calls[ci][0], "args": calls[ci][1], "call": ci, "start": si, "perm": k,
                     "uperm": None if k is None else (si // 2) % max(1, n_perms(nuniv)), "inner_seed": 0 if k is None else 1 + si,
                     "kind": "chain", "steps": [{"src": None, "allow": bool((si >> j) & 1)} for j in range(3)], "shape": shape,
                     "shadow": shadow})
    for ci, (an, cargs) in enumerate(calls):
        order = list(range(len(states)))
        rng.shuffle(order)
        seqs.append({"action": an, "args": cargs, "call": ci, "start": order[0], "perm": None, "uperm": None, "inner_seed": 0,
                     "kind": "spread", "steps": [{"src": j, "allow": bool(j & 1)} for j in order], "shape": shape, "shadow": shadow})
    return {"domain_text": text, "objects": XS_OBJS, "states": states, "problem_texts": ptexts, "probes": probes, "seqs": seqs,
            "stream": "small-scope", "features": ["xs"], "witness_of": None, "compact": True, "calls": calls,
            "atom_list": XS_ATOMS, "atom_index": {k: i for i, k in enumerate(XS_ATOMS)}, "fkey_list": XS_FKEYS}


def copy_tree(t):
    return t if isinstance(t, str) else [copy_tree(x) for x in t]


def xs_problem(st):
    init = [["=", [f] + a, repr(float(v))] for f, a, v in st["fluents"]] + [[p] + a for p, a in st["facts"]]
    tree = ["define", ["problem", "xp"], [":domain", "xs"], [":objects", "o0", "-", "t", "o1", "-", "u"],
            [":init"] + init, [":goal", ["and"]]]
    return G.render(tree)


def corpus_worlds():
    out = []
    for f in load_findings(PROP):
        w = f.get("witness")
        if not w or "domain_text" not in w:
            continue
        states, ptexts, probes = [], [], []
        for pr in w.get("probes", []):
            states.append(pr["state"])
            ptexts.append(pr["problem_text"])
            for k in (None, 0, 1):
                probes.append({"action": pr["action"], "args": pr["args"], "state": len(states) - 1, "perm": k, "uperm": k,
                               "inner_seed": 0, "klass": f["id"] if f.get("status") == "open" else None,
                               "shape": {"nwhen": pr.get("nwhen", 0), "nuniv": pr.get("nuniv", 0), "numeric": 0}})
        out.append({"domain_text": w["domain_text"], "objects": w.get("objects", []), "states": states,
                    "problem_texts": ptexts, "probes": probes, "stream": "corpus:" + f["id"], "features": ["corpus:" + f["id"]],
                    "witness_of": f["id"] if f.get("status") == "open" else None, "compact": False})
    return out


FIXTURES = [("models_tests/domain_miconic.pddl", "models_tests/miconic_pfile_1-0.pddl"),
            ("models_tests/miconic_learned_domain.pddl", "models_tests/miconic_pfile_1-0.pddl"),
            ("models_tests/nurikabe_domain.pddl", "models_tests/nurikabe_problem.pddl"),
            ("exporters_tests/domain_spider.pddl", "exporters_tests/pfile01_spider.pddl")]


def fixture_worlds(rng, tier):
    """the repository's own domains with conditional / universal effects: states along a guided random walk"""
    from ..common import REPO
    jobs = []
    for dom, prob in FIXTURES:
        d, p = REPO / "tests" / dom, REPO / "tests" / prob
        if d.exists() and p.exists():
            jobs.append({"op": "c03.fixture_walk", "domain": str(d), "problem": str(p), "seed": rng.randint(1, 10 ** 6),
                         "steps": (1 if d.stat().st_size > 2000 else 4) if tier == "quick" else (5 if d.stat().st_size > 2000 else 12),
                         "name": dom,
                         "big": d.stat().st_size > 2000})
    out = []
    for job, res in zip(jobs, run_impl(jobs, nproc=min(4, len(jobs))) if jobs else []):
        if "probes" not in res or not res["probes"]:
            out.append({"skipped": job["name"], "why": res.get("raised") or "no probes"})
            continue
        states, ptexts, probes, index = [], [], [], {}
        for pr in res["probes"]:
            key = json.dumps(pr["state"], sort_keys=True)
            if key not in index:
                index[key] = len(states)
                states.append(pr["state"])
                o = []
                for n, t in res["objects"]:
                    o += [n, "-", t]
                init = [["=", [f] + a, repr(float.fromhex(v))] for f, a, v in pr["state"]["fluents"]] + \
                       [[p] + a for p, a in pr["state"]["facts"]]
                ptexts.append(G.render(["define", ["problem", "fx"], [":domain", res.get("domain_name", "fx")], [":objects"] + o, [":init"] + init,
                                        [":goal", ["and"]]]))
            for k in ((1,) if (tier == "quick" and job["big"]) else (None, 1)):
                probes.append({"action": pr["action"], "args": pr["args"], "state": index[key], "perm": k, "uperm": k,
                               "inner_seed": 0 if k is None else 7, "klass": None, "shape": {}})
        # one world per state: the literals of these states are large, separate worlds land in separate (parallel) shards
        for si in range(len(states)):
            mine = [dict(p, state=0) for p in probes if p["state"] == si]
            # one Operator object applied twice in a row (forced), for the first call probed in this state (small domains
            # only: the states of the others have ~1000 facts)
            seqs = []
            # (the large domains - ~1000 facts per state, comparing two states inside Coq is quadratic - get such a chain in the
            # thorough tier only, from the first state of the walk)
            if mine and (not job["big"] or (tier == "thorough" and si == 0)):
                p0 = mine[0]
                seqs.append({"action": p0["action"], "args": p0["args"], "start": 0, "perm": None, "uperm": None, "inner_seed": 0,
                             "kind": "chain", "steps": [{"src": None, "allow": True}, {"src": None, "allow": True}], "shape": {}})
            out.append({"domain_text": res["domain_text"], "objects": [tuple(x) for x in res["objects"]], "states": [states[si]],
                        "problem_texts": [ptexts[si]], "probes": mine, "seqs": seqs,
                        "stream": "fixture:" + job["name"], "features": ["fixture"], "witness_of": None, "compact": False})
    return out


def generate(rng, tier):
    worlds = corpus_worlds()
    fx = fixture_worlds(rng, tier)
    worlds += [w for w in fx if "skipped" not in w]
    generate.skipped_fixtures = [w for w in fx if "skipped" in w]
    n = {"quick": 40, "thorough": 400}[tier]
    for _ in range(n):
        w = G.gen_world(rng, max_actions=2)
        worlds.append(build_world(rng, w, tier, n_states=2, calls_per_action=3))
    for _ in range(n // 2):
        w = G.gen_world(rng, max_actions=1)
        name = plant_read_write(rng, w)["name"]
        worlds.append(build_world(rng, w, tier, n_states=2, calls_per_action=2, stream="read-write", seq_only=[name], seq_calls=3))
    k = 0
    while k < n // 4:
        w = G.gen_world(rng, max_actions=2)
        if plant_when_forall(rng, w):
            worlds.append(build_world(rng, w, tier, n_states=2, calls_per_action=3, stream="when-forall"))
            k += 1
    # preconditions of ONE kind only (only (in)equalities, only a forall, only an 'or', only comparisons, empty): refusal
    # and the forced successor where the library keeps the precondition's parts in different places
    from ..guardgen import SHAPES, shape_preconditions
    for i in range(max(len(SHAPES), n // 4)):
        w = G.gen_world(rng, max_actions=1)
        shape_preconditions(rng, w, shapes=[SHAPES[i % len(SHAPES)]])
        worlds.append(build_world(rng, w, tier, n_states=2, calls_per_action=4, stream="guard-shape", calls_fn=guard_calls))
    k = 0
    while k < n // 4:
        w = G.gen_world(rng, max_actions=2)
        if rng.random() < 0.5:
            plant_when_forall(rng, w)
        if plant_quantified_constant(rng, w):
            worlds.append(build_world(rng, w, tier, n_states=2, calls_per_action=3, stream="quantified-constant"))
            k += 1
    k = 0
    while k < n // 4:
        w = G.gen_world(rng, max_actions=2)
        if plant_del_add(rng, w):
            worlds.append(build_world(rng, w, tier, n_states=2, calls_per_action=3, stream="del-add"))
            k += 1
    k, tries = 0, 0
    while k < n // 4 and tries < 20 * n:
        tries += 1
        w = G.gen_world(rng, max_actions=1)
        try:
            ok = plant_inconsistent(rng, w) if k % 2 == 0 else plant_inconsistent_univ(rng, w)
        except Exception:  # noqa
            ok = False
        if ok:
            worlds.append(build_world(rng, w, tier, n_states=2, calls_per_action=3, stream="inconsistent"))
            k += 1
    # SHADOWING: quantified variables of the effects named like an action parameter / like an enclosing quantified variable, on top
    # of every kind of world that has quantifiers in its effects; three objects and three states, so that objects other than the
    # call's argument satisfy (and fail) the quantified conditions
    k, tries = 0, 0
    while k < max(8, n // 5) and tries < 40 * n:
        tries += 1
        w = G.gen_world(rng, max_actions=2)
        base = k % 4
        seq_only = None
        if base == 1:
            seq_only = [plant_read_write(rng, w)["name"]]
        elif base == 2:
            if not plant_when_forall(rng, w):
                continue
        elif base == 3:
            if rng.random() < 0.5:
                plant_when_forall(rng, w)
            if not plant_quantified_constant(rng, w):
                continue
        if not plant_shadow(rng, w):
            continue
        if not any(shadows(a) for a in w.actions):
            continue
        worlds.append(build_world(rng, w, tier, n_states=2 if tier == "quick" else 3, calls_per_action=3, stream="shadow",
                                  seq_only=seq_only, objs=G.gen_objects(rng, w, n=rng.choice([3, 3, 4]))))
        k += 1
    # BOUNDARY OBJECT TABLES: a problem without objects, with and without constants of the quantified type; a quantified type that
    # nothing inhabits; an Operator built without an object table (problem_objects=None, as against the empty table)
    for mode in TABLES:
        k, tries = 0, 0
        while k < max(3, n // 12) and tries < 40 * n:
            tries += 1
            w = G.gen_world(rng, max_actions=2)
            seq_only = None
            if k % 3 == 1:
                seq_only = [plant_read_write(rng, w)["name"]]
            elif k % 3 == 2:
                plant_when_forall(rng, w)
            if rng.random() < 0.25:
                plant_shadow(rng, w, how_many=1)
            tab = boundary_table(rng, w, mode)
            if tab is None:
                continue
            objs, noobjs = tab
            wd = build_world(rng, w, tier, n_states=2, calls_per_action=3, stream="object-table", seq_only=seq_only, objs=objs,
                             noobjs=noobjs, table=mode)
            if not any(p.get("shape", {}).get("nuniv") or p.get("d40_class") for p in wd["probes"]):
                continue                                  # no call of an action with a quantifier in its effects
            worlds.append(wd)
            k += 1
    bodies = xs_bodies() + xs_shadow_bodies()
    if tier == "quick":
        # a fixed core (delete+add of one atom in one group, a 'when' against an unconditional effect, two foralls,
        # numeric read-after-write) plus a random sample
        items = dict((json.dumps(t), (k, t)) for k, t in xs_items())

        def it(t):
            return items[json.dumps(t)]
        core = [[it(["p", "?x"]), it(["not", ["p", "?x"]])], [it(["q"]), it(["not", ["q"]])],
                [it(["assign", ["h"], ["f", "?x"]]), it(["decrease", ["f", "?x"], ["h"]])],
                [it(["increase", ["h"], "1"]), it(["when", [">", ["h"], "0"], ["and", ["p", "?x"], ["assign", ["f", "?x"], "0"]]])],
                [it(["forall", ["?z", "-", "t"], ["when", ["p", "?z"], ["not", ["p", "?z"]]]]),
                 it(["forall", ["?z", "-", "u"], ["when", ["not", ["=", "?z", "?x"]], ["increase", ["f", "?z"], "1"]]])],
                [it(["when", ["p", "?x"], ["not", ["p", "?x"]]]), it(["when", ["not", ["q"]], ["q"]])]]
        sh = xs_shadow_items()
        core += [[sh[0], it(["q"])], [sh[5], it(["decrease", ["f", "?x"], ["h"]])], [sh[9]], [sh[2], sh[11]]]
        bodies = core + rng.sample(xs_bodies(), 12) + rng.sample(xs_shadow_bodies(), 2)
    for b in bodies:
        worlds.append(xs_world(rng, b, tier))
    return worlds, (tier == "thorough")


# ------------------------------------------------------------------------------------------------ the check
def run_worlds(worlds, hashseed):
    jobs = [{"op": "c03.world", "domain_text": wd["domain_text"], "states": wd["problem_texts"], "noobjs": bool(wd.get("noobjs")),
             "probes": [{k: p[k] for k in ("action", "args", "state", "perm", "uperm", "inner_seed")} for p in wd["probes"]],
             "seqs": [{k: q[k] for k in ("action", "args", "start", "perm", "uperm", "inner_seed", "steps")} for q in wd.get("seqs", [])]}
            for wd in worlds]
    return run_impl(jobs, hashseed=hashseed)


def _lap(label, t=[None]):
    """phase timing on stderr when VERIF_TIMING is set (diagnostics only)"""
    import os
    import sys
    import time
    if os.environ.get("VERIF_TIMING"):
        now = time.time()
        if t[0] is not None:
            sys.stderr.write("[C03 timing] %-28s %.1f s\n" % (label, now - t[0]))
        t[0] = now


def run(args):
    _lap("start")
    rep = Report(PROP, args.tier, args.seed)
    standard_proof_part(rep, PROP)
    _lap("proof part")
    rng = random.Random(args.seed * 104729 + 3)
    exhaustive = False
    if args.replay:
        data = json.load(open(args.replay))
        worlds = [data["input"]["world"]]
    else:
        worlds, exhaustive = generate(rng, args.tier)
    _lap("generate (+fixture walk)")
    cfg = run_impl([{"op": "c03.numeric_config"}], nproc=1)[0]
    hashseeds = [0] if args.tier == "quick" else [0, 1, 2, 3]
    all_cases, verdict_list, skipped_ok = [], [], 0
    info_total = {"shards": 0, "shard_errors": [], "cmd": ""}
    stats = {"worlds": 0, "worlds_by_stream": {}, "parse_raised": 0, "probes": 0, "app_true": 0, "app_false": 0, "app_raised": 0,
             "succ_returned": 0, "refused_valueerror": 0, "succ_raised_other": 0, "forced_returned": 0,
             "forced_returned_on_inapplicable": 0, "order_observed": 0,
             "order_natural": 0, "order_forced": 0, "distinct_forced_orders": 0, "inner_sets_shuffled": 0,
             "probes_with_when_fired": 0, "probes_with_when_not_fired": 0, "probes_with_both": 0,
             "when_groups_fired": 0, "when_groups_not_fired": 0,
             "probes_with_forall_when_fired": 0, "probes_with_forall_when_not_fired": 0,
             "forall_when_instances_fired": 0, "forall_when_instances_not_fired": 0,
             "probes_with_numeric_applied": 0, "numeric_effects_applied": 0, "discrete_effects_applied": 0,
             "d40_class_probes": 0, "void_probes_problem_not_read": 0, "features": {}, "compact_worlds": 0, "compact_fallback_full": 0,
             "void_seqs_problem_not_read": 0, "judged_how": {},
             "sequences": {"total": 0, "by_kind": {}, "by_stream": {}, "calls": 0, "calls_returned": 0, "calls_refused_valueerror": 0,
                           "calls_raised_other": 0, "calls_on_previous_result": 0, "calls_on_fresh_state": 0,
                           "executed_after_an_executed_call_of_the_same_operator": 0, "refused_then_allowed": 0,
                           "calls_with_numeric_applied": 0, "calls_with_conditional_or_universal_evaluated": 0,
                           "sequences_with_2+_executed_numeric_calls": 0, "sequences_forced_order": 0,
                           "returned_state_changed_afterwards": 0, "length": {}}}
    orders_seen = set()
    base_worlds = worlds
    for hs in hashseeds:
        # further hash seeds only change the NATURAL iteration order of the hash sets (forced permutations are already
        # exhaustive): they re-run every stream, but only every 4th body of the small scope
        # ... and there only the probes / sequences that run in the natural order
        # ... and every generated world under TWO of the three further hash seeds
        all_worlds = base_worlds if hs == hashseeds[0] else \
            [dict(w, probes=[p for p in w["probes"] if p.get("perm") is None],
                  seqs=[q for q in w.get("seqs", []) if q.get("perm") is None], _light=None)
             for i, w in enumerate(base_worlds) if (i % 3 != hs % 3 if w["stream"] != "small-scope" else i % 6 == hs % 6)]
        # in batches: results of a batch are released before the next one (the thorough tier has ~10^5 probes)
        for b0 in range(0, len(all_worlds), BATCH):
            worlds = all_worlds[b0:b0 + BATCH]
            results = run_worlds(worlds, hs)
            _lap("implementation batch")
            # a probe whose (re-rendered) problem text the library refuses to read is void: it says nothing about apply
            for wd, res in zip(worlds, results):
                if "probes" in res and any("problem_raised" in r for r in res["probes"]):
                    ok = [i for i, r in enumerate(res["probes"]) if "problem_raised" not in r]
                    stats["void_probes_problem_not_read"] += len(res["probes"]) - len(ok)
                    wd["probes"] = [wd["probes"][i] for i in ok]
                    res["probes"] = [res["probes"][i] for i in ok]
                if "seqs" in res and any("problem_raised" in r for r in res["seqs"]):
                    ok = [i for i, r in enumerate(res["seqs"]) if "problem_raised" not in r]
                    stats["void_seqs_problem_not_read"] += len(res["seqs"]) - len(ok)
                    wd["seqs"] = [wd["seqs"][i] for i in ok]
                    res["seqs"] = [res["seqs"][i] for i in ok]
            lits, units, keep = [], [], []
            for wi, (wd, res) in enumerate(zip(worlds, results)):
                if "probes" not in res:
                    if hs == hashseeds[0]:
                        stats["parse_raised"] += 1
                    continue
                lit = None
                if wd.get("compact"):
                    lit = compact_literal(wd, res, cfg["epsilon"])
                    if hs == hashseeds[0]:
                        stats["compact_worlds" if lit else "compact_fallback_full"] += 1
                if lit is None:
                    lit = full_literal(wd, res, cfg["epsilon"])
                lits.append(lit)
                units.append(2 * len(wd["probes"]) + 2 * len(res.get("seqs", [])))
                keep.append(wi)
            both, info = run_case_shards(PROP, "Corr.C03", lits, shard_size=SHARD_WORLDS, units=[2 * u for u in units],
                                         header_extra=HEADER, max_bytes=SHARD_BYTES, run_fn="Corr.C03.run2")
            verdicts, tags = both[0::2], both[1::2]
            _lap("coq shards (%d)" % info["shards"])
            if hs == hashseeds[0]:
                for t in tags:
                    stats["judged_how"][TAGS.get(t, t)] = stats["judged_how"].get(TAGS.get(t, t), 0) + 1
            info_total["shards"] += info["shards"]
            info_total["shard_errors"] += info["shard_errors"]
            info_total["cmd"] = info["cmd"]
            pos = 0
            for wi, lit in zip(keep, lits):
                wd, res = worlds[wi], results[wi]
                light = wd.get("_light")
                if light is None:
                    light = wd["_light"] = {"domain_text": wd["domain_text"], "objects": wd["objects"], "stream": wd["stream"],
                                            "noobjs": bool(wd.get("noobjs"))}
                for pi, (pr, r) in enumerate(zip(wd["probes"], res["probes"])):
                    for kind in ("succ", "forced"):
                        ch = verdicts[pos]
                        pos += 1
                        if ch == "." and hs != hashseeds[0]:
                            skipped_ok += 1          # agreeing cases of the further hash seeds are only counted
                            continue
                        if ch == ".":
                            # agreeing case: a light description (shared references), enough for the distinctness hash
                            inp = {"world": light, "probe": pr, "unit": kind}
                        else:
                            one = {"domain_text": wd["domain_text"], "objects": wd["objects"], "states": [wd["states"][pr["state"]]],
                                   "problem_texts": [wd["problem_texts"][pr["state"]]],
                                   "probes": [dict(pr, state=0, call=0)], "stream": wd["stream"], "features": wd["features"],
                                   "witness_of": wd.get("witness_of"), "compact": False, "noobjs": bool(wd.get("noobjs")),
                                   "table": wd.get("table")}
                            inp = {"world": one, "unit": kind, "hashseed": hs, "implementation": r}
                        # a failing probe is explained (coq_explain of its replay file) on a world that holds this probe alone
                        lit_case = lit if ch == "." else full_literal(one, {"nums": res["nums"], "probes": [r], "seqs": []}, cfg["epsilon"])
                        tr = r.get("trace", {})
                        nontrivial = hs == hashseeds[0] and ("value" in r.get("succ", {})) and (
                            tr.get("when_fired", 0) + tr.get("when_not", 0) + tr.get("univ_fired", 0) + tr.get("univ_not", 0) > 0
                            or tr.get("numeric_applied", 0) > 0 or tr.get("discrete_applied", 0) > 1)
                        all_cases.append({"lit": lit_case, "input": inp, "nontrivial": nontrivial,
                                          "witness_of": wd.get("witness_of"), "klass": pr.get("klass")})
                        verdict_list.append(ch)
                for sq, r in zip(wd.get("seqs", []), res.get("seqs", [])):
                    returned = sum(1 for o in r["steps"] if "value" in o.get("succ", {}))
                    nontrivial = hs == hashseeds[0] and returned >= 2 and any(
                        o.get("trace", {}).get(k, 0) > 0 for o in r["steps"]
                        for k in ("when_fired", "when_not", "univ_fired", "univ_not", "numeric_applied"))
                    for kind in ("seq", "seq-late"):
                        ch = verdicts[pos]
                        pos += 1
                        if ch == "." and hs != hashseeds[0]:
                            skipped_ok += 1
                            continue
                        if ch == ".":
                            inp, lit1 = {"world": light, "seq": sq, "unit": kind}, lit
                        else:
                            # the states the sequence uses, renumbered; a replay runs exactly this sequence
                            used = sorted({sq["start"]} | {st["src"] for st in sq["steps"] if st["src"] is not None})
                            ren = {j: i for i, j in enumerate(used)}
                            sq1 = dict(sq, start=ren[sq["start"]], call=0,
                                       steps=[dict(st, src=None if st["src"] is None else ren[st["src"]]) for st in sq["steps"]])
                            one = {"domain_text": wd["domain_text"], "objects": wd["objects"], "states": [wd["states"][j] for j in used],
                                   "problem_texts": [wd["problem_texts"][j] for j in used], "probes": [], "seqs": [sq1],
                                   "stream": wd["stream"], "features": wd["features"], "witness_of": wd.get("witness_of"), "compact": False,
                                   "noobjs": bool(wd.get("noobjs")), "table": wd.get("table")}
                            inp = {"world": one, "unit": kind, "hashseed": hs, "implementation": r,
                                   "what": "one Operator object, the calls of 'steps' in turn (src null = applied to the state the previous "
                                           "call returned, src j = to a fresh copy of state j); unit seq = the states read back at once, "
                                           "seq-late = the same State objects read back after the last call"}
                            lit1 = full_literal(one, {"nums": res["nums"], "probes": [], "seqs": [r]}, cfg["epsilon"])
                        all_cases.append({"lit": lit1, "input": inp, "nontrivial": nontrivial and kind == "seq",
                                          "witness_of": wd.get("witness_of"), "klass": None})
                        verdict_list.append(ch)
            if hs == hashseeds[0]:
                for wd, res in zip(worlds, results):
                    stats["worlds"] += 1
                    stats["worlds_by_stream"][wd["stream"].split(":")[0]] = stats["worlds_by_stream"].get(wd["stream"].split(":")[0], 0) + 1
                    for f in wd["features"]:
                        stats["features"][f] = stats["features"].get(f, 0) + 1
                    for pr, r in zip(wd["probes"], res.get("probes", [])):
                        stats["probes"] += 1
                        a = r.get("app", {})
                        stats["app_true" if a.get("value") is True else "app_false" if a.get("value") is False else "app_raised"] += 1
                        if "value" in r.get("succ", {}):
                            stats["succ_returned"] += 1
                        elif r.get("valerr"):
                            stats["refused_valueerror"] += 1
                        else:
                            stats["succ_raised_other"] += 1
                        if "value" in r.get("forced", {}):
                            stats["forced_returned"] += 1
                            if a.get("value") is False:
                                stats["forced_returned_on_inapplicable"] += 1
                        stats["order_observed"] += 1 if r.get("obs_order") else 0
                        stats["order_natural" if pr.get("perm") is None else "order_forced"] += 1
                        stats["inner_sets_shuffled"] += 1 if pr.get("inner_seed") else 0
                        if pr.get("perm") is not None:
                            orders_seen.add((len(r.get("order", [])), tuple(r.get("order", [])), tuple(r.get("uorder", []))))
                        stats["d40_class_probes"] += 1 if pr.get("d40_class") else 0
                        tr0 = r.get("trace") or {}
                        if pr.get("shadow"):
                            sh = stats.setdefault("shadowing", {"probes_of_an_action_with_a_shadowing_quantifier": 0,
                                                                "...with_a_forall_when_instance_fired": 0,
                                                                "...with_instances_fired_and_not_fired": 0,
                                                                "...with_a_when_evaluated": 0})
                            sh["probes_of_an_action_with_a_shadowing_quantifier"] += 1
                            sh["...with_a_forall_when_instance_fired"] += 1 if tr0.get("univ_fired") else 0
                            sh["...with_instances_fired_and_not_fired"] += 1 if tr0.get("univ_fired") and tr0.get("univ_not") else 0
                            sh["...with_a_when_evaluated"] += 1 if tr0.get("when_fired") or tr0.get("when_not") else 0
                        if wd.get("table"):
                            tb = stats.setdefault("object_tables", {}).setdefault(wd["table"], {
                                "probes": 0, "returned": 0, "forall_when_instances_fired": 0, "forall_when_instances_not_fired": 0,
                                "when_fired": 0, "when_not_fired": 0, "refused": 0})
                            tb["probes"] += 1
                            tb["returned"] += 1 if "value" in r.get("succ", {}) else 0
                            tb["refused"] += 1 if r.get("valerr") else 0
                            tb["forall_when_instances_fired"] += tr0.get("univ_fired", 0)
                            tb["forall_when_instances_not_fired"] += tr0.get("univ_not", 0)
                            tb["when_fired"] += tr0.get("when_fired", 0)
                            tb["when_not_fired"] += tr0.get("when_not", 0)
                        stats["probes_quantifier_over_constant"] = stats.get("probes_quantifier_over_constant", 0) + \
                            (1 if pr.get("qconst") else 0)
                        tr = r.get("trace")
                        if tr:
                            stats["when_groups_fired"] += tr["when_fired"]
                            stats["when_groups_not_fired"] += tr["when_not"]
                            stats["probes_with_when_fired"] += 1 if tr["when_fired"] else 0
                            stats["probes_with_when_not_fired"] += 1 if tr["when_not"] else 0
                            stats["probes_with_both"] += 1 if tr["when_fired"] and tr["when_not"] else 0
                            stats["forall_when_instances_fired"] += tr["univ_fired"]
                            stats["forall_when_instances_not_fired"] += tr["univ_not"]
                            stats["probes_with_forall_when_fired"] += 1 if tr["univ_fired"] else 0
                            stats["probes_with_forall_when_not_fired"] += 1 if tr["univ_not"] else 0
                            stats["probes_with_numeric_applied"] += 1 if tr["numeric_applied"] else 0
                            stats["numeric_effects_applied"] += tr["numeric_applied"]
                            stats["discrete_effects_applied"] += tr["discrete_applied"]
                    sqs = stats["sequences"]
                    for sq, r in zip(wd.get("seqs", []), res.get("seqs", [])):
                        sqs["total"] += 1
                        sqs["by_kind"][sq["kind"]] = sqs["by_kind"].get(sq["kind"], 0) + 1
                        st0 = wd["stream"].split(":")[0]
                        sqs["by_stream"][st0] = sqs["by_stream"].get(st0, 0) + 1
                        sqs["length"][str(len(sq["steps"]))] = sqs["length"].get(str(len(sq["steps"])), 0) + 1
                        sqs["sequences_forced_order"] += 1 if sq.get("perm") is not None else 0
                        sqs["sequences_quantifier_over_constant"] = sqs.get("sequences_quantifier_over_constant", 0) + \
                            (1 if sq.get("qconst") else 0)
                        sqs["sequences_shadowing_quantifier"] = sqs.get("sequences_shadowing_quantifier", 0) + (1 if sq.get("shadow") else 0)
                        sqs["sequences_boundary_object_table"] = sqs.get("sequences_boundary_object_table", 0) + (1 if wd.get("table") else 0)
                        executed, numeric_exec, prev_refused = 0, 0, False
                        for st, o in zip(sq["steps"], r["steps"]):
                            sqs["calls"] += 1
                            ret = "value" in o.get("succ", {})
                            sqs["calls_returned" if ret else "calls_refused_valueerror" if o.get("valerr") else "calls_raised_other"] += 1
                            sqs["calls_on_previous_result" if st["src"] is None else "calls_on_fresh_state"] += 1
                            tr = o.get("trace", {})
                            if ret:
                                sqs["executed_after_an_executed_call_of_the_same_operator"] += 1 if executed else 0
                                sqs["refused_then_allowed"] += 1 if prev_refused else 0
                                executed += 1
                                numeric_exec += 1 if tr.get("numeric_applied") else 0
                                sqs["calls_with_numeric_applied"] += 1 if tr.get("numeric_applied") else 0
                                sqs["calls_with_conditional_or_universal_evaluated"] += 1 if any(
                                    tr.get(k) for k in ("when_fired", "when_not", "univ_fired", "univ_not")) else 0
                            prev_refused = bool(o.get("valerr"))
                            sqs["returned_state_changed_afterwards"] += 1 if "late" in o else 0
                        sqs["sequences_with_2+_executed_numeric_calls"] += 1 if numeric_exec >= 2 else 0
    stats["distinct_forced_orders"] = len(orders_seen)
    # reports: a wrong state returned at once before a state that changed afterwards (the order of the cases is immaterial)
    ranked = sorted(range(len(all_cases)), key=lambda i: 1 if all_cases[i]["input"].get("unit") == "seq-late" else 0)
    all_cases = [all_cases[i] for i in ranked]
    verdict_list = [verdict_list[i] for i in ranked]
    all_verdicts = "".join(verdict_list)
    _lap("bookkeeping")
    decide(rep, PROP, "Corr.C03", all_cases, all_verdicts, info_total, explain_expr="explain_all (%s)", header_extra=HEADER,
           max_replays=5)
    cov = rep.coverage
    cov["evaluations"] = cov.get("evaluations", 0) + skipped_ok
    cov["traces_validated_against_impl"] = cov.get("traces_validated_against_impl", 0) + skipped_ok
    if skipped_ok:
        cov["verdict_counts"]["."] = cov["verdict_counts"].get(".", 0) + skipped_ok
    stats["fixtures_skipped"] = getattr(generate, "skipped_fixtures", [])
    cov["input_distribution"] = stats
    cov["hash_seeds"] = hashseeds
    cov["numeric_config"] = cfg
    cov["exhaustive"] = bool(exhaustive)
    cov["exhaustive_scope"] = ("one action act(?x - t), types u < t, objects o0 - t, o1 - u; all effect bodies of 1 or 2 items out of %d (7 primitive effects, 25 'when', "
                               "24 'forall-when' over types t and its subtype u): %d bodies; plus %d SHADOWING bodies out of %d items whose quantifier binds the parameter's "
                               "name ?x (8 'forall-when', 4 'when' with a quantified condition): each alone, every pair, each with every primitive effect and with every 4th "
                               "'when' / 'forall-when' item; x all 8 fact sets over {p o0, p o1, q} x 2 fluent valuations x 2 calls, natural order and one rotating permutation%s"
                               % (len(xs_items()), len(xs_bodies()), len(xs_shadow_bodies()), len(xs_shadow_items()),
                                  "; all of it under the first hash seed, every 6th body under each of the three further hash seeds; per body also 16 chains of 3 calls "
                                  "(one from every state, all allow-flag patterns) and 2 spreads over all 16 states on one Operator object" if exhaustive
                                  else " (quick tier: a fixed core of 10 bodies, 4 of them shadowing, + a sample of 14)"))
    cov["rule"] = ("streams: corpus witnesses; the repository's own domains with conditional/universal effects (miconic, learned miconic, nurikabe, spider) with "
                   "their shipped problems, states taken along a guided random walk; random typed domains (pddlgen: <=4 types, constants, 2-4 predicates, <=3 functions, actions with "
                   "add/del/assign/increase/decrease/when/forall-when kept consistent, layout/case/comment noise), 2-3 objects, random states, "
                   "type-correct calls incl. repeated objects and constants; read-write: an action whose 'when' / 'forall-when' conditions and right-hand sides READ the fluent its "
                   "unconditional group WRITES (and the other way round), half of them with a constant of the quantified type; guard-shape: preconditions of one kind only (only "
                   "(in)equalities, only a forall, only an 'or', only comparisons, empty), called with equal and with different objects; quantified-constant: a constant of a type "
                   "that a forall-when / a quantified 'when' condition ranges over (D30 class); a quantified conjunct planted in a 'when' condition (D40 class); delete+add of one atom "
                   "in one group; shadow: quantified variables of the effects (universal effects, quantifiers inside 'when' / 'forall-when' conditions, now and then the precondition) "
                   "renamed - without capture - to an action parameter or to an enclosing quantified variable, 3-4 objects (table shadowing); object-table: a problem WITHOUT objects "
                   "(the Operator gets an empty dict) with / without constants of the quantified type, a quantified type nothing inhabits, and Operators built with "
                   "problem_objects=None (judged against the action without its quantified parts) (table object_tables); clashing groups planted (a 'when' or the instances of a 'forall-when' against the unconditional group / each other): there the spec successor is "
                   "undefined and the returned state is judged by the frame/membership oracle (Corr/C03.v weak_succ_ok) and compared EXACTLY with the model run in the observed "
                   "visiting order; the small scope. Every (state, call) is applied in the natural hash order and in forced permutations of "
                   "the parse order (all permutations in thorough when <=4 groups), sets inside a group shuffled too; two units per probe: successor with "
                   "default flags (incl. ValueError on refusal) and forced successor (allow_inapplicable_actions). CALL SEQUENCES on ONE Operator object (two units each: states read "
                   "back at once / the same State objects read back after the last call): chains (every call gets the state the previous call returned, mixed allow flags: "
                   "executed-after-executed, refused-then-allowed), spreads (fresh unrelated states in turn) and mixtures, in every generated stream and from every state of the small "
                   "scope; model and spec run their own chains. Non-trivial: the call returned a successor and evaluated at least one conditional/universal group, or applied a "
                   "numeric effect, or >=2 literals (a sequence: >=2 executed calls with such an effect); distinct by input hash.")
    def sample_of(c):
        w = c["input"]["world"]
        pr = c["input"].get("probe") or (w.get("probes") or [{}])[0]
        return {"stream": w.get("stream"), "action": pr.get("action"), "args": pr.get("args"), "perm": pr.get("perm"),
                "unit": c["input"].get("unit")}
    cov["samples"] = [all_cases[0]["input"]["world"]["domain_text"][:500]] if all_cases else []
    cov["samples"] += [sample_of(c) for c in all_cases[-3:]]
    rep.assumptions = ["fluent magnitudes below 1e4 and no division by a fluent (C12 covers the arithmetic kernel)", "ASCII text",
                       "states define every fluent",
                       "effects consistent for the successor oracle (inconsistent probes: frame/membership oracle + exact agreement with the model in the observed visiting order)",
                       "a sequence re-uses ONE Operator object; states handed to it are the objects it returned or fresh copies",
                       "further hash seeds (thorough): natural-order probes / sequences only, every generated world under two of the three, every 6th small-scope body"]
    _lap("decide + evidence")
    return rep.finish()
