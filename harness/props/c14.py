"""C14 — states behave as values: equality, copy and serialization agree."""
import itertools
import json
import math
import random
import time

from ..common import (Report, cbool, chex, clist, cobs, cstr, decide, load_findings, run_case_shards, run_impl,
                      standard_proof_part, write_replay)
from ..core_common import cstate

PROP = "C14"
HEADER = "From Coq Require Import PrimFloat.\nFrom Verif Require Import Model.State Spec.Pddl Corr.C14.\n"

VALUE_POOL = [0.0, 1.0, -1.0, 2.5, -2.5, 0.5, 3.0, 0.1, 1e-05, 1e16, 1e22, 123456.789, -0.0, 5e-324,
              1.7976931348623157e308, float("inf"), float("-inf"), float("nan"), 1 / 3, 100.0, 1e-4, 9999999999999998.0]

# values of the parser / successor routes: every class of repr text (plain, exponent form with either sign, signed
# zeros, inf, nan, integers beyond 2**53, subnormal, largest finite)
ROUTE_VALUES = VALUE_POOL[:14] + [float("inf"), float("-inf"), float("nan"), 5e-05, 1e16, -1e16, 1.5e-07, 2.5e+20, 1e+16 + 2,
                                  1.7976931348623157e308, -5e-324, 0.30000000000000004]

# ---------------------------------------------------------------- fixed domain used by the parser / successor routes
DOMAIN = """(define (domain dom14) (:requirements :typing :fluents :negative-preconditions)
(:types a c - object b - a)
(:predicates (p ?x - a) (q ?x - a ?y - a) (z) (k ?u - c))
(:functions (f ?x - a) (g ?x - a ?y - a) (h))
(:action mv :parameters (?x - a ?y - a) :precondition (and (p ?x))
  :effect (and (not (p ?x)) (p ?y) (q ?x ?y) (increase (g ?x ?y) 1) (decrease (h) 0.5)))
(:action setf :parameters (?x - a) :precondition (and )
  :effect (and (assign (f ?x) (+ (f ?x) 2.5)) (not (z))))
(:action tog :parameters () :precondition (and ) :effect (and (z) (assign (h) 3)))
)"""
PRED_SIGS = {"p": [("?x", "a")], "q": [("?x", "a"), ("?y", "a")], "z": [], "k": [("?u", "c")]}
FUNC_SIGS = {"f": [("?x", "a")], "g": [("?x", "a"), ("?y", "a")], "h": []}
ACTIONS = {"mv": 2, "setf": 1, "tog": 0}
# a second domain for the process-level sequences: every name of the first, other arities, another type tree
DOMAIN_B = """(define (domain dom14b) (:requirements :typing :fluents :negative-preconditions)
(:types b c - object a - b)
(:predicates (p ?x - a ?y - a) (q ?x - a) (z) (k ?u - c))
(:functions (f ?x - a ?y - a) (g ?x - a) (h))
(:action mv :parameters (?x - a ?y - a) :precondition (and (q ?x))
  :effect (and (not (q ?x)) (q ?y) (p ?x ?y) (increase (f ?x ?y) 1) (decrease (h) 0.5)))
(:action setf :parameters (?x - a) :precondition (and )
  :effect (and (assign (g ?x) (+ (g ?x) 2.5)) (not (z))))
(:action tog :parameters () :precondition (and ) :effect (and (z) (assign (h) 3)))
)"""
PRED_SIGS_B = {"p": [("?x", "a"), ("?y", "a")], "q": [("?x", "a")], "z": [], "k": [("?u", "c")]}
FUNC_SIGS_B = {"f": [("?x", "a"), ("?y", "a")], "g": [("?x", "a")], "h": []}


def fhex(v):
    return "nan" if math.isnan(v) else float(v).hex()


def unhex(h):
    return float("nan") if h == "nan" else float.fromhex(h)


def hexlit(h):
    return chex(unhex(h))


# ---------------------------------------------------------------- abstract states -> descriptions
def vars_of(sig, rep):
    """the argument list a PDDLFunction with these fields denotes (what state_representation prints)"""
    out = []
    for n, k in rep:
        out += [n] * k
    repn = [n for n, _ in rep]
    out += [p for p, _ in sig if p not in repn]
    return out


def want_of_descr(d):
    facts, fluents = [], []
    for _, grp in d["preds"]:
        for g in grp:
            facts.append([g["name"], [o for _, o in g["map"]]])
    for _, f in d["fluents"]:
        fluents.append([f["name"], vars_of(f["sig"], f.get("rep", [])), f["val"]])
    return {"facts": facts, "fluents": fluents}


def ctor_from_abstract(st, rng=None, style="problem", init=False, types=None, keys="lifted"):
    """st: {'facts': [[p, args]], 'fluents': [[f, args, hexval]]} with NO interleaved repeats in fluent arguments.
    Insertion order = order of the lists (shuffled by the caller)."""
    preds = {}
    order = []
    for p, args in st["facts"]:
        sig = [("?a%d" % i, (types or {}).get(o, "a")) for i, o in enumerate(args)]
        key = "(%s %s)" % (p, " ".join(n for n, _ in sig)) if keys == "lifted" else "k_" + p
        if key not in preds:
            preds[key] = []
            order.append(key)
        preds[key].append({"name": p, "sig": [list(x) for x in sig], "map": [[n, o] for (n, _), o in zip(sig, args)],
                           "pos": True})
    fluents = []
    for f, args, val in st["fluents"]:
        seen, sig, rep = [], [], []
        for o in args:
            if o not in seen:
                seen.append(o)
                sig.append([o, (types or {}).get(o, "a")])
        if style == "problem":
            rep = [[o, args.count(o)] for o in seen if args.count(o) > 1]
        key = "(%s %s)" % (f, " ".join(seen)) if keys == "lifted" else "k_%s_%s" % (f, "_".join(args))
        fluents.append([key, {"name": f, "sig": sig, "val": val, "rep": rep}])
    return {"route": "ctor", "init": init, "preds": [[k, preds[k]] for k in order], "fluents": fluents}


def abstract_key(st):
    return json.dumps([sorted(map(json.dumps, st["facts"])), sorted(map(json.dumps, st["fluents"]))])


def same_abstract(a, b):
    """the spec in Python (used only for the distribution table; the verdict is Coq's)"""
    fa = set(json.dumps(x) for x in a["facts"])
    fb = set(json.dumps(x) for x in b["facts"])
    va = set(json.dumps(x) for x in a["fluents"])
    vb = set(json.dumps(x) for x in b["fluents"])
    return fa == fb and va == vb


# ---------------------------------------------------------------- groups
def exhaustive_group(tier):
    if tier == "quick":
        fact_u = [["p", ["a"]], ["p", ["b"]], ["z", []]]
        fl_u = [("f", ["a"], [None, 0.0, 1.0]), ("h", [], [None, -2.5])]
    else:
        fact_u = [["p", ["a"]], ["p", ["b"]], ["z", []], ["q", ["a", "b"]]]
        fl_u = [("f", ["a"], [None, 0.0, -0.0, 1.0]), ("h", [], [None, float("nan"), 1.0])]
    states = []
    for mask in range(2 ** len(fact_u)):
        facts = [fact_u[i] for i in range(len(fact_u)) if mask >> i & 1]
        for combo in itertools.product(*[vals for _, _, vals in fl_u]):
            fluents = [[f, args, fhex(v)] for (f, args, _), v in zip(fl_u, combo) if v is not None]
            states.append({"facts": facts, "fluents": fluents})
    descrs = [dict(ctor_from_abstract(s), want=s, kind="exhaustive") for s in states]
    return descrs


def permuted_variant(rng, st, k):
    """the same abstract state built in another order / with irrelevant fields changed"""
    s2 = {"facts": list(st["facts"]), "fluents": list(st["fluents"])}
    rng.shuffle(s2["facts"])
    rng.shuffle(s2["fluents"])
    d = ctor_from_abstract(s2, init=bool(k % 2), style="problem",
                           types={o: rng.choice(["a", "b", "c"]) for o in "abcdefo"} if k % 3 == 1 else None,
                           keys="lifted" if k % 3 != 2 else "other")
    return dict(d, want=st, kind="permuted")


def rand_abstract(rng, objs, npreds=4, density=None):
    density = density if density is not None else rng.choice([0.0, 0.15, 0.4, 0.8])
    preds = [("p", 1), ("q", 2), ("z", 0), ("r", 3), ("k", 1)][:npreds]
    facts = []
    for p, ar in preds:
        for combo in itertools.product(objs, repeat=ar):
            if rng.random() < density:
                facts.append([p, list(combo)])
    fluents = []
    for f, ar in [("f", 1), ("g", 2), ("h", 0)]:
        for combo in itertools.product(objs, repeat=ar):
            if rng.random() < density * 0.8:
                fluents.append([f, list(combo), fhex(rng.choice(VALUE_POOL))])
    rng.shuffle(facts)
    rng.shuffle(fluents)
    return {"facts": facts, "fluents": fluents}


def no_interleaved_repeat(st):
    """the argument lists a PDDLFunction can denote: all copies of a repeated name first (D07 otherwise)"""
    for _, args, _ in st["fluents"]:
        seen = []
        for o in args:
            if o not in seen:
                seen.append(o)
        rep = [o for o in seen if args.count(o) > 1]
        printed = []
        for o in rep:
            printed += [o] * args.count(o)
        printed += [o for o in seen if o not in rep]
        if printed != args:
            return False
    return True


def perturb(rng, st):
    """one small, relevant change"""
    s2 = {"facts": [list(x) for x in st["facts"]], "fluents": [list(x) for x in st["fluents"]]}
    choices = []
    if s2["facts"]:
        choices += ["drop-fact", "rename-fact", "swap-arg"]
    if s2["fluents"]:
        choices += ["drop-fluent", "nudge-value", "negate-value", "rename-fluent"]
    choices += ["add-fact", "add-fluent"]
    c = rng.choice(choices)
    if c == "drop-fact":
        s2["facts"].pop(rng.randrange(len(s2["facts"])))
    elif c == "rename-fact":
        i = rng.randrange(len(s2["facts"]))
        s2["facts"][i] = [s2["facts"][i][0] + "x", s2["facts"][i][1]]
    elif c == "swap-arg":
        i = rng.randrange(len(s2["facts"]))
        p, args = s2["facts"][i]
        if len(args) >= 2 and args[0] != args[1]:
            s2["facts"][i] = [p, [args[1], args[0]] + args[2:]]
        else:
            s2["facts"][i] = [p, args + ["w"]]
    elif c == "drop-fluent":
        s2["fluents"].pop(rng.randrange(len(s2["fluents"])))
    elif c == "nudge-value":
        i = rng.randrange(len(s2["fluents"]))
        v = unhex(s2["fluents"][i][2])
        v2 = math.nextafter(v, math.inf) if math.isfinite(v) else 0.0
        s2["fluents"][i] = s2["fluents"][i][:2] + [fhex(v2)]
    elif c == "negate-value":
        i = rng.randrange(len(s2["fluents"]))
        v = unhex(s2["fluents"][i][2])
        s2["fluents"][i] = s2["fluents"][i][:2] + [fhex(1.0 if math.isnan(v) else -v)]
    elif c == "rename-fluent":
        i = rng.randrange(len(s2["fluents"]))
        s2["fluents"][i] = [s2["fluents"][i][0] + "x"] + s2["fluents"][i][1:]
    elif c == "add-fact":
        s2["facts"].append(["p", ["new%d" % rng.randint(0, 9)]])
    else:
        s2["fluents"].append(["f", ["new%d" % rng.randint(0, 9)], fhex(rng.choice(VALUE_POOL))])
    # keep it a set / a map
    seen, facts = set(), []
    for x in s2["facts"]:
        if json.dumps(x) not in seen:
            seen.add(json.dumps(x))
            facts.append(x)
    seenf, fl = set(), []
    for x in s2["fluents"]:
        if json.dumps(x[:2]) not in seenf:
            seenf.add(json.dumps(x[:2]))
            fl.append(x)
    return {"facts": facts, "fluents": fl}, c


def random_group(rng, big=False):
    # names that are prefixes of each other / differ only after a '-', '_' or digit: the order of the SORTED fact texts
    # inside a group (3ad2e15) is the byte order of the whole text, not of the names
    objs = rng.choice([["a", "b", "c", "d", "e"], ["a", "ab", "a-b", "a_1", "b"], ["o1", "o10", "o2", "o1-x", "o"]])[: rng.randint(2, 5 if big else 3)]
    for _ in range(20):
        st = rand_abstract(rng, objs, npreds=rng.randint(2, 5))
        if no_interleaved_repeat(st):
            break
    else:
        st = {"facts": [], "fluents": []}
    descrs = [dict(ctor_from_abstract(st), want=st, kind="random")]
    for k in range(rng.randint(1, 3)):
        descrs.append(permuted_variant(rng, st, k + 1))
    descrs.append({"route": "copy", "of": 0, "want": st, "kind": "copy"})
    for _ in range(rng.randint(1, 3)):
        st2, what = perturb(rng, st)
        if no_interleaved_repeat(st2):
            descrs.append(dict(ctor_from_abstract(st2), want=st2, kind="perturbed:" + what))
    return descrs


# ----- routes through the parsers and the transition function
def render_state_text(rng, st, head=":state"):
    items = ["(= (%s) %s)" % (" ".join([f] + args), repr(unhex(v))) for f, args, v in st["fluents"]]
    items += ["(%s)" % " ".join([p] + args) for p, args in st["facts"]]
    rng.shuffle(items)
    return "(%s %s)" % (head, " ".join(items))


def problem_text(rng, objs, st):
    o = " ".join("%s - %s" % (n, t) for n, t in objs)
    items = ["(= (%s) %s)" % (" ".join([f] + args), repr(unhex(v))) for f, args, v in st["fluents"]]
    items += ["(%s)" % " ".join([p] + args) for p, args in st["facts"]]
    rng.shuffle(items)
    return "(define (problem prob) (:domain dom14) (:objects %s) (:init %s) (:goal (and)))" % (o, " ".join(items))


def route_state(rng, objs, allow_repeats, pred_sigs=None, func_sigs=None):
    pred_sigs = PRED_SIGS if pred_sigs is None else pred_sigs
    func_sigs = FUNC_SIGS if func_sigs is None else func_sigs
    names_a = [n for n, t in objs if t in ("a", "b")]
    names_c = [n for n, t in objs if t == "c"]
    dens = rng.choice([0.0, 0.3, 0.6, 1.0])
    facts, fluents = [], []
    for p, sig in pred_sigs.items():
        pools = [names_a if t == "a" else names_c for _, t in sig]
        for combo in itertools.product(*pools):
            if rng.random() < dens:
                facts.append([p, list(combo)])
    for f, sig in func_sigs.items():
        pools = [names_a for _ in sig]
        for combo in itertools.product(*pools):
            if len(set(combo)) < len(combo) and not allow_repeats:
                continue
            if rng.random() < max(dens, 0.3):
                fluents.append([f, list(combo), fhex(rng.choice(ROUTE_VALUES))])
    return {"facts": facts, "fluents": fluents}


def succ_want(st, action, args):
    """the successor of the abstract state under one call of the fixed domain, effects applied whether or not the
    precondition holds (the driver passes allow_inapplicable_actions=True); None when an effect reads a fluent the
    state does not define (no a-priori truth then) or the call repeats an argument (D07 area)"""
    if st is None or len(set(args)) < len(args) or has_repeat(st):
        return None
    facts = [list(x) for x in st["facts"]]
    fl = {(f, tuple(a)): unhex(v) for f, a, v in st["fluents"]}
    order = [(f, tuple(a)) for f, a, _ in st["fluents"]]

    def drop(x):
        while x in facts:
            facts.remove(x)

    def add(x):
        if x not in facts:
            facts.append(x)
    if action == "mv":
        x, y = args
        if ("g", (x, y)) not in fl or ("h", ()) not in fl:
            return None
        drop(["p", [x]])
        add(["p", [y]])
        add(["q", [x, y]])
        fl[("g", (x, y))] = fl[("g", (x, y))] + 1.0
        fl[("h", ())] = fl[("h", ())] - 0.5
    elif action == "setf":
        (x,) = args
        if ("f", (x,)) not in fl:
            return None
        fl[("f", (x,))] = fl[("f", (x,))] + 2.5
        drop(["z", []])
    elif action == "tog":
        if ("h", ()) not in fl:
            return None
        add(["z", []])
        fl[("h", ())] = 3.0
    else:
        return None
    return {"facts": facts, "fluents": [[f, list(a), fhex(fl[(f, a)])] for f, a in order]}


def route_descrs(rng, objs, st, ptxt, allow_repeats, base=0, calls=None):
    """the abstract state st reached through every construction route; 'of' indices are offset by base"""
    descrs = [
        {"route": "problem", "domain": DOMAIN, "problem": ptxt, "want": st, "kind": "route:problem"},
        {"route": "trajectory", "domain": DOMAIN, "problem": ptxt, "text": render_state_text(rng, st), "want": st,
         "kind": "route:trajectory+objects"},
        {"route": "trajectory", "domain": DOMAIN, "problem": None, "text": render_state_text(rng, st, ":init"), "want": st,
         "kind": "route:trajectory-deduced"},
        {"route": "copy", "of": base + 0, "want": st, "kind": "route:copy"},
        {"route": "copy", "of": base + 2, "want": st, "kind": "route:copy"},
    ]
    if no_interleaved_repeat(st):
        descrs.append(dict(ctor_from_abstract(st, types=dict(objs)), want=st, kind="route:ctor"))
    # successors: the same call applied to the parsed state, to its copy and to the trajectory parser's state
    for name, args in (calls if calls is not None else route_calls(rng, objs)):
        if not allow_repeats and len(set(args)) < len(args):
            continue
        w = succ_want(st, name, args)
        for of, kind in ((0, "route:succ"), (3, "route:succ-of-copy"), (1, "route:succ-of-trajectory-state")):
            descrs.append({"route": "succ", "of": base + of, "domain": DOMAIN, "problem": ptxt, "action": name, "args": args,
                           "want": w, "kind": kind})
    return descrs


def route_calls(rng, objs, k=2):
    names_a = [n for n, t in objs if t in ("a", "b")]
    calls = []
    for name, ar in ACTIONS.items():
        for combo in itertools.product(names_a, repeat=ar):
            calls.append((name, list(combo)))
    rng.shuffle(calls)
    return calls[:k]


def route_objects(rng):
    objs = [("o%d" % i, rng.choice(["a", "b", "a"])) for i in range(rng.randint(1, 3))]
    if rng.random() < 0.5:
        objs.append(("u0", "c"))
    return objs


def route_group(rng, allow_repeats=False):
    objs = route_objects(rng)
    st = route_state(rng, objs, allow_repeats)
    ptxt = problem_text(rng, objs, st)
    return {"descrs": route_descrs(rng, objs, st, ptxt, allow_repeats), "ctx": {"domain": DOMAIN, "problem": ptxt}}


# ----- OBSERVATION ONLY (wave 4): states that hold NEGATIVE ground literals
# A GroundedPredicate carries an is_positive flag and a State takes whatever objects it is handed, so a state CAN be made
# to hold "(not (p a))".  Such objects are outside C14's quantifier (a state is a set of ground FACTS; neither reader and
# no successor produces one, both readers refuse the text, == tells {(not (p a))} from {} although both say p(a) is
# false), so nothing here is judged against the property: what the library computes (text, ==, copy, typed text, its own
# reader on the text) is recorded and compared with Model/State.v only (Corr.C14 CStateM / CRowM / CPairM).
NEG_KIND = "negative-literals-observed"
NEG_VIAS = ["ctor", "negated-copy", "flip", "plain-copy"]


def is_model_only(g):
    return g.get("kind") == NEG_KIND


def literal_descr(x, pos, via, types, ptxt=None, calls=None):
    p, args = x
    sig = [["?a%d" % i, types.get(o, "a")] for i, o in enumerate(args)]
    d = {"name": p, "sig": sig, "map": [[n, o] for (n, _), o in zip(sig, args)], "pos": pos, "via": via}
    if via == "effect":
        d["effect"] = {"domain": DOMAIN, "problem": ptxt, "action": calls[0], "args": calls[1]}
    return d


def deleting_call(x, names_a, rng):
    """an action call of the fixed domain that has (not x) among its effects"""
    p, args = x
    if p == "p" and names_a:
        return ("mv", [args[0], rng.choice(names_a)])
    if p == "z" and names_a:
        return ("setf", [rng.choice(names_a)])
    return None


def neg_group(rng):
    objs = route_objects(rng)
    types = dict(objs)
    names_a = [n for n, t in objs if t in ("a", "b")]
    st = route_state(rng, objs, False)
    universe = fact_universe(objs)
    negs = rng.sample(universe, min(len(universe), rng.randint(1, 3)))
    for extra in (["z", []], ["p", [rng.choice(names_a)]]):
        if rng.random() < 0.5 and extra not in negs:
            negs.append(extra)
    both = rng.random() < 0.4            # the state holds (p a) AND (not (p a)), or the negative literal instead of the fact
    kept = {"facts": [x for x in st["facts"] if both or x not in negs], "fluents": st["fluents"]}
    ptxt = problem_text(rng, objs, st)

    def holding(via_of, late=False, init=False, shuffle=False):
        base = {"facts": list(kept["facts"]), "fluents": list(kept["fluents"])}
        if shuffle:
            rng.shuffle(base["facts"])
            rng.shuffle(base["fluents"])
        d = ctor_from_abstract(base, types=types, init=init)
        order = list(negs)
        if shuffle:
            rng.shuffle(order)
        d["late"] = []
        for x in order:
            via = via_of(x)
            call = deleting_call(x, names_a, rng) if via == "effect" else None
            if via == "effect" and call is None:
                via = "ctor"
            lit = literal_descr(x, False, via, types, ptxt, call)
            key = "(%s %s)" % (x[0], " ".join(n for n, _ in lit["sig"]))
            if late:
                d["late"].append([key, lit])
                continue
            for k, grp in d["preds"]:
                if k == key:
                    grp.insert(rng.randint(0, len(grp)) if shuffle else len(grp), lit)
                    break
            else:
                d["preds"].insert(rng.randint(0, len(d["preds"])) if shuffle else len(d["preds"]), [key, [lit]])
        return d
    positive = {"facts": kept["facts"] + [x for x in negs if x not in kept["facts"]], "fluents": st["fluents"]}
    dropped = {"facts": [x for x in st["facts"] if x not in negs], "fluents": st["fluents"]}
    descrs = [
        dict(ctor_from_abstract(st, types=types), kind="neg:facts-only"),
        dict(holding(lambda x: "ctor"), kind="neg:constructor"),
        dict(holding(lambda x: rng.choice(NEG_VIAS), init=True, shuffle=True), kind="neg:other-literal-objects"),
        dict(holding(lambda x: rng.choice(NEG_VIAS), late=True), kind="neg:added-to-finished-state"),
        dict(holding(lambda x: "effect", late=rng.random() < 0.5), kind="neg:grounded-delete-effects"),
        {"route": "copy", "of": 1, "kind": "neg:copy"},
        {"route": "copy", "of": 5, "kind": "neg:copy-of-copy"},
        {"route": "copy", "of": 3, "kind": "neg:copy"},
        {"route": "copy", "of": 4, "kind": "neg:copy"},
        dict(ctor_from_abstract(positive, types=types), kind="neg:positive-forms"),
        dict(ctor_from_abstract(dropped, types=types), kind="neg:literals-dropped"),
    ]
    # one literal fewer / another literal: unequal neighbours
    if len(negs) > 1:
        saved = list(negs)
        negs.pop(rng.randrange(len(negs)))
        descrs.append(dict(holding(lambda x: "ctor"), kind="neg:one-literal-fewer"))
        negs[:] = saved
    return {"descrs": descrs, "ctx": {"domain": DOMAIN, "problem": ptxt}, "kind": NEG_KIND}


# ----- values that are Python ints (findings D90 / D91): PDDLFunction keeps the object it is given
INT_VALUES = [0, 1, -1, 3, 10, -7, 42, 2 ** 53, -(2 ** 31), 10 ** 15]


def int_group(rng):
    """the same abstract state with integral values, built with floats (constructors, ProblemParser) and with Python
    ints handed to set_value / with never-set fluents (value 0); all pairs; the library's reader on every text"""
    objs = route_objects(rng)
    st = route_state(rng, objs, False)
    if not st["fluents"]:
        st["fluents"].append(["h", [], fhex(0.0)])
    st = {"facts": st["facts"], "fluents": [[f, a, fhex(float(rng.choice(INT_VALUES))) if rng.random() < 0.8 else v]
                                            for f, a, v in st["fluents"]]}
    if rng.random() < 0.5:
        st["fluents"][0][2] = fhex(0.0)
    ptxt = problem_text(rng, objs, st)

    def variant(mark):
        d = ctor_from_abstract(st, types=dict(objs))
        for (_, f), (_, _, v) in zip(d["fluents"], st["fluents"]):
            x = unhex(v)
            if mark == "unset" and x == 0 and math.copysign(1, x) > 0:
                f["unset"] = True
            elif mark in ("int", "some") and math.isfinite(x) and x == int(x) and not (x == 0 and math.copysign(1, x) < 0) \
                    and (mark == "int" or rng.random() < 0.5):
                f["ival"] = int(x)
        return d
    descrs = [dict(variant(None), want=st, kind="int:floats"),
              dict(variant("int"), want=st, kind="int:set_value(int)"),
              dict(variant("some"), want=st, kind="int:set_value(int)"),
              dict(variant("unset"), want=st, kind="int:never-set"),
              {"route": "problem", "domain": DOMAIN, "problem": ptxt, "want": st, "kind": "route:problem"},
              {"route": "copy", "of": 1, "want": st, "kind": "int:copy"},
              {"route": "copy", "of": 3, "want": st, "kind": "int:copy"}]
    return {"descrs": descrs, "ctx": {"domain": DOMAIN, "problem": ptxt}}


# ----- process-level sequences: ordinary states, then unrelated library calls in the same process, then the same
# ----- states again and new ones
def noise_steps(rng, objs, repeats):
    """library calls on OTHER texts (same domain object or a second domain that shares every name with the first but
    declares other arities and another type tree); with repeats: fluents / calls with a repeated argument (D07 area --
    the noise itself is not judged, only the ordinary states around it)"""
    steps = []
    for _ in range(rng.randint(1, 3)):
        second = rng.random() < 0.25
        dom, ps, fs = (DOMAIN_B, PRED_SIGS_B, FUNC_SIGS_B) if second else (DOMAIN, PRED_SIGS, FUNC_SIGS)
        nobjs = list(objs) if rng.random() < 0.6 else [("n%d" % i, "a") for i in range(rng.randint(1, 3))]
        if second:
            nobjs = [(n, "a" if t != "c" else "c") for n, t in nobjs]
        names_a = [n for n, t in nobjs if t in ("a", "b")]
        st1 = route_state(rng, nobjs, repeats, ps, fs)
        st2 = route_state(rng, nobjs, repeats, ps, fs)
        if repeats:
            # make sure a diagonal entry is there
            f2 = [f for f, sig in fs.items() if len(sig) == 2][0]
            o = rng.choice(names_a)
            for st in (st1, st2):
                if not any(f == f2 and a == [o, o] for f, a, _ in st["fluents"]):
                    st["fluents"].append([f2, [o, o], fhex(rng.choice(ROUTE_VALUES))])
        ptxt = problem_text(rng, nobjs, st1).replace("(:domain dom14)", "(:domain %s)" % ("dom14b" if second else "dom14"))
        calls = []
        for _ in range(rng.randint(1, 3)):
            name = rng.choice(sorted(ACTIONS))
            args = [rng.choice(names_a) for _ in range(ACTIONS[name])]
            if len(set(args)) < len(args) and not repeats:
                continue
            calls.append([name, args])
        kind = rng.choice(["trajectory", "trajectory", "state-text", "problem", "succ", "export"])
        step = {"kind": kind, "domain": dom, "problem": ptxt if (kind not in ("trajectory", "state-text") or rng.random() < 0.6) else None}
        if kind == "trajectory":
            call = calls[0] if calls else ["tog", []]
            step["text"] = "(%s\n(operator: (%s))\n%s\n)" % (render_state_text(rng, st1, ":init"), " ".join([call[0]] + call[1]),
                                                            render_state_text(rng, st2))
        elif kind == "state-text":
            step["text"] = render_state_text(rng, st2)
        elif kind in ("succ", "export"):
            step["calls"] = calls or [["tog", []]]
        steps.append(step)
    return steps


def sequence_input(rng, repeats):
    objs = route_objects(rng)
    st = route_state(rng, objs, False)
    ptxt = problem_text(rng, objs, st)
    calls = route_calls(rng, objs, k=1)
    before = route_descrs(rng, objs, st, ptxt, False, base=0, calls=calls)
    n = len(before)
    # afterwards: the same state through every route once more (texts shuffled anew), copies and successors of OLD objects
    after = route_descrs(rng, objs, st, problem_text(rng, objs, st), False, base=n, calls=calls)
    olds = [i for i, d in enumerate(before) if d["route"] != "succ"]
    for i in rng.sample(olds, min(2, len(olds))):
        after.append({"route": "copy", "of": i, "want": before[i]["want"], "kind": "route:copy-of-old"})
    for name, args in calls:
        if len(set(args)) == len(args):
            i = rng.choice([0, 1, 2])
            after.append({"route": "succ", "of": i, "domain": DOMAIN, "problem": ptxt, "action": name, "args": args,
                          "want": succ_want(st, name, args), "kind": "route:succ-of-old"})
    return {"before": before, "noise": noise_steps(rng, objs, repeats), "after": after,
            "ctx": {"domain": DOMAIN, "problem": ptxt}, "noise_repeats": repeats}


def expand_sequence(seq, res):
    """one sequence job -> the two groups it is judged as (states observed before / after the unrelated calls)"""
    gb = {"descrs": seq["before"], "kind": "sequence-before", "ctx": seq.get("ctx"), "seq": seq, "phase": "before"}
    ga = {"descrs": seq["before"] + seq["after"], "kind": "sequence-after", "ctx": seq.get("ctx"), "seq": seq, "phase": "after"}
    return [(gb, res["before"]), (ga, res["after"])]


# ----- observe - mutate - observe on ONE State object (wave 3, seed C14_F's class)
def fact_universe(objs, pred_sigs=None):
    pred_sigs = PRED_SIGS if pred_sigs is None else pred_sigs
    names_a = [n for n, t in objs if t in ("a", "b")]
    names_c = [n for n, t in objs if t == "c"]
    out = []
    for p, sig in pred_sigs.items():
        for combo in itertools.product(*[names_a if t == "a" else names_c for _, t in sig]):
            out.append([p, list(combo)])
    return out


def fluent_universe(objs, func_sigs=None):
    func_sigs = FUNC_SIGS if func_sigs is None else func_sigs
    names_a = [n for n, t in objs if t in ("a", "b")]
    out = []
    for f, sig in func_sigs.items():
        for combo in itertools.product(*[names_a for _ in sig]):
            if len(set(combo)) == len(combo):
                out.append([f, list(combo)])
    return out


FREE_PREDS = {"p": [("?x", "a")], "q": [("?x", "a"), ("?y", "a")], "z": [], "r": [("?x", "a"), ("?y", "a"), ("?w", "a")],
              "px": [("?x", "a")], "p-x": [("?x", "a")]}
FREE_FUNCS = {"f": [("?x", "a")], "g": [("?x", "a"), ("?y", "a")], "h": [], "fx": [("?x", "a")], "hh": []}


def fact_descr(x, canon, sigs):
    p, args = x
    if canon and p in sigs and len(sigs[p]) == len(args):
        sig = [[n, t] for n, t in sigs[p]]
    else:
        sig = [["?a%d" % i, "a"] for i in range(len(args))]
    return {"name": p, "sig": sig, "map": [[n, o] for (n, _), o in zip(sig, args)], "pos": True}


def fact_key(x, canon, sigs):
    d = fact_descr(x, canon, sigs)
    return "(%s %s)" % (x[0], " ".join(n for n, _ in d["sig"]))


def fluent_descr(f, args, val, types):
    return {"name": f, "sig": [[o, types.get(o, "a")] for o in args], "val": val, "rep": []}


def near_values(x):
    """values a comparison of NUMBERS cannot tell from x, or only just: the other zero, the same datum again, the
    neighbours by one ulp, the negation"""
    if math.isnan(x):
        return [x, 0.0]
    if x == 0:
        return [-x, -x, -x, x, 5e-324]
    if math.isinf(x):
        return [-x, x, math.copysign(1.7976931348623157e308, x)]
    return [-x, x, math.nextafter(x, math.inf), math.nextafter(x, -math.inf)]


def mutate_abstract(a, m):
    """what the in-place change means for the facts and fluents the state holds (None: no a-priori truth)"""
    facts = [list(x) for x in a["facts"]]
    fl = [list(x) for x in a["fluents"]]
    k = m["kind"]
    if k == "add-fact":
        x = [m["fact"]["name"], [o for _, o in m["fact"]["map"]]]
        if x not in facts:
            facts.append(x)
    elif k == "discard-fact":
        facts = [x for x in facts if x != [m["name"], m["args"]]]
    elif k == "set-group":
        facts = [x for x in facts if x[0] != m["name"]] + [[g["name"], [o for _, o in g["map"]]] for g in m["facts"]]
    elif k == "del-group":
        facts = [x for x in facts if x[0] != m["name"]]
    elif k == "rename-fact":
        facts = [[m["new"], x[1]] if x == [m["name"], m["args"]] else x for x in facts]
        facts = [x for i, x in enumerate(facts) if x not in facts[:i]]
    elif k == "remap-fact":
        facts = [[m["name"], m["new_args"]] if x == [m["name"], m["args"]] else x for x in facts]
        facts = [x for i, x in enumerate(facts) if x not in facts[:i]]
    elif k == "remap-fluent":
        fl = [[f, m["new_args"], w] if (f, a_) == (m["name"], m["args"]) else [f, a_, w] for f, a_, w in fl]
    elif k == "set-value":
        v = fhex(float(m["ival"])) if "ival" in m else m["val"]
        fl = [[f, a_, v] if (f, a_) == (m["name"], m["args"]) else [f, a_, w] for f, a_, w in fl]
    elif k == "put-fluent":
        v = m["fluent"]["val"]
        if any((f, a_) == (m["fluent"]["name"], m["args"]) for f, a_, _ in fl):
            fl = [[f, a_, v] if (f, a_) == (m["fluent"]["name"], m["args"]) else [f, a_, w] for f, a_, w in fl]
        else:
            fl.append([m["fluent"]["name"], m["args"], v])
    elif k == "del-fluent":
        fl = [x for x in fl if (x[0], x[1]) != (m["name"], m["args"])]
    elif k == "rename-fluent":
        fl = [[m["new"], a_, w] if (f, a_) == (m["name"], m["args"]) else [f, a_, w] for f, a_, w in fl]
    elif k in ("rebuild-dicts", "flip-init"):
        pass
    elif k == "effects":
        return succ_want({"facts": facts, "fluents": fl}, m["action"], m["args"])
    else:
        raise ValueError(k)
    return {"facts": facts, "fluents": fl}


def choose_mutation(rng, t, a, objs, canon, free, ptxt, effects_ok, same_valued):
    """one in-place change of state t (abstract contents a) through the public attributes"""
    sigs = FREE_PREDS if free else PRED_SIGS
    fsigs = FREE_FUNCS if free else FUNC_SIGS
    uni = fact_universe(objs, sigs)
    absent = [x for x in uni if x not in a["facts"]]
    funi = fluent_universe(objs, fsigs)
    have = [[f, a_] for f, a_, _ in a["fluents"]]
    fabsent = [x for x in funi if x not in have]
    types = dict(objs)
    kinds = ["rebuild-dicts", "flip-init"]
    kinds += ["add-fact"] * 4 if absent else []
    kinds += ["discard-fact"] * 5 + ["del-group", "set-group", "add-fact-present"] if a["facts"] else ["discard-absent"]
    kinds += ["set-value"] * 4 + ["del-fluent", "put-fluent-existing"] if a["fluents"] else []
    kinds += ["put-fluent"] * 2 if fabsent else []
    # the fact / fluent OBJECTS edited in place: another name (free vocabulary only), other objects
    remap_f = [(x, y) for x in a["facts"] for y in absent if y[0] == x[0]]
    remap_fl = [(x, y) for x in have for y in fabsent if y[0] == x[0]]
    kinds += ["remap-fact"] * 3 if remap_f else []
    kinds += ["remap-fluent"] * 3 if remap_fl else []
    if free and a["facts"]:
        kinds += ["rename-fact"] * 3
    if free and a["fluents"]:
        kinds += ["rename-fluent"] * 3
    if effects_ok:
        calls = [(n, args) for n, args in route_calls(rng, objs, k=99) if succ_want(a, n, args) is not None]
        kinds += ["effects"] * 5 if calls else []
    k = rng.choice(kinds)
    m = {"target": t}
    if k in ("add-fact", "add-fact-present"):
        x = rng.choice(absent if k == "add-fact" else a["facts"])
        m.update(kind="add-fact", fact=fact_descr(x, canon, sigs), key=fact_key(x, canon, sigs))
    elif k in ("discard-fact", "discard-absent"):
        x = rng.choice(a["facts"]) if k == "discard-fact" else rng.choice(uni)
        m.update(kind="discard-fact", name=x[0], args=x[1], how=rng.choice(["discard", "remove", "difference_update", "new-set"]))
    elif k == "set-group":
        p = rng.choice(a["facts"])[0]
        new = [x for x in uni if x[0] == p and rng.random() < 0.5]
        m.update(kind="set-group", name=p, key=fact_key([p, [None] * len(sigs[p])], canon, sigs) if p in sigs else "(%s )" % p,
                 facts=[fact_descr(x, canon, sigs) for x in new])
    elif k == "del-group":
        m.update(kind="del-group", name=rng.choice(a["facts"])[0], how=rng.choice(["del", "clear"]))
    elif k == "rename-fact":
        x = rng.choice(a["facts"])
        same_arity = [p for p, sg in sigs.items() if len(sg) == len(x[1]) and p != x[0]]
        m.update(kind="rename-fact", name=x[0], args=x[1], new=rng.choice(same_arity) if same_arity else x[0] + "x")
    elif k == "remap-fact":
        x, y = rng.choice(remap_f)
        m.update(kind="remap-fact", name=x[0], args=x[1], new_args=y[1])
    elif k == "remap-fluent":
        x, y = rng.choice(remap_fl)
        m.update(kind="remap-fluent", name=x[0], args=x[1], new_args=y[1])
    elif k == "set-value":
        f, a_, v = rng.choice(a["fluents"])
        if rng.random() < 0.08:
            m.update(kind="set-value", name=f, args=a_, ival=rng.choice(INT_VALUES[:7]))
        elif rng.random() < 0.45:
            m.update(kind="set-value", name=f, args=a_, val=fhex(rng.choice(near_values(unhex(v)))))
        else:
            m.update(kind="set-value", name=f, args=a_, val=fhex(rng.choice(ROUTE_VALUES)))
    elif k in ("put-fluent", "put-fluent-existing"):
        f, a_ = rng.choice(fabsent if k == "put-fluent" else have)
        m.update(kind="put-fluent", args=a_, key="(%s %s)" % (f, " ".join(a_)),
                 fluent=fluent_descr(f, a_, fhex(rng.choice(ROUTE_VALUES)), types))
    elif k == "del-fluent":
        f, a_, _ = rng.choice(a["fluents"])
        m.update(kind="del-fluent", name=f, args=a_, how=rng.choice(["del", "pop"]))
    elif k == "rename-fluent":
        f, a_, _ = rng.choice(a["fluents"])
        same_arity = [g for g, sg in fsigs.items() if len(sg) == len(a_) and g != f and [g, a_] not in have]
        fresh = [n for n in (f + "x", f + "y", f + "-z") if [n, a_] not in have]     # never onto a fluent the state holds
        m.update(kind="rename-fluent", name=f, args=a_, new=rng.choice(same_arity) if same_arity else fresh[0])
    elif k == "rebuild-dicts":
        m.update(kind="rebuild-dicts", reverse=rng.random() < 0.5)
    elif k == "flip-init":
        m.update(kind="flip-init")
    elif k == "effects":
        n, args = rng.choice(calls)
        m.update(kind="effects", action=n, args=args, domain=DOMAIN, problem=ptxt,
                 prev=rng.choice(same_valued) if same_valued and rng.random() < 0.5 else None)
    return m


def omo_input(rng, n_steps, free, max_states=13):
    """free: constructor-built states over names the fixed domain does not declare (no library reader in the loop,
    facts and fluents are renamed in place); otherwise the states come from the parsers, the library's reader reads
    every text back, and grounded effects are applied in place"""
    objs = route_objects(rng)
    if free:
        objs = [(n, "a") for n, _ in objs]
    sigs, fsigs = (FREE_PREDS, FREE_FUNCS) if free else (PRED_SIGS, FUNC_SIGS)
    st = route_state(rng, objs, False, sigs, fsigs)
    if not st["facts"] and rng.random() < 0.7:
        st["facts"] = rng.sample(fact_universe(objs, sigs), 1)
    if st["fluents"] and rng.random() < 0.5:          # a zero of either sign is among the values
        st["fluents"][rng.randrange(len(st["fluents"]))][2] = fhex(rng.choice([0.0, -0.0]))
    ptxt = None if free else problem_text(rng, objs, st)
    if free:
        start = [dict(ctor_from_abstract(st, types=dict(objs)), want=st, kind="omo:start:ctor"),
                 dict(permuted_variant(rng, st, rng.randint(0, 5)), kind="omo:start:ctor"),
                 {"route": "copy", "of": 0, "want": st, "kind": "omo:start:copy"}]
        canon = [False, False, False]
    else:
        start = [{"route": "problem", "domain": DOMAIN, "problem": ptxt, "want": st, "kind": "omo:start:problem"},
                 {"route": "trajectory", "domain": DOMAIN, "problem": ptxt, "text": render_state_text(rng, st), "want": st,
                  "kind": "omo:start:trajectory+objects"},
                 {"route": "trajectory", "domain": DOMAIN, "problem": None, "text": render_state_text(rng, st, ":init"), "want": st,
                  "kind": "omo:start:trajectory-deduced"},
                 dict(ctor_from_abstract(st, types=dict(objs)), want=st, kind="omo:start:ctor"),
                 {"route": "copy", "of": rng.choice([0, 1, 2]), "want": st, "kind": "omo:start:copy"}]
        canon = [True, True, True, False, True]
    cur = [st for _ in start]                # the contents of every state NOW
    descrs = [dict(d) for d in start]
    wants = [[d["want"] for d in descrs]]    # per moment
    steps = []
    effects_done = set()
    undo = None
    for _ in range(n_steps):
        live = [i for i, w in enumerate(cur) if w is not None]
        if not live:
            break
        t = rng.choice(live[:3] + live) if rng.random() < 0.7 else rng.choice(live)
        if undo is not None and rng.random() < 0.5 and cur[undo["target"]] is not None:
            m = undo                         # put back what the previous step removed
            t = m["target"]
        else:
            same_valued = [i for i in live if i != t and same_abstract(cur[i], cur[t])]
            m = choose_mutation(rng, t, cur[t], objs, canon[t], free, ptxt,
                                (not free) and canon[t] and t not in effects_done, same_valued)
        undo = None
        if m["kind"] == "discard-fact" and [m["name"], m["args"]] in cur[t]["facts"]:
            x = [m["name"], m["args"]]
            undo = {"target": t, "kind": "add-fact", "fact": fact_descr(x, canon[t], sigs), "key": fact_key(x, canon[t], sigs)}
        if m["kind"] == "effects":
            effects_done.add(t)
        if m["kind"] in ("remap-fluent", "rename-fluent"):
            canon[t] = False         # the dict key no longer is the fluent's text: no effects / successors from here on
        new = mutate_abstract(cur[t], m)
        cur = list(cur)
        cur[t] = new
        build = []
        if new is not None and len(descrs) < max_states:
            base = len(descrs)
            build.append(dict(ctor_from_abstract(new, types=dict(objs)), want=new, kind="omo:fresh-ctor"))
            build.append({"route": "copy", "of": t, "want": new, "kind": "omo:copy-now"})
            cn = [False, canon[t]]
            if not free and rng.random() < 0.4:
                build.append({"route": "trajectory", "domain": DOMAIN, "problem": ptxt if rng.random() < 0.5 else None,
                              "text": render_state_text(rng, new), "want": new, "kind": "omo:fresh-trajectory"})
                cn.append(True)
            if not free and canon[t] and t not in effects_done and rng.random() < 0.4:
                calls = [(n, args) for n, args in route_calls(rng, objs, k=99) if succ_want(new, n, args) is not None]
                if calls:
                    n, args = rng.choice(calls)
                    build.append({"route": "succ", "of": t, "domain": DOMAIN, "problem": ptxt, "action": n, "args": args,
                                  "want": succ_want(new, n, args), "kind": "omo:succ-now"})
                    cn.append(False)
            descrs += build
            cur += [b["want"] for b in build]
            canon += cn
            assert len(descrs) == base + len(build)
        steps.append({"mut": m, "build": build})
        wants.append(list(cur))
    return {"start": start, "steps": steps, "wants": wants, "ctx": None if free else {"domain": DOMAIN, "problem": ptxt},
            "free": free}


def expand_omo(q, res):
    """one observe-mutate-observe job -> one group per moment: the states that exist then, with the contents they are
    intended to have THEN"""
    out = []
    descrs = [dict(d) for d in q["start"]]
    for m, mo in enumerate(res["moments"]):
        if m > 0:
            descrs = descrs + [dict(d) for d in q["steps"][m - 1]["build"]]
        ds = [dict(d, want=w) for d, w in zip(descrs, q["wants"][m])]
        g = {"descrs": ds, "kind": "omo:moment-0" if m == 0 else "omo:after-mutation", "ctx": q.get("ctx"), "omo": q, "moment": m}
        out.append((g, {"states": mo["states"], "pairs": mo["pairs"], "ctx": res.get("ctx")}))
    return out


def omo_job(q):
    return {"op": "c14.omo", "start": [strip(d) for d in q["start"]], "ctx": q.get("ctx"),
            "steps": [{"mut": s_["mut"], "build": [strip(d) for d in s_["build"]]} for s_ in q["steps"]]}


def build_omos(rng, tier):
    n = 8 if tier == "quick" else 40
    return [omo_input(rng, rng.randint(3, 4) if tier == "quick" else rng.randint(3, 6), free=(k % 4 == 3),
                      max_states=10 if tier == "quick" else 12) for k in range(n)]


def has_repeat(st):
    return bool(st) and any(len(set(args)) < len(args) for _, args, _ in st["fluents"])


# ---------------------------------------------------------------- Coq literals
def cpairs(l, f2=cstr):
    return clist(["(%s, %s)" % (cstr(a), f2(b)) for a, b in l])


def cgp(g):
    return "{| gp_name := %s; gp_sig := %s; gp_map := %s; gp_pos := %s |}" % (
        cstr(g["name"]), cpairs(g["sig"]), cpairs(g["map"]), cbool(g["pos"]))


def cpf(f):
    return "{| pf_name := %s; pf_sig := %s; pf_val := %s; pf_rep := %s; pf_int := %s |}" % (
        cstr(f["name"]), cpairs(f["sig"]), hexlit(f["val"]), cpairs(f["rep"], lambda k: "%d%%nat" % k),
        cbool(not f.get("is_float", True)))


def cmstate(d):
    preds = clist(["(%s, %s)" % (cstr(k), clist([cgp(g) for g in grp])) for k, grp in d["preds"]])
    fl = clist(["(%s, %s)" % (cstr(k), cpf(f)) for k, f in d["fluents"]])
    return "{| st_init := %s; st_preds := %s; st_fluents := %s |}" % (cbool(d["init"]), preds, fl)


def cwant(st):
    if st is None:
        return "None"
    return "(Some %s)" % cstate({"facts": st["facts"], "fluents": [[f, a, unhex(v)] for f, a, v in st["fluents"]]})


def cobs_val(r, render):
    return "(Returned %s)" % render(r["value"]) if r and "value" in r else "Raised"


EMPTY_DUMP = {"init": False, "preds": [], "fluents": []}


def src_rep(descrs, i):
    """INPUT-side classifier of finding D07: the description of state i, or of anything it is derived from, has a
    ground fluent or an action call with a repeated argument"""
    d = descrs[i]
    if has_repeat(d.get("want")):
        return True
    if d.get("route") == "succ" and len(set(d["args"])) < len(d["args"]):
        return True
    if "of" in d:
        return src_rep(descrs, d["of"])
    if d.get("route") == "ctor":
        return any(f.get("rep") for _, f in d["fluents"])
    return False


def src_int(descrs, i):
    """INPUT-side classifier of findings D90 / D91: the description of state i, or of the state it is copied /
    derived from, stores a Python int in a fluent ('ival') or never sets it ('unset')"""
    d = descrs[i]
    if d.get("route") == "ctor" and any("ival" in f or f.get("unset") for _, f in d["fluents"]):
        return "D91" if any(f.get("unset") for _, f in d["fluents"]) else "D90"
    if "of" in d:
        return src_int(descrs, d["of"])
    return None


def klass_of(descrs, i):
    return src_int(descrs, i) or ("D07" if src_rep(descrs, i) else None)


def crb(r):
    if r is None:
        return "None"
    if "value" not in r:
        return "(Some Raised)"
    return "(Some (Returned (%s, %s)))" % (cbool(r["value"][0]), cstr(r["value"][1]))


def copt_obs(r):
    if r is None:
        return "None"
    return "(Some %s)" % cobs_val(r, cstr)


def csinfo(descrs, i, info):
    descr = descrs[i]
    return ("{| si_dump := %s; si_want := %s; si_ser := %s; si_self_eq := %s; si_copy_eq := %s; si_copy_ser := %s; "
            "si_indep := %s; si_src_rep := %s; si_src_int := %s; si_rb_with := %s; si_rb_ded := %s; "
            "si_tser := %s; si_copy_tser := %s; si_hash := %s |}") % (
        cmstate(info.get("dump", EMPTY_DUMP)), cwant(descr.get("want")), cobs_val(info.get("ser"), cstr),
        cobs_val(info.get("self_eq"), cbool), cobs_val(info.get("copy_eq"), cbool), cobs_val(info.get("copy_ser"), cstr),
        cobs_val(info.get("indep"), cbool), cbool(src_rep(descrs, i)), cbool(src_int(descrs, i) is not None),
        crb(info.get("rb_with")), crb(info.get("rb_ded")),
        copt_obs(info.get("tser")), copt_obs(info.get("copy_tser")), copt_obs(info.get("hash")))


def values_of(descrs, infos):
    vals, texts = set(), set()
    for d, info in zip(descrs, infos):
        if d.get("want"):
            for _, _, v in d["want"]["fluents"]:
                vals.add(v)
        for _, f in info.get("dump", EMPTY_DUMP)["fluents"]:
            vals.add(f["val"])
        found = [info[k]["value"] for k in ("ser", "copy_ser", "tser", "copy_tser") if info.get(k) and "value" in info[k]]
        found += [info[k]["value"][1] for k in ("rb_with", "rb_ded") if info.get(k) and "value" in info[k]]
        for text in found:
            for t in text.replace("(", " ").replace(")", " ").split():
                texts.add(t)
    return vals, texts


def cctx(c):
    if not c:
        return "None"
    v = c["vocab"]
    sigs = lambda l: clist(["(%s, %s)" % (cstr(n), cpairs(sg)) for n, sg in l])  # noqa
    return "(Some (vocab %s %s %s %s, %s))" % (cpairs(v["types"]), cpairs(v["consts"]), sigs(v["preds"]), sigs(v["funcs"]),
                                              cpairs(c["objects"]))


def cenv(descrs, infos, ff, ctx=None):
    vals, texts = values_of(descrs, infos)
    reprs = clist(["(%s, %s)" % (hexlit(h), cstr(ff["reprs"][h][0])) for h in sorted(vals)])
    nums = clist(["(%s, %s)" % (cstr(t), hexlit(ff["nums"][t])) for t in sorted(texts) if t in ff["nums"]])
    return "{| e_repr := %s; e_nums := %s; e_states := %s; e_ctx := %s |}" % (
        reprs, nums, clist([csinfo(descrs, i, info) for i, info in enumerate(infos)]), cctx(ctx))


def pair_char(r):
    return "r" if "value" not in r else ("t" if r["value"] else "f")


# ---------------------------------------------------------------- run
def all_pairs(n):
    return [[i, j] for i in range(n) for j in range(n)]


def build_groups(rng, tier):
    groups = []
    # findings' witnesses first
    for f in load_findings(PROP):
        w = f.get("witness") or {}
        if "states" in w:
            groups.append({"descrs": w["states"], "kind": "witness", "witness_of": f["id"] if f["status"] == "open" else None})
    ex = exhaustive_group(tier)
    groups.append({"descrs": ex, "kind": "exhaustive"})
    # build-order permutations of the exhaustive universe, compared with the canonical builds
    n_perm = 20 if tier == "quick" else 180
    for _ in range(n_perm):
        base = rng.choice(ex)["want"]
        ds = [dict(ctor_from_abstract(base), want=base, kind="exhaustive")]
        for k in range(3):
            ds.append(permuted_variant(rng, base, k))
        other = rng.choice(ex)["want"]
        ds.append(permuted_variant(rng, other, rng.randint(0, 5)))
        groups.append({"descrs": ds, "kind": "build-order"})
    for _ in range(36 if tier == "quick" else 340):
        groups.append({"descrs": random_group(rng, big=rng.random() < 0.3), "kind": "random"})
    for _ in range(16 if tier == "quick" else 130):
        groups.append(dict(route_group(rng, allow_repeats=False), kind="routes"))
    for _ in range(6 if tier == "quick" else 30):
        groups.append(dict(route_group(rng, allow_repeats=True), kind="routes-with-repeated-arguments"))
    for _ in range(6 if tier == "quick" else 24):
        groups.append(dict(int_group(rng), kind="int-values"))
    # observation only (own generator: the stream of the judged groups is unchanged)
    nrng = random.Random(rng.random())
    for _ in range(6 if tier == "quick" else 40):
        groups.append(neg_group(nrng))
    return groups


def build_sequences(rng, tier):
    """process-level sequences; most of them put repeated-argument texts (the D07 area) between the observations"""
    n = 6 if tier == "quick" else 36
    # every second one writes all its files (problems, domains, trajectories) to the same path again and again
    return [dict(sequence_input(rng, repeats=(k % 6 != 5)), same_paths=(k % 2 == 1)) for k in range(n)]


class LazyLit:
    """a Coq literal built on demand (only failing cases are ever rendered)"""

    def __init__(self, fn):
        self.fn = fn

    def __str__(self):
        return self.fn()

    def __getitem__(self, k):
        return self.fn()[k]


def subgroup(descrs, idxs):
    """the states idxs plus everything they were derived from ('of'), re-indexed"""
    need = []

    def visit(i):
        if "of" in descrs[i]:
            visit(descrs[i]["of"])
        if i not in need:
            need.append(i)
    for i in idxs:
        visit(i)
    need.sort()
    remap = {old: new for new, old in enumerate(need)}
    out = []
    for i in need:
        d = dict(descrs[i])
        if "of" in d:
            d["of"] = remap[d["of"]]
        out.append(d)
    return out, [remap[i] for i in idxs]


def run_coqchk(rep, prop):
    """thorough tier: the independent checker re-checks the compiled property file and everything it depends on"""
    import subprocess
    from ..common import COQ
    t0 = time.time()
    r = subprocess.run("ulimit -s unlimited 2>/dev/null; timeout 900 coqchk -silent -o -Q %s Verif Verif.Props.%s" % (COQ, prop),
                       shell=True, capture_output=True, text=True)
    out = r.stdout + r.stderr
    ok = r.returncode == 0 and "type-in-type: <none>" in out and "unsafe (co)fixpoints: <none>" in out \
        and "positivity is assumed: <none>" in out
    rep.coverage["coqchk"] = {"ok": ok, "seconds": round(time.time() - t0, 1),
                              "cmd": "coqchk -silent -o -Q coq Verif Verif.Props.%s" % prop}
    rep.coverage["obligations"] = rep.coverage.get("obligations", 0) + 1
    rep.coverage["discharged"] = rep.coverage.get("discharged", 0) + (1 if ok else 0)
    if not ok:
        p = write_replay(prop, "coqchk_failed", {"kind": "proof-obligation", "what": "coqchk rejected the compiled library",
                                                  "out": (r.stdout + r.stderr)[-3000:]})
        rep.violation(p, False)


def strip(d):
    return {k: v for k, v in d.items() if k not in ("want", "kind")}


def seq_job(seq):
    return {"op": "c14.sequence", "before": [strip(d) for d in seq["before"]], "noise": seq["noise"],
            "after": [strip(d) for d in seq["after"]], "ctx": seq.get("ctx"), "same_paths": bool(seq.get("same_paths"))}


def run(args):
    rep = Report(PROP, args.tier, args.seed)
    phases = {}
    t_ = time.time()
    standard_proof_part(rep, PROP)
    phases["proofs"] = round(time.time() - t_, 1)
    t_ = time.time()
    rng = random.Random(args.seed * 7919 + 14)
    seqs, omos = [], []
    if args.replay:
        data = json.load(open(args.replay))
        g = data["input"]["group"]
        if "seq" in g:
            groups, seqs = [], [g["seq"]]
        elif "omo" in g:
            groups, omos = [], [g["omo"]]
        else:
            groups = [g]
    else:
        groups = build_groups(rng, args.tier)
        seqs = build_sequences(random.Random(args.seed * 7919 + 1414), args.tier)
        omos = build_omos(random.Random(args.seed * 7919 + 141414), args.tier)
    hashseed = args.seed % 5
    jobs = [{"op": "c14.group", "states": [strip(d) for d in g["descrs"]], "pairs": all_pairs(len(g["descrs"])),
             "ctx": g.get("ctx")} for g in groups]
    # Order inside a worker process is part of the input (process-level state of the library), so it is controlled:
    # groups whose texts carry repeated arguments (the D07 area) never share a process with the ordinary groups, and
    # every sequence (ordinary states / unrelated calls / the same states again) is one job in a process of its own.
    # A replay of one group or of one sequence in a fresh process is therefore the same experiment.
    apart = [i for i, g in enumerate(groups) if g["kind"] in ("witness", "routes-with-repeated-arguments", "int-values")]
    plain = [i for i in range(len(groups)) if i not in apart]
    results = [None] * len(groups)
    for idxs in (plain, apart):
        for i, r in zip(idxs, run_impl([jobs[i] for i in idxs], hashseed=hashseed)):
            results[i] = r
    seq_results = []
    from ..common import NCPU
    for a in range(0, len(seqs), NCPU):
        batch = [seq_job(q) for q in seqs[a:a + NCPU]]
        seq_results += run_impl(batch, hashseed=hashseed, nproc=len(batch))
    seq_groups, seq_group_results = [], []
    noise_stats = {"steps": 0, "raised": 0, "by_kind": {}, "with_repeated_arguments": 0, "second_domain": 0}
    for q, r in zip(seqs, seq_results):
        if "before" not in r:
            p = write_replay(PROP, "sequence_failed_%d" % len(seq_groups), {"kind": "correspondence", "why": "the sequence driver failed",
                                                                          "input": {"group": {"seq": q}}, "result": r})
            rep.violation(p, False)
            continue
        for st, nr in zip(q["noise"], r["noise"]):
            noise_stats["steps"] += 1
            noise_stats["raised"] += 0 if "value" in nr else 1
            noise_stats["by_kind"][st["kind"]] = noise_stats["by_kind"].get(st["kind"], 0) + 1
            noise_stats["second_domain"] += 1 if st["domain"] == DOMAIN_B else 0
        noise_stats["with_repeated_arguments"] += 1 if q.get("noise_repeats") else 0
        for g, res in expand_sequence(q, r):
            seq_groups.append(g)
            seq_group_results.append(res)
    # observe - mutate - observe jobs: one process each, one group per moment
    omo_results = []
    for a in range(0, len(omos), NCPU):
        batch = [omo_job(q) for q in omos[a:a + NCPU]]
        omo_results += run_impl(batch, hashseed=hashseed, nproc=len(batch))
    omo_groups, omo_group_results = [], []
    omo_stats = {"jobs": len(omos), "moments": 0, "mutations": {}, "mutation_raised": 0, "free_vocabulary_jobs": 0,
                 "mutated_state_compared_with_fresh_state_of_new_contents": 0, "mutated_state_compared_with_its_old_copy": 0}
    for q, r in zip(omos, omo_results):
        if "moments" not in r or len(r["moments"]) != len(q["steps"]) + 1:
            p = write_replay(PROP, "omo_failed_%d" % len(omo_groups), {"kind": "correspondence", "why": "the observe-mutate-observe driver failed",
                                                                     "input": {"group": {"omo": q}}, "result": r})
            rep.violation(p, False)
            continue
        omo_stats["free_vocabulary_jobs"] += 1 if q.get("free") else 0
        for s_, ap in zip(q["steps"], r["applied"]):
            k = s_["mut"]["kind"]
            omo_stats["mutations"][k] = omo_stats["mutations"].get(k, 0) + 1
            omo_stats["mutation_raised"] += 0 if "value" in ap else 1
            kinds = [b["kind"] for b in s_["build"]]
            omo_stats["mutated_state_compared_with_fresh_state_of_new_contents"] += 1 if "omo:fresh-ctor" in kinds else 0
            omo_stats["mutated_state_compared_with_its_old_copy"] += 1
        for g, res in expand_omo(q, r):
            omo_stats["moments"] += 1
            omo_groups.append(g)
            omo_group_results.append(res)
    # the sequences are judged (and reported) first
    groups, results = omo_groups + seq_groups + groups, omo_group_results + seq_group_results + results
    vf = run_impl([{"op": "c14.value_facts"}], nproc=1)[0]
    # float facts for every value / numeral text met
    vals, texts = set(), set()
    for g, r in zip(groups, results):
        v, t = values_of(g["descrs"], r["states"])
        vals |= v
        texts |= t
    ff = run_impl([{"op": "c14.float_facts", "values": sorted(vals), "texts": sorted(texts)}], nproc=1)[0]
    for h, (r_, back) in ff["reprs"].items():
        texts.add(r_)
        ff["nums"].setdefault(r_, back)

    lits, units, cases = [], [], []
    stats = {"groups": {}, "states_by_kind": {}, "pairs_equal": 0, "pairs_unequal": 0, "pairs_raised": 0,
             "pairs_same_abstract_state_different_build": 0, "states": 0, "indep_deep_false": 0,
             "values": {"nan": 0, "neg_zero": 0, "inf": 0, "exponent_form_repr": 0, "subnormal_or_huge": 0, "other": 0},
             "states_with_repeated_fluent_argument": 0, "states_with_int_valued_fluent": 0, "empty_states": 0,
             "library_readback_observed": 0, "observed_only_states_with_negative_literal": 0, "observed_only_copy_equal": 0,
             "observed_only_library_reader_refused_text": 0,
             "library_readback_equal": 0, "successors_with_expected_value": 0, "build_raised": 0,
             "sequence_noise": noise_stats, "observe_mutate_observe": omo_stats}
    ROWS_PER_LIT = 24
    for gi, (g, r) in enumerate(zip(groups, results)):
        descrs, infos = g["descrs"], r["states"]
        n = len(descrs)
        env = cenv(descrs, infos, ff, r.get("ctx"))
        stats["groups"][g["kind"]] = stats["groups"].get(g["kind"], 0) + 1

        def replay_group(idxs, g=g, descrs=descrs):
            if "seq" in g:          # the order of the whole job matters: no shrinking
                return {"kind": g["kind"], "seq": g["seq"], "phase": g["phase"]}, list(idxs)
            if "omo" in g:
                return {"kind": g["kind"], "omo": g["omo"], "moment": g["moment"]}, list(idxs)
            sub, new = subgroup(descrs, idxs)
            return {"descrs": sub, "kind": g["kind"], "ctx": g.get("ctx")}, new
        # per-state and per-pair bookkeeping (python side: classification + distribution only)
        state_cases, pair_cases = [], []
        # observation-only groups are compared with the model alone
        sc, pc, rc = ("CStateM", "CPairM", "CRowM") if is_model_only(g) else ("CState", "CPair", "CRow")
        obs_note = {"observation_only": "states holding negative ground literals are outside C14's quantifier: this case is compared "
                                        "with the model only, a difference is a model / implementation drift, not a claimed violation of the property"} \
            if is_model_only(g) else {}
        if is_model_only(g):
            stats["observed_only_states_with_negative_literal"] += sum(
                1 for info in infos if any(not x["pos"] for _, grp in info.get("dump", EMPTY_DUMP)["preds"] for x in grp))
            stats["observed_only_copy_equal"] += sum(1 for info in infos if info.get("copy_eq", {}).get("value") is True)
            stats["observed_only_library_reader_refused_text"] += sum(
                1 for info in infos for kk in ("rb_with", "rb_ded") if info.get(kk) is not None and "value" not in info[kk])
        for i, (d, info) in enumerate(zip(descrs, infos)):
            k = d.get("kind", "?")
            stats["states_by_kind"][k] = stats["states_by_kind"].get(k, 0) + 1
            stats["states"] += 1
            w = d.get("want")
            rept = src_rep(descrs, i)
            stats["states_with_repeated_fluent_argument"] += 1 if rept else 0
            stats["build_raised"] += 1 if "build_raised" in info else 0
            stats["states_with_int_valued_fluent"] += 1 if any(not f.get("is_float", True) for _, f in info.get("dump", EMPTY_DUMP)["fluents"]) else 0
            if w is not None and not w["facts"] and not w["fluents"]:
                stats["empty_states"] += 1
            if w is not None and d.get("route") == "succ":
                stats["successors_with_expected_value"] += 1
            if info.get("indep_deep", {}).get("value") is False:
                stats["indep_deep_false"] += 1
            for kk in ("rb_with", "rb_ded"):
                if info.get(kk) is not None:
                    stats["library_readback_observed"] += 1
                    stats["library_readback_equal"] += 1 if info[kk].get("value", [False])[0] else 0
            for _, f in info.get("dump", EMPTY_DUMP)["fluents"]:
                v = unhex(f["val"])
                key = ("nan" if math.isnan(v) else "inf" if math.isinf(v) else "neg_zero" if (v == 0 and math.copysign(1, v) < 0)
                       else "subnormal_or_huge" if (v != 0 and (abs(v) < 1e-300 or abs(v) > 1e300))
                       else "exponent_form_repr" if "e" in repr(v) else "other")
                stats["values"][key] += 1
            rg, (si,) = replay_group([i])
            state_cases.append({"lit": LazyLit(lambda env=env, i=i, sc=sc: "{| g_env := %s; g_cases := [%s %d] |}" % (env, sc, i)),
                                "input": dict({"group": rg, "state": si, "implementation": info}, **obs_note),
                                "nontrivial": bool(info.get("dump", EMPTY_DUMP)["preds"] or info.get("dump", EMPTY_DUMP)["fluents"]),
                                "witness_of": g.get("witness_of"), "klass": klass_of(descrs, i)})
        for (i, j), pr in zip(all_pairs(n), r["pairs"]):
            if "value" in pr:
                stats["pairs_equal" if pr["value"] else "pairs_unequal"] += 1
            else:
                stats["pairs_raised"] += 1
            wi, wj = descrs[i].get("want"), descrs[j].get("want")
            if i != j and wi is not None and wj is not None and same_abstract(wi, wj):
                stats["pairs_same_abstract_state_different_build"] += 1
            rept = src_rep(descrs, i) or src_rep(descrs, j)
            rg, (si, sj) = replay_group([i, j])
            pair_cases.append({"lit": LazyLit(lambda env=env, i=i, j=j, pr=pr, pc=pc: "{| g_env := %s; g_cases := [%s %d %d %s] |}" % (
                                   env, pc, i, j, cobs_val(pr, cbool))),
                               "input": dict({"group": rg, "pair": [si, sj], "implementation": pr}, **obs_note),
                               "nontrivial": i != j, "witness_of": g.get("witness_of"),
                               "klass": ("D91" if "D91" in (klass_of(descrs, i), klass_of(descrs, j)) else
                                         klass_of(descrs, i) or klass_of(descrs, j))})
        # literals: state cases + rows, split so that no literal carries more than ROWS_PER_LIT rows
        rows = ["%s %d %s" % (rc, i, cstr("".join(pair_char(r["pairs"][i * n + j]) for j in range(n)))) for i in range(n)]
        first = True
        for a in range(0, n, ROWS_PER_LIT):
            cs = (["CTables"] + ["%s %d" % (sc, i) for i in range(n)] if first else []) + rows[a:a + ROWS_PER_LIT]
            lits.append("{| g_env := %s; g_cases := %s |}" % (env, clist(cs)))
            u = (1 + n if first else 0) + n * len(rows[a:a + ROWS_PER_LIT])
            units.append(u)
            if first:
                cases.append({"lit": LazyLit(lambda env=env: "{| g_env := %s; g_cases := [CTables] |}" % env),
                              "input": {"group": {"kind": g["kind"], "index": gi}, "tables": True},
                              "nontrivial": False})
                cases += state_cases
            cases += pair_cases[a * n:(a + ROWS_PER_LIT) * n]
            first = False
    phases["implementation"] = round(time.time() - t_, 1)
    t_ = time.time()
    verdicts, info = run_case_shards(PROP, "Corr.C14", lits, shard_size=40, units=units, header_extra=HEADER,
                                     max_bytes=140_000)
    decide(rep, PROP, "Corr.C14", cases, verdicts, info, explain_expr="explain_group %s", header_extra=HEADER)
    # CPython / library facts the theorems' hypotheses talk about
    # (int_vs_float -- is a state holding the int 3 equal to one holding 3.0 -- is reported, not demanded: findings D90 / D91
    # and the proposed repair of D90 are about exactly that; the model follows the dump either way)
    expected_vf = {"pos_neg_zero_equal": False, "nan_equal_to_itself": True}
    facts_ok = all(vf.get(k) == v for k, v in expected_vf.items()) and ff.get("str_is_repr") and \
        all(r_[1] == h for h, r_ in ff["reprs"].items())
    if not facts_ok:
        p = write_replay(PROP, "value_facts", {"kind": "correspondence", "why": "value-text facts differ from what the theorems' hypotheses state",
                                               "value_facts": vf, "expected": expected_vf,
                                               "repr_roundtrip_failures": [h for h, r_ in ff["reprs"].items() if r_[1] != h]})
        rep.violation(p, False)
    phases["coq_cases"] = round(time.time() - t_, 1)
    cov = rep.coverage
    cov["phase_seconds"] = phases
    cov["input_distribution"] = stats
    cov["hash_seed"] = hashseed
    cov["value_facts"] = vf
    cov["float_repr_roundtrip_checked_on"] = len(ff["reprs"])
    n_ex = [len(g["descrs"]) for g in groups if g["kind"] == "exhaustive"]
    cov["exhaustive"] = bool(n_ex)
    cov["exhaustive_scope"] = ("all %d ordered pairs of all %d states over the universe of the '%s' tier (see rule)" %
                               (n_ex[0] ** 2, n_ex[0], args.tier)) if n_ex else "replay of one group"
    cov["rule"] = ("EXHAUSTIVE: every ordered pair of states over a small universe (quick: facts p(a) p(b) z, fluents f(a) in {absent,0.0,1.0}, "
                   "h in {absent,-2.5}; thorough: + fact q(a,b), f(a) also -0.0, h in {absent,nan,1.0}), built through the constructors; the same "
                   "abstract states rebuilt in shuffled insertion orders with other dict keys, other types and the other is_init flag; RANDOM larger states "
                   "(2-5 objects, predicates of arity 0-3, fluents of arity 0-2, values incl. -0.0, nan, inf, subnormal, 1e22, 0.1) each with permuted "
                   "rebuilds, a copy and single-point perturbations (dropped/renamed fact, swapped argument, value moved by one ulp, negated ...); ROUTES: the same "
                   "generated state reached through ProblemParser, TrajectoryParser (with the object table / objects deduced), copy, constructors, and "
                   "successors by Operator.apply of the parsed state and of its copy; all ordered pairs inside each group are compared.  Observed: ==, "
                   "serialize() (exact text vs the model; re-read by the model's reader vs the intended state), copy()==, copy().serialize(), and a "
                   "mutation test (every field State.copy copies is changed on the copy, the original must not change, and vice versa).  "
                   "OBSERVE-MUTATE-OBSERVE: states from every route are dumped, observed and compared (all ordered pairs), then ONE existing object is changed in place "
                   "through its public attributes (fact added / discarded / removed, a set replaced or cleared, a predicate key added or deleted, set_value incl. the other "
                   "zero, the neighbour by one ulp and an int, a fluent put / deleted / replaced, fact and fluent objects given another name / object_mapping / signature, the "
                   "dicts rebuilt, is_init flipped, GroundedEffect.apply on the state itself), fresh states with the new contents, a copy made now, a successor made now "
                   "are added, and EVERY state is dumped, observed and compared again against the contents it is intended to have at that moment -- one group per moment.  "
                   "Also observed since wave 3: typed_serialize() of the state and of its copy (model text; types dropped and re-read against the intended state) and hash(state).  "
                   "OBSERVATION ONLY (not judged against the property): states made to hold negative ground literals through the public attributes "
                   "(constructor, copy(is_negated=True), the flag assigned, the delete-effect literals the library grounds, added to a finished state), "
                   "their copies and positive / dropped neighbours -- text, ==, copy, typed text and the library's reader are compared with the model alone.  "
                   "A case is non-trivial when the state is non-empty (state cases) or the two states are different objects (pair cases); distinct by input hash.")
    cov["samples"] = [c["input"] for c in cases[1:3]] + [c["input"] for c in cases[-2:]]
    rep.assumptions = [
        "the theorems' state_ok demands float values (what every parser / effect route stores); Python ints (set_value(int), the never-set default 0) are modelled (pf_int), refuted (C14_eq_int_refuted, C14_eq_unset_refuted) and listed as findings D90 / D91",
        "values are compared through repr(): -0.0 and 0.0 are different values, nan is equal to itself (value_facts; theorems C14_eq_ieee_* state the exact difference to IEEE comparison)",
        "float(repr(x)) == x re-checked on every value of this run (%d values)" % len(ff["reprs"]),
        "ASCII names without blanks or parentheses",
        "state facts are positive literals: a state that is made to hold a GroundedPredicate with is_positive = False is outside the "
        "property's quantifier (a state is a set of ground facts; no reader and no successor produces such a state, both readers refuse "
        "its text); group kind '%s' records what the library does with such objects and compares it with the model only" % NEG_KIND]
    if args.tier == "thorough" and not args.replay:
        run_coqchk(rep, PROP)
    return rep.finish()
