"""C17 — combining agent domains/problems yields their union and disturbs nothing else."""
import hashlib
import itertools
import json
import random
import re
import shutil
import time

from ..common import (NCPU, REPO, WORK, Report, cbool, chex, clist, cstr, decide, esc, run_case_shards, run_impl,
                      standard_proof_part, write_replay)

PROP = "C17"
FIXTURES = "tests/multi_agent_tests"

TYPE_POOL = ["loc", "item", "truck", "plane", "box", "tool", "site", "crane", "robot", "city"]
PRED_POOL = ["at", "in", "on", "free", "holds", "linked", "ready", "busy", "clean", "open", "near", "owns"]
FUNC_POOL = ["fuel", "load", "dist", "cost", "level", "cap"]
ACT_POOL = ["move", "load", "drop", "fly", "fix", "push", "scan", "lift", "wash", "swap", "dock", "charge"]
REQ_POOL = [":strips", ":factored-privacy", ":negative-preconditions", ":equality", ":numeric-fluents"]
NUMS = ["0", "1", "2", "3", "10", "2.5", "0.1", "7.25"]


# ------------------------------------------------------------------------------------------------
# generated domains
# ------------------------------------------------------------------------------------------------
def ancestors(types, t):
    par = dict(types)
    out = []
    while t in par:
        t = par[t]
        out.append(t)
    return out


def is_sub(types, t, u):
    return t == u or u in ancestors(types, t)


def gen_domain(rng, untyped=False):
    """untyped: no (:types ...), every name of type object and written without `- type`; the library reads untyped
    predicates, constants, parameters and objects, but functions only without parameters"""
    nt = rng.randint(1, 6)
    tnames = [] if untyped else ["agent"] + rng.sample(TYPE_POOL, nt)
    types = []
    # shape of the hierarchy: a forest of random depth, or (40 %) mostly chains: each type below the one before it, so
    # that hierarchies 3-5 levels deep are common
    deep = rng.random() < 0.4
    for i, t in enumerate(tnames):
        if i == 0:
            parent = "object"
        elif deep:
            parent = tnames[i - 1] if rng.random() < 0.7 else rng.choice(tnames[:i] + ["object"])
        else:
            parent = "object" if rng.random() < 0.45 else rng.choice(tnames[:i])
        types.append((t, parent))
    agent_types = [t for t, _ in types if is_sub(types, t, "agent")] or ["object"]
    # constants: of a declared type or of the root type (written `- object` or, at the end of the list, bare);
    # half of the domains that have constants mix the two kinds
    consts = [("c%d" % i, rng.choice(tnames + ["object"])) for i in range(rng.choice([0, 0, 1, 2, 3, 4]))]
    if consts and rng.random() < 0.5:
        consts.append(("c%d" % len(consts), "object"))
        if tnames:
            consts.append(("c%d" % len(consts), rng.choice(tnames)))
        rng.shuffle(consts)

    def sig(maxar):
        return [("?%s%d" % (rng.choice("xyzuvw"), j), rng.choice(tnames + (["object"] if rng.random() < 0.1 or untyped else [])))
                for j in range(rng.randint(0, maxar))]
    preds = [(p, sig(3)) for p in rng.sample(PRED_POOL, rng.randint(2, 6))]
    funcs = [(f, sig(0 if untyped else 2)) for f in rng.sample(FUNC_POOL, rng.choice([0, 0, 1, 2, 3]))]
    actions = []
    for a in rng.sample(ACT_POOL, rng.randint(1, 6)):
        params = [("?ag", rng.choice(agent_types))] + [
            ("?p%d" % j, rng.choice(tnames + (["object"] if rng.random() < 0.1 or untyped else [])))
            for j in range(rng.randint(0, 3))]

        def ground(sg):
            args, used = [], set()
            for _, pt in sg:
                cands = [n for n, t in params if (pt == "object" or is_sub(types, t, pt)) and n not in used]
                cands += [c for c, t in consts if (pt == "object" or is_sub(types, t, pt)) and c not in used]
                if not cands:
                    return None
                x = rng.choice(cands)
                used.add(x)
                args.append(x)
            return args

        def lit():
            p, sg = rng.choice(preds)
            g = ground(sg)
            return None if g is None else (p, g)

        def fterm():
            if not funcs:
                return None
            f, sg = rng.choice(funcs)
            g = ground(sg)
            return None if g is None else (f, g)
        pre, eff, used_p, used_f, used_c = [], [], set(), set(), set()

        def note(name, args, is_func=False):
            (used_f if is_func else used_p).add(name)
            used_c.update(x for x in args if not x.startswith("?"))
        for _ in range(rng.randint(0, 3)):
            l = lit()
            if l:
                note(*l)
                txt = "(%s)" % " ".join([l[0]] + l[1])
                pre.append("(not %s)" % txt if rng.random() < 0.15 else txt)
        if rng.random() < 0.5:
            ft = fterm()
            if ft:
                note(*ft, is_func=True)
                pre.append("(%s (%s) %s)" % (rng.choice([">=", "<=", ">", "<"]), " ".join([ft[0]] + ft[1]), rng.choice(NUMS)))
        for _ in range(rng.randint(1, 3)):
            l = lit()
            if l:
                note(*l)
                txt = "(%s)" % " ".join([l[0]] + l[1])
                eff.append("(not %s)" % txt if rng.random() < 0.4 else txt)
        if rng.random() < 0.4:
            ft = fterm()
            if ft:
                note(*ft, is_func=True)
                eff.append("(%s (%s) %s)" % (rng.choice(["increase", "decrease", "assign"]), " ".join([ft[0]] + ft[1]), rng.choice(NUMS)))
        pre, eff = list(dict.fromkeys(pre)), list(dict.fromkeys(eff))
        actions.append({"name": a, "params": params, "pre": pre, "eff": eff,
                        "preds": sorted(used_p), "funcs": sorted(used_f), "consts": sorted(used_c)})
    reqs = ([] if untyped else [":typing"]) + rng.sample(REQ_POOL, rng.randint(0, 3))
    return {"name": "dom%d" % rng.randint(0, 99), "reqs": reqs, "types": types, "consts": consts,
            "preds": preds, "funcs": funcs, "actions": actions, "untyped": untyped}


def close_view(dom, view):
    """adds to a view (sets of names per section) whatever its elements refer to"""
    acts = {a["name"]: a for a in dom["actions"]}
    for a in view["actions"]:
        view["preds"].update(acts[a]["preds"])
        view["funcs"].update(acts[a]["funcs"])
        view["consts"].update(acts[a]["consts"])
        view["types"].update(t for _, t in acts[a]["params"])
    for p, sg in dom["preds"]:
        if p in view["preds"]:
            view["types"].update(t for _, t in sg)
    for f, sg in dom["funcs"]:
        if f in view["funcs"]:
            view["types"].update(t for _, t in sg)
    for c, t in dom["consts"]:
        if c in view["consts"]:
            view["types"].add(t)
    view["types"].discard("object")
    for t in list(view["types"]):
        view["types"].update(x for x in ancestors(dom["types"], t) if x != "object")
    return view


def split_domain(rng, dom, n, mode="mixed"):
    """mode: mixed (public / private parts at random), full (every file holds everything: total overlap),
    disjoint (every item in exactly one file; what its elements refer to is added by close_view)"""
    views = [{"actions": set(), "preds": set(), "funcs": set(), "consts": set(), "types": set(), "reqs": []}
             for _ in range(n)]

    def spread(section, names, p_public):
        for name in names:
            if mode == "full" or (mode == "mixed" and rng.random() < p_public):
                who = range(n)
            elif mode == "disjoint":
                who = [rng.randrange(n)]
            else:
                who = [i for i in range(n) if rng.random() < 0.35] or [rng.randrange(n)]
            for i in who:
                views[i][section].add(name)
    spread("actions", [a["name"] for a in dom["actions"]], 0.15)
    spread("preds", [p for p, _ in dom["preds"]], 0.5)
    spread("funcs", [f for f, _ in dom["funcs"]], 0.5)
    spread("consts", [c for c, _ in dom["consts"]], 0.5)
    spread("types", [t for t, _ in dom["types"]], 0.5)
    for v in views:
        close_view(dom, v)
    for r in dom["reqs"]:
        who = [i for i in range(n) if rng.random() < 0.6] or [rng.randrange(n)]
        for i in who:
            views[i]["reqs"].append(r)
    for v in views:
        rng.shuffle(v["reqs"])
    return views


def linear_extension(rng, types, wanted):
    todo = [(t, p) for t, p in types if t in wanted]
    out, done = [], {"object"}
    while todo:
        ready = [x for x in todo if x[1] in done]
        x = rng.choice(ready)
        todo.remove(x)
        out.append(x)
        done.add(x[0])
    return out


TYPE_STYLES = ["parents_first", "children_first", "shuffled"]


def declare_types(rng, types, wanted, style=None, implicit=None, dangling=()):
    """the entries of one file's (:types ...) section, in one of the ways the language allows to write the same
    hierarchy: parents before their children (a linear extension), every child before its parent, or any order;
    `implicit`: object-parented types that are some listed type's parent are (each with probability 0.7) not declared at
    all - they stand on right-hand sides only (`truck - vehicle` alone makes vehicle a child of object);
    `dangling`: types whose declaration this file leaves to another file although it names them as a parent"""
    tl = linear_extension(rng, types, wanted)
    style = style or rng.choice(TYPE_STYLES)
    if style == "children_first":
        tl.reverse()
    elif style == "shuffled":
        rng.shuffle(tl)
    parents = {p for _, p in tl}
    if implicit is None:
        implicit = rng.random() < 0.35
    if implicit:
        tl = [x for x in tl if not (x[1] == "object" and x[0] in parents and rng.random() < 0.7)]
    return [x for x in tl if not (x[0] in dangling and x[0] in parents)]


def render_typed_list(rng, pairs, untyped=False):
    """`a b - t` groups for consecutive names of the same type (sometimes one per name).  Names of the root type:
    written `- object` where they stand, or (a random subset, or all names of an untyped file) moved to the END of the
    list and written bare - a bare run of names takes the type that FOLLOWS it, so only a trailing run is of type object"""
    if untyped:
        return " ".join(n for n, _ in pairs)
    mode = rng.random()
    bare = [x for x in pairs if x[1] == "object" and (mode < 0.35 or (mode < 0.55 and rng.random() < 0.5))]
    pairs = [x for x in pairs if x not in bare]
    return (render_typed_groups(rng, pairs) + " " + " ".join(n for n, _ in bare)).strip()


def render_typed_groups(rng, pairs):
    out, i = [], 0
    while i < len(pairs):
        j = i + 1
        while j < len(pairs) and pairs[j][1] == pairs[i][1] and rng.random() < 0.7:
            j += 1
        out.append("%s - %s" % (" ".join(n for n, _ in pairs[i:j]), pairs[i][1]))
        i = j
    return " ".join(out)


def render_domain(rng, dom, view=None, overrides=None):
    """view=None renders the whole domain in its own order; overrides: {(section, name): replacement}"""
    ov = overrides or {}
    if view is None:
        view = {"actions": {a["name"] for a in dom["actions"]}, "preds": {p for p, _ in dom["preds"]},
                "funcs": {f for f, _ in dom["funcs"]}, "consts": {c for c, _ in dom["consts"]},
                "types": {t for t, _ in dom["types"]}, "reqs": dom["reqs"]}
    types = [(t, ov.get(("types", t), p)) for t, p in dom["types"]]
    tl = declare_types(rng, types, view["types"], view.get("type_style"), view.get("type_implicit"),
                       view.get("type_dangling", ()))
    # object-parented leaf types may be written bare at the end
    bare = []
    if rng.random() < 0.3:
        parents = {p for _, p in tl}
        bare = [x for x in tl if x[1] == "object" and x[0] not in parents and rng.random() < 0.6]
        tl = [x for x in tl if x not in bare]
    parts = ["(define (domain %s)" % dom["name"], "(:requirements %s)" % " ".join(view["reqs"])]
    if tl or bare:
        parts.append("(:types %s %s)" % (render_typed_groups(rng, tl), " ".join(b[0] for b in bare)))
    untyped = bool(dom.get("untyped"))
    consts = [(c, ov.get(("consts", c), t)) for c, t in dom["consts"] if c in view["consts"]]
    rng.shuffle(consts)
    if consts:
        parts.append("(:constants %s)" % render_typed_list(rng, consts, untyped))

    def sig_text(sg):
        if untyped:
            return " ".join(n for n, _ in sg)
        return " ".join("%s - %s" % (n, t) for n, t in sg)
    preds = [(p, ov.get(("preds", p), sg)) for p, sg in dom["preds"] if p in view["preds"]]
    rng.shuffle(preds)
    k = rng.randint(0, len(preds)) if rng.random() < 0.4 else len(preds)
    pub, priv = preds[:k], preds[k:]
    ptxt = " ".join("(%s %s)" % (p, sig_text(sg)) for p, sg in pub)
    if priv:
        ptxt += " (:private %s)" % " ".join("(%s %s)" % (p, sig_text(sg)) for p, sg in priv)
    parts.append("(:predicates %s)" % ptxt)
    funcs = [(f, sg) for f, sg in dom["funcs"] if f in view["funcs"]]
    rng.shuffle(funcs)
    if funcs:
        parts.append("(:functions %s)" % " ".join("(%s %s)" % (f, sig_text(sg)) for f, sg in funcs))
    acts = [ov.get(("actions", a["name"]), a) for a in dom["actions"] if a["name"] in view["actions"]]
    rng.shuffle(acts)
    for a in acts:
        parts.append("(:action %s\n :parameters (%s)\n :precondition (and %s)\n :effect (and %s))" % (
            a["name"], sig_text(a["params"]), " ".join(a["pre"]), " ".join(a["eff"])))
    return "\n".join(parts) + "\n)\n"


def inject_domain_conflict(rng, dom, views):
    """one file redefines a name that another file also has; returns (file index, override, kind) or None"""
    n = len(views)
    if n < 2:
        return None
    options = []
    for sec in ("preds", "consts", "actions", "types"):
        for name in sorted(set.union(*[v[sec] for v in views])):
            holders = [i for i in range(n) if name in views[i][sec]]
            if len(holders) >= 2:
                options.append((sec, name, holders))
    rng.shuffle(options)
    tnames = [t for t, _ in dom["types"]]
    for sec, name, holders in options:
        i = rng.choice(holders)
        if sec == "preds":
            sg = dict(dom["preds"])[name]
            if not sg:
                continue
            j = rng.randrange(len(sg))
            others = [t for t in views[i]["types"] if t != sg[j][1]]
            if not others:
                continue
            new = list(sg)
            new[j] = (sg[j][0], rng.choice(sorted(others)))
            return i, {("preds", name): new}, "predicate"
        if sec == "consts":
            t = dict(dom["consts"])[name]
            others = [x for x in views[i]["types"] if x != t]
            if not others:
                continue
            return i, {("consts", name): rng.choice(sorted(others))}, "constant"
        if sec == "actions":
            a = [x for x in dom["actions"] if x["name"] == name][0]
            if len(a["eff"]) + len(a["pre"]) < 2:
                continue
            b = dict(a)
            if len(a["eff"]) >= 2:
                b["eff"] = a["eff"][:-1]
            else:
                b["pre"] = a["pre"][:-1]
            return i, {("actions", name): b}, "action"
        if sec == "types":
            p = dict(dom["types"])[name]
            desc = [t for t in tnames if is_sub(dom["types"], t, name)]
            others = [x for x in list(views[i]["types"]) + ["object"] if x != p and x not in desc]
            # the new parent must be declared before the type: only parents that come earlier in the domain's order
            others = [x for x in others if x == "object" or tnames.index(x) < tnames.index(name)]
            if not others:
                continue
            return i, {("types", name): rng.choice(sorted(others))}, "type"
    return None


def inject_dangling_parent(rng, dom, views):
    """one file names a type of depth >= 1 as the parent of a type it declares and leaves that parent's own declaration
    to another file (read alone, the file makes it a child of object: the files disagree about it).  Returns the file
    index or None; the view gets `type_dangling`."""
    par = dict(dom["types"])
    options = []
    for i, v in enumerate(views):
        for t in sorted(v["types"]):
            p = par.get(t)
            if p and p != "object" and par.get(p, "object") != "object" and \
                    any(j != i and p in w["types"] for j, w in enumerate(views)):
                options.append((i, p))
    if not options:
        return None
    i, p = rng.choice(options)
    views[i]["type_dangling"] = {p}
    return i


# ------------------------------------------------------------------------------------------------
# generated problems
# ------------------------------------------------------------------------------------------------
def gen_problem(rng, dom):
    types = dom["types"]
    objs = []
    for t, _ in types:
        for i in range(rng.choice([0, 1, 1, 2, 3])):
            objs.append(("%s%d" % (t[:3], i), t))
    if not dom.get("untyped") and not any(is_sub(types, t, "agent") for _, t in objs):
        objs.append(("age9", "agent"))
    # objects of the root type (the only kind an untyped domain has)
    for i in range(rng.choice([0, 0, 1, 2]) + (2 if dom.get("untyped") else 0)):
        objs.append(("obj%d" % i, "object"))
    # name collisions between the sections that get combined: an OBJECT of the problem named like a CONSTANT of the domain
    # (30 % of the problems over a domain with constants; 1-2 names), declared with the constant's type or with any other
    # type.  Which agent's problem file lists it and which agent's domain file declares the constant is decided by the
    # splits (the same agent's, only another agent's, several).  The library resolves such a name in facts / fluents / goals
    # through the constant ({**objects, **constants}), so the arguments below keep following the CONSTANT's type; the object
    # entry itself belongs to the union of the agents' objects like any other.
    shadow = []
    if dom["consts"] and rng.random() < 0.3:
        tn = [t for t, _ in types] + ["object"]
        for c, ct in rng.sample(dom["consts"], min(len(dom["consts"]), rng.choice([1, 1, 2]))):
            shadow.append((c, ct if rng.random() < 0.5 else rng.choice(tn)))
    plain = list(objs)
    objs = objs + shadow
    rng.shuffle(objs)
    everything = plain + dom["consts"]

    def ground(sg, repeats=False):
        args, used = [], set()
        for _, pt in sg:
            cands = [n for n, t in everything if (pt == "object" or is_sub(types, t, pt)) and (repeats or n not in used)]
            if not cands:
                return None
            x = rng.choice(cands)
            used.add(x)
            args.append(x)
        return args

    def atoms(k):
        out = []
        for _ in range(k):
            p, sg = rng.choice(dom["preds"])
            g = ground(sg, repeats=rng.random() < 0.15)   # facts / goal literals may use an object twice: (near a a)
            if g is not None:
                out.append("(%s)" % " ".join([p] + g))
        return list(dict.fromkeys(out))
    facts = atoms(rng.randint(0, 8))
    goals = atoms(rng.randint(1, 4))
    fluents, ngoals = {}, []
    for f, sg in dom["funcs"]:
        for _ in range(rng.randint(0, 2)):
            g = ground(sg)
            if g is not None:
                fluents["(%s)" % " ".join([f] + g)] = rng.choice(NUMS)
    for key in list(fluents):
        if rng.random() < 0.5:
            ngoals.append("(%s %s %s)" % (rng.choice([">=", "<=", ">", "<", "="]), key, rng.choice(NUMS)))
            if rng.random() < 0.4:      # a second goal on the same fluent: other bound and/or other comparison
                ngoals.append("(%s %s %s)" % (rng.choice([">=", "<=", ">", "<"]), key, rng.choice(NUMS)))
    if len(fluents) >= 2 and rng.random() < 0.3:    # a goal comparing two fluents
        a, b = rng.sample(sorted(fluents), 2)
        ngoals.append("(%s %s (+ %s %s))" % (rng.choice([">=", "<="]), a, b, rng.choice(NUMS)))
    near = 0
    if fluents and rng.random() < 0.6:
        # DISTINCT goals that are near-duplicates of each other: same comparison and fluent expression, constants that
        # differ only beyond the 4th / 2nd / 10th decimal (they print alike at the library's 4 and 2 digits); the same
        # comparison with its operands swapped; the mirrored comparison (the same condition, another form)
        for _ in range(rng.randint(1, 2)):
            key, op, c = rng.choice(sorted(fluents)), rng.choice([">=", "<=", ">", "<", "="]), rng.choice(NUMS)
            family = near_constants(rng, c)
            shape = rng.random()
            for x in family:
                if shape < 0.7:
                    ngoals.append("(%s %s %s)" % (op, key, x))
                elif shape < 0.85:
                    ngoals.append("(%s %s %s)" % (op, x, key))
                else:
                    ngoals.append("(%s (+ %s %s) %s)" % (op, key, x, c))
            near += len(family)
            if rng.random() < 0.3:
                ngoals.append("(%s %s %s)" % (MIRROR[op], family[0], key))
    ngoals = list(dict.fromkeys(ngoals))
    return {"name": "prob%d" % rng.randint(0, 99), "domain": dom["name"], "objs": objs, "facts": facts,
            "fluents": sorted(fluents.items()), "goals": goals, "ngoals": ngoals, "near": near,
            "untyped": bool(dom.get("untyped")), "shadow": shadow}


MIRROR = {">=": "<=", "<=": ">=", ">": "<", "<": ">", "=": "="}
NEAR_STEPS = [["0.00001", "0.00004", "-0.00002", "0.000049"],      # equal after rounding to 4 decimals
              ["0.001", "0.004", "-0.002", "0.0049"],              # equal after rounding to 2 decimals, not to 4
              ["0.00000000001", "0.00000000004", "-0.00000000002"]]  # equal after rounding to 10 decimals


def near_constants(rng, c):
    """2-4 decimal texts of different numbers around c that print alike at some number of digits (c itself included
    half of the time)"""
    from decimal import Decimal
    steps = rng.choice(NEAR_STEPS)
    out = [format(Decimal(c) + Decimal(d), "f") for d in rng.sample(steps, rng.randint(2, min(3, len(steps))))]
    if rng.random() < 0.5:
        out.append(c)
    rng.shuffle(out)
    return out


def respell(rng, goal):
    """the same numeric goal written differently: 2 / 2.0 / 2.00, 0.5 / 0.50, extra blanks (the numbers denoted, the
    operator and the operand order are unchanged, so every spelling is the SAME goal)"""
    def num(m):
        t = m.group(1)
        r = rng.random()
        if r < 0.6:
            return t
        if "." not in t:
            return t + rng.choice([".0", ".00"])
        return t + rng.choice(["0", "00"])
    out = re.sub(r"(?<![\w.?+-])(\d+(?:\.\d+)?)(?=[\s)])", num, goal)
    if rng.random() < 0.3:
        out = out.replace(" ", "  ").replace(")", " )", 1)
    return out


def mentioned(text, names):
    toks = set(text.replace("(", " ").replace(")", " ").split())
    return [n for n in names if n in toks]


def split_problem(rng, prob, n, mode="mixed"):
    views = [{"objs": set(), "facts": [], "fluents": [], "goals": [], "ngoals": []} for _ in range(n)]
    onames = [o for o, _ in prob["objs"]]

    def spread(section, items, p_public):
        for it in items:
            if mode == "full" or (mode == "mixed" and rng.random() < p_public):
                who = range(n)
            elif mode == "disjoint":
                who = [rng.randrange(n)]
            else:
                who = [i for i in range(n) if rng.random() < 0.4] or [rng.randrange(n)]
            for i in who:
                if section == "objs":
                    views[i]["objs"].add(it)
                else:
                    views[i][section].append(it)
    spread("objs", onames, 0.5)
    spread("facts", prob["facts"], 0.35)
    spread("fluents", prob["fluents"], 0.35)
    spread("goals", prob["goals"], 0.4)
    spread("ngoals", prob["ngoals"], 0.5)
    # a file declares the objects its facts / goals mention - except the names that are constants of the domain too: the
    # constant stands in, so a file may mention such a name and leave its declaration as an object to another file
    shadowed = {o for o, _ in prob.get("shadow", [])}
    needed = [o for o in onames if o not in shadowed]
    for v in views:
        for sec in ("facts", "goals", "ngoals"):
            for txt in v[sec]:
                v["objs"].update(mentioned(txt, needed))
        for k, _ in v["fluents"]:
            v["objs"].update(mentioned(k, needed))
    return views


def render_problem(rng, prob, view=None, overrides=None, whole=None):
    ov = overrides or {}
    whole = (view is None) if whole is None else whole
    if view is None:
        view = {"objs": {o for o, _ in prob["objs"]}, "facts": prob["facts"], "fluents": prob["fluents"],
                "goals": prob["goals"], "ngoals": prob["ngoals"]}
    untyped = bool(prob.get("untyped"))
    objs = [(o, ov.get(("objs", o), t)) for o, t in prob["objs"] if o in view["objs"]]
    rng.shuffle(objs)
    k = rng.randint(0, len(objs)) if rng.random() < 0.5 else len(objs)
    otxt = render_typed_list(rng, objs[:k], untyped)
    if objs[k:]:
        otxt += " (:private %s)" % render_typed_list(rng, objs[k:], untyped)
    init = list(view["facts"]) + ["(= %s %s)" % (key, ov.get(("fluents", key), val)) for key, val in view["fluents"]]
    rng.shuffle(init)
    if init and not whole and rng.random() < 0.15:
        init.insert(rng.randrange(len(init) + 1), rng.choice(init))   # a fact / fluent value stated twice in one file
    goal = list(view["goals"]) + [g if whole else respell(rng, g) for g in view["ngoals"]]
    rng.shuffle(goal)
    if goal and not whole and rng.random() < 0.15:
        g = rng.choice(goal)
        goal.append(respell(rng, g) if g in view["ngoals"] else g)   # a goal repeated inside one file
    return "(define (problem %s) (:domain %s)\n(:objects %s)\n(:init %s)\n(:goal (and %s))\n)\n" % (
        prob["name"], prob["domain"], otxt, " ".join(init), " ".join(goal))


def inject_problem_conflict(rng, prob, views, dom=None):
    n = len(views)
    if n < 2:
        return None
    if dom is not None and rng.random() < 0.4:
        # one file declares a shared object with a subtype of its type (still a legal argument everywhere)
        shared = [(o, t, [i for i in range(n) if o in views[i]["objs"]]) for o, t in prob["objs"]]
        shared = [(o, t, h) for o, t, h in shared if len(h) >= 2 and
                  any(is_sub(dom["types"], s_, t) and s_ != t for s_, _ in dom["types"])]
        if shared:
            o, t, holders = rng.choice(shared)
            sub_t = rng.choice([s_ for s_, _ in dom["types"] if is_sub(dom["types"], s_, t) and s_ != t])
            return rng.choice(holders), {("objs", o): sub_t}, "object type"
    shared = [(key, [i for i in range(n) if any(k == key for k, _ in views[i]["fluents"])]) for key, _ in prob["fluents"]]
    shared = [(k, h) for k, h in shared if len(h) >= 2]
    if not shared:
        return None
    key, holders = rng.choice(shared)
    old = dict(prob["fluents"])[key]
    if rng.random() < 0.4:      # a value that differs from the other files' only beyond the printed digits
        return rng.choice(holders), {("fluents", key): near_constants(rng, old)[0] + "1"}, "fluent value (near)"
    return rng.choice(holders), {("fluents", key): rng.choice([x for x in NUMS if x != old])}, "fluent value"


# ------------------------------------------------------------------------------------------------
# unrelated domains (history before / after the call)
# ------------------------------------------------------------------------------------------------
def other_domains(rng):
    k = rng.randint(0, 9)
    untyped = ("(define (domain untyped%d) (:requirements :strips)\n(:predicates (p ?x) (q%d ?x ?y))\n"
               "(:action a :parameters (?x ?y) :precondition (and (p ?x)) :effect (and (q%d ?x ?y) (not (p ?x)))))\n" % (k, k, k))
    typed = ("(define (domain typed%d) (:requirements :typing)\n(:types kind%d - object sub%d - kind%d)\n"
             "(:constants k0 - sub%d)\n(:predicates (r ?x - kind%d))\n"
             "(:action b :parameters (?x - sub%d) :precondition (and (r ?x)) :effect (and (not (r ?x)))))\n" % ((k,) * 7))
    # a domain that uses the NAMES of the generated agent files (types of the pool and `agent`, constants c0.., predicates
    # and actions of the pools) with a hierarchy of its own: nothing of it may change, and nothing of it may show up
    # in the combination
    a, b, c = rng.sample(TYPE_POOL, 3)
    shared = ("(define (domain shared%d) (:requirements :typing)\n(:types %s %s - object agent - %s %s - %s)\n"
              "(:constants c0 - %s c1 - agent c2)\n(:predicates (at ?x - agent) (in ?x - %s ?y - object))\n"
              "(:action move :parameters (?ag - %s ?x - %s) :precondition (and (in ?x c0)) :effect (and (at c1) (not (in ?x c0)))))\n"
              % (k, a, b, a, c, b, c, c, a, c))
    return {"untyped.pddl": untyped, "typed.pddl": typed, "shared.pddl": shared}


# ------------------------------------------------------------------------------------------------
# jobs
# ------------------------------------------------------------------------------------------------
def orders_for(rng, names, tier):
    """None = the real discovery order; then forced orders"""
    n = len(names)
    perms = list(itertools.permutations(sorted(names)))
    out = [None]
    if n <= 1:
        return out + ([list(perms[0])] if n == 1 and tier == "thorough" else [])
    if tier == "quick":
        picks = [perms[0], perms[-1]] + ([rng.choice(perms[1:-1])] if n > 2 else [])
    elif n <= 3 or len(perms) <= 24:
        picks = perms
    else:
        picks = perms           # thorough: every discovery order, also of four files (24)
    return out + [list(p) for p in picks]


def generated_directories(rng, tier):
    ndirs = 100 if tier == "quick" else 360
    for k in range(ndirs):
        dom = gen_domain(rng, untyped=rng.random() < 0.12)
        n = rng.choice([1, 2, 2, 3, 3, 4])
        agents = rng.sample(range(100, 999), n)
        mode = rng.choice(["mixed"] * 7 + ["full", "full", "disjoint"])
        views = split_domain(rng, dom, n, mode)
        conflict = inject_domain_conflict(rng, dom, views) if rng.random() < 0.2 else None
        if conflict is None and n >= 2 and rng.random() < 0.15:
            i = inject_dangling_parent(rng, dom, views)
            if i is not None:
                conflict = (i, None, "type (parent declared by another file only)")
        dfiles = {}
        for i, v in enumerate(views):
            ov = conflict[1] if conflict and conflict[0] == i else None
            dfiles["domain-ag%d.pddl" % agents[i]] = render_domain(rng, dom, v, ov)
        prob = gen_problem(rng, dom)
        pviews = split_problem(rng, prob, n, rng.choice([mode, "mixed"]))
        # "one file declares a shared object with a SUBTYPE of its type" is judged against the generator's hierarchy: only
        # when the files agree on it (under a type conflict the combined domain's subtype relation depends on the file found
        # last, and the object may stop being a legal argument of the facts / goals other files state about it)
        type_conflict = bool(conflict and conflict[2].startswith("type"))
        pconflict = inject_problem_conflict(rng, prob, pviews, None if type_conflict else dom) if rng.random() < 0.2 else None
        pfiles = {}
        for i, v in enumerate(pviews):
            ov = pconflict[1] if pconflict and pconflict[0] == i else None
            pfiles["problem-ag%d.pddl" % agents[i]] = render_problem(rng, prob, v, ov)
        yield {"kind": "generated", "case": "g%03d" % k, "dfiles": dfiles, "pfiles": pfiles,
               "original_domain": None if conflict else render_domain(rng, dom),
               "original_problem": None if (conflict or pconflict) else render_problem(rng, prob),
               "conflict": conflict[2] if conflict else None,
               "pconflict": pconflict[2] if pconflict else None,
               "others": other_domains(rng), "n": n, "untyped": bool(dom.get("untyped")), "near": prob.get("near", 0),
               "split": mode, "shadow": [[o, t, dict(dom["consts"])[o]] for o, t in prob["shadow"]]}


def fixture_directories():
    base = REPO / FIXTURES
    for d, dpath, with_domains in [("multi_agent_problem", None, True),
                                   ("multi_agent_problem", FIXTURES + "/combined_domain.pddl", True),
                                   ("blocks_ma_problem", None, True),
                                   ("another_multi_agent_problem", FIXTURES + "/logistics_combined_domain.pddl", True)]:
        dfiles = {p.name: p.read_text() for p in sorted((base / d).glob("domain-*.pddl"))} if with_domains else {}
        pfiles = {p.name: p.read_text() for p in sorted((base / d).glob("problem-*.pddl"))}
        yield {"kind": "fixture", "case": "fx_%s_%s" % (d, "own" if dpath is None else "given"), "dfiles": dfiles,
               "pfiles": pfiles, "original_domain": None, "original_problem": None, "conflict": None,
               "pconflict": None, "others": other_domains(random.Random(len(d))), "n": len(pfiles),
               "domain_path": dpath}


W_DOMAIN = ("(define (domain wd) (:requirements %s)\n(:types agent - object t - object truck - agent)\n"
            "(:predicates (p ?x - t) %s)\n(:functions (f ?x - t))\n"
            "(:action a :parameters (?ag - agent ?x - t) :precondition (and (p ?x) (>= (f ?x) 1)) :effect (and (not (p ?x))))\n%s)\n")
W_PROBLEM = "(define (problem wq) (:domain wd)\n(:objects %s)\n(:init (p t1) (= (f t1) 3) %s)\n(:goal (and %s)))\n"


def witness_directories():
    """hand-made directories: the recorded witnesses of the repaired findings (D27, D18) and the inputs of the false
    alarms that were removed from the check (differing :requirements / names); they must pass under every order"""
    others = other_domains(random.Random(5))
    base = {"kind": "witness", "original_domain": None, "original_problem": None, "conflict": None, "pconflict": None,
            "others": others}
    da = W_DOMAIN % (":typing", "(q ?x - t)", "(:action b :parameters (?ag - truck) :precondition (and ) :effect (and (q t0)))")
    db = W_DOMAIN % ("", "(:private (r ?x - t ?y - truck))", "")
    dc = W_DOMAIN % (":typing :numeric-fluents", "", "")
    da = da.replace("(:predicates", "(:constants t0 - t)\n(:predicates")
    whole_d = W_DOMAIN % (":typing :numeric-fluents", "(q ?x - t) (r ?x - t ?y - truck)",
                          "(:action b :parameters (?ag - truck) :precondition (and ) :effect (and (q t0)))")
    whole_d = whole_d.replace("(:predicates", "(:constants t0 - t)\n(:predicates")
    # D27: the same numeric goal in two files, and twice inside one file
    pa = W_PROBLEM % ("t1 - t k1 - truck", "(q t1)", "(p t1) (>= (f t1) 2) (>= (f t1) 2)")
    pb = W_PROBLEM % ("t1 t2 - t", "(= (f t2) 0.5)", "(>= (f t1) 2) (p t1) (< (f t2) 7.25)")
    pc = W_PROBLEM % ("t2 - t t1 - t", "(q t1) (= (f t2) 0.5)", "(< (f t2) 7.25) (>= (f t1) 2)")
    whole_p = W_PROBLEM % ("t1 t2 - t k1 - truck", "(q t1) (= (f t2) 0.5)", "(p t1) (>= (f t1) 2) (< (f t2) 7.25)")
    yield dict(base, case="w_d27_reqs", n=3,
               dfiles={"domain-a.pddl": da, "domain-b.pddl": db, "domain-c.pddl": dc},
               pfiles={"problem-a.pddl": pa, "problem-b.pddl": pb, "problem-c.pddl": pc},
               original_domain=whole_d, original_problem=whole_p)
    # an object of one agent's problem named like a constant that only ANOTHER agent's domain declares (t0 - t of
    # domain-a): with the constant's type (listed by b and c, not by a, whose facts mention it all the same), and with
    # another type (k - truck against the constant k - t of domain-c; listed by a only)
    dk = dc.replace("(:predicates", "(:constants k - t)\n(:predicates")
    sa = W_PROBLEM % ("t1 - t k - truck", "(q t0)", "(p t1) (q t0)")
    sb = W_PROBLEM % ("t0 t1 - t", "(q t1) (p k)", "(p t1) (p t0)")
    sc = W_PROBLEM % ("t1 - t t0 - t", "(= (f t0) 0.5)", "(p t1) (< (f t0) 7.25)")
    yield dict(base, case="w_shadow", n=3, shadow=[["t0", "t", "t"], ["k", "truck", "t"]],
               dfiles={"domain-a.pddl": da, "domain-b.pddl": db, "domain-c.pddl": dk},
               pfiles={"problem-a.pddl": sa, "problem-b.pddl": sb, "problem-c.pddl": sc},
               original_domain=whole_d.replace("(:constants t0 - t)", "(:constants t0 k - t)"),
               original_problem=W_PROBLEM % ("t0 t1 - t k - truck", "(q t0) (q t1) (p k) (= (f t0) 0.5)",
                                             "(p t1) (q t0) (p t0) (< (f t0) 7.25)"))
    # different domain names (a problem names its domain, so no problems here) / different problem names
    yield dict(base, case="w_dnames", n=2, pfiles={},
               dfiles={"domain-x.pddl": da.replace("domain wd", "domain first"), "domain-y.pddl": db.replace("domain wd", "domain second")})
    yield dict(base, case="w_pnames", n=2,
               dfiles={"domain-x.pddl": da, "domain-y.pddl": db},
               pfiles={"problem-x.pddl": pa.replace("problem wq", "problem one"), "problem-y.pddl": pb.replace("problem wq", "problem two")})


TINY_DOMAIN = {
    "name": "tiny", "reqs": [":typing"], "types": [("agent", "object"), ("a", "agent"), ("extra", "object")],
    "consts": [("k", "a")], "preds": [("p", [("?x", "a")]), ("q", []), ("r", [("?x", "extra")])], "funcs": [("f", [])],
    "actions": [{"name": "x", "params": [("?ag", "a")], "pre": ["(p ?ag)", "(>= (f) 1)"], "eff": ["(not (p ?ag))", "(increase (f) 1)"],
                 "preds": ["p"], "funcs": ["f"], "consts": []},
                {"name": "y", "params": [("?ag", "agent")], "pre": ["(q)"], "eff": ["(p k)"],
                 "preds": ["p", "q"], "funcs": [], "consts": ["k"]}]}
TINY_PROBLEM = {"name": "tinyp", "domain": "tiny", "objs": [("o1", "a"), ("o2", "a")], "facts": ["(p o1)", "(q)"],
                "fluents": [("(f)", "1")], "goals": ["(p o2)", "(q)"], "ngoals": ["(>= (f) 2)"]}
WHO = [(0,), (1,), (0, 1)]          # held by the first agent, the second, both
OPT = [(), (0,), (1,), (0, 1)]      # ... or by nobody (items nothing else refers to)


def exhaustive_directories(rng):
    """small scope, enumerated completely: every way to give the two actions, the unused predicate, the constant and the
    unused type of TINY_DOMAIN to two agents (3*3*4*4*4 = 576 domain splits) and every way to give the two facts, the
    fluent value, the two goal literals and the numeric goal of TINY_PROBLEM to them (3^6 = 729 problem splits);
    directory i carries problem split i and domain split i mod 576; each under both discovery orders"""
    dsplits = list(itertools.product(WHO, WHO, OPT, OPT, OPT))
    psplits = list(itertools.product(WHO, repeat=6))
    for i, ps in enumerate(psplits):
        ax, ay, pr, ck, te = dsplits[i % len(dsplits)]
        views = [{"actions": set(), "preds": set(), "funcs": set(), "consts": set(), "types": set(), "reqs": [":typing"]}
                 for _ in range(2)]
        for who, sec, name in ((ax, "actions", "x"), (ay, "actions", "y"), (pr, "preds", "r"), (ck, "consts", "k"), (te, "types", "extra")):
            for a in who:
                views[a][sec].add(name)
        for v in views:
            close_view(TINY_DOMAIN, v)
        pviews = [{"objs": set(), "facts": [], "fluents": [], "goals": [], "ngoals": []} for _ in range(2)]
        items = [("facts", x) for x in TINY_PROBLEM["facts"]] + [("fluents", x) for x in TINY_PROBLEM["fluents"]] + \
                [("goals", x) for x in TINY_PROBLEM["goals"]] + [("ngoals", x) for x in TINY_PROBLEM["ngoals"]]
        for who, (sec, it) in zip(ps, items):
            for a in who:
                pviews[a][sec].append(it)
        for v in pviews:
            for sec in ("facts", "goals", "ngoals"):
                for txt in v[sec]:
                    v["objs"].update(mentioned(txt, ["o1", "o2"]))
        whole_view = {"actions": set.union(*[v["actions"] for v in views]), "preds": set.union(*[v["preds"] for v in views]),
                      "funcs": set.union(*[v["funcs"] for v in views]), "consts": set.union(*[v["consts"] for v in views]),
                      "types": set.union(*[v["types"] for v in views]), "reqs": [":typing"]}
        whole_p = {"objs": set.union(*[v["objs"] for v in pviews]), "facts": TINY_PROBLEM["facts"], "fluents": TINY_PROBLEM["fluents"],
                   "goals": TINY_PROBLEM["goals"], "ngoals": TINY_PROBLEM["ngoals"]}
        yield {"kind": "exhaustive", "case": "e%03d" % i,
               "dfiles": {"domain-a%d.pddl" % (k + 1): render_domain(rng, TINY_DOMAIN, v) for k, v in enumerate(views)},
               "pfiles": {"problem-a%d.pddl" % (k + 1): render_problem(rng, TINY_PROBLEM, v) for k, v in enumerate(pviews)},
               "original_domain": render_domain(rng, TINY_DOMAIN, whole_view),
               "original_problem": render_problem(rng, TINY_PROBLEM, whole_p, whole=True),
               "conflict": None, "pconflict": None, "others": other_domains(rng), "n": 2}


def build_jobs(rng, tier):
    jobs = []
    dirs = list(witness_directories()) + list(fixture_directories()) + list(generated_directories(rng, tier))
    if tier == "thorough":
        dirs += list(exhaustive_directories(rng))
    for d in dirs:
        dnames, pnames = sorted(d["dfiles"]), sorted(d["pfiles"])
        orders = orders_for(rng, dnames if dnames else pnames,
                            {"fixture": "quick", "witness": "thorough"}.get(d["kind"], tier))
        for oi, order in enumerate(orders):
            job = {"op": "c17.combine", "case": "%s_o%d" % (d["case"], oi), "dir": d["case"], "kind": d["kind"],
                   "dfiles": d["dfiles"], "pfiles": d["pfiles"], "dummy": rng.random() < 0.35,
                   "others": d["others"], "original_domain": d["original_domain"],
                   "original_problem": d["original_problem"], "conflict": d["conflict"], "pconflict": d["pconflict"],
                   "n": d["n"], "domain_path": d.get("domain_path"), "dorder": None, "porder": None,
                   "untyped": d.get("untyped", False), "near": d.get("near", 0), "split": d.get("split"),
                   "shadow": d.get("shadow") or []}
            if order is not None:
                job["dorder"] = [x for x in order if x in d["dfiles"]] or None
                # the problems are enumerated independently of the domains: give them their own order
                porder = list(pnames)
                rng.shuffle(porder)
                job["porder"] = porder
            # the other setting of add_dummy_actions is combined, exported and re-parsed too: for every job (thorough),
            # for the first two orders of a directory (quick)
            job["alt"] = tier == "thorough" or oi <= 1
            if d["kind"] == "exhaustive" and order is None:
                continue        # both forced orders cover the real one
            # structured correspondence (texts parsed by the model's parser): the first two orders of a directory
            # (every third directory of the exhaustive scope); not for shipped fixtures (files of ~10 kB)
            job["structured"] = bool(d["dfiles"]) and d["kind"] != "fixture" and (
                oi <= 1 if tier == "thorough" or d["kind"] == "witness" else oi == min(1, len(orders) - 1)) and (
                d["kind"] != "exhaustive" or int(d["case"][1:]) % 3 == 0)
            jobs.append(job)
    return jobs


# ------------------------------------------------------------------------------------------------
# Coq literals
# ------------------------------------------------------------------------------------------------
def short(text, limit=110, keep=40):
    """texts cross as they are up to [limit] characters, longer ones as a prefix and a SHA-1 digest of the whole"""
    if len(text) <= limit and esc(text) == text:
        return text
    return esc(text[:keep]).replace("`", "'") + "..#" + hashlib.sha1(text.encode()).hexdigest()[:12]


def cpairs(pairs, limit=110, keep=40):
    return clist('(%s,%s)' % (cstr(short(k)), cstr(short(v, limit, keep))) for k, v in pairs)


def cacts(pairs):
    """action texts are long: they cross as 28 characters and a digest, except the dummy actions' (the model states them)"""
    return clist('(%s,%s)' % (cstr(short(k)), cstr(short(v) if k.startswith("dummy-") else short(v, 44, 28))) for k, v in pairs)


def cstrs(items):
    return clist(cstr(short(x)) for x in items)


def domain_lit(d):
    name = "None" if d["name"] is None else "(Some %s)" % cstr(short(d["name"]))
    return "(D %s %s %s %s %s %s %s)" % (name, cstrs(d["reqs"]), cpairs(d["types"]), cpairs(d["consts"]),
                                         cpairs(d["preds"]), cpairs(d["funcs"]), cacts(d["acts"]))


def problem_lit(p):
    facts = clist("(%s,%s)" % (cstr(short(k)), cstrs(fs)) for k, fs in p["facts"])
    return "(P %s %s %s %s %s %s)" % (cstr(short(p["name"])), cpairs(p["objs"]), facts, cpairs(p["fluents"]),
                                      cstrs(p["goals"]), cstrs(p["ngoals"]))


def obs_lit(r, render):
    return "(Returned %s)" % render(r["ok"]) if r is not None and "ok" in r else "Raised"


def opt_lit(r, render):
    return "(Some %s)" % render(r["ok"]) if r is not None and "ok" in r else "None"


def others_lit(res, keys):
    return clist(cpairs(res[k]) for k in keys if k in res)


def rt_lit(res, obs_key, rt_key, render):
    """the re-parsed export of a returned combination; a missing entry means the export (or the parse) raised"""
    if "ok" not in res.get(obs_key, {}):
        return "Raised"
    return obs_lit(res.get(rt_key), render)


def dcase_lit(job, res):
    # names after the call and at the end of the job (after the exports, the problems, the re-parsing) must both be
    # the initial ones: the literal carries the union of the two observations
    fresh = cstrs(dict.fromkeys([k for k, _ in res["default_after"]["fresh"]] + [k for k, _ in res["default_end"]["fresh"]]))
    default = cstrs(dict.fromkeys([k for k, _ in res["default_after"]["DEFAULT_TYPES"]] +
                                  [k for k, _ in res["default_end"]["DEFAULT_TYPES"]]))
    return "(CD (DC %s %s %s %s %s %s %s %s %s %s %s))" % (
        cpairs(res["default_before"]["fresh"]), cbool(job["dummy"]),
        clist(obs_lit(r, domain_lit) for r in res["dfiles"]), obs_lit(res["dobs"], domain_lit),
        fresh, default,
        others_lit(res, ("others_expected", "others_before", "others_mid", "others_again_mid", "others_after", "others_again")),
        rt_lit(res, "dobs", "drt", domain_lit),
        ("(Some (%s, %s))" % (obs_lit(res["dobs2"], domain_lit), rt_lit(res, "dobs2", "drt2", domain_lit))
         if "dobs2" in res else "None"),
        opt_lit(res.get("dexpect"), domain_lit),
        clist("(%d%%N,%s,%s)" % (tag, cpairs(d["types"]), cpairs(d["sub"])) for tag, d in observed_domains(res)))


def observed_domains(res):
    """every Domain object the job looked at after the call: (what it is, its dump)"""
    # 0 the combination, 1 its re-parsed export, 2 / 3 the same with the other dummy setting (Corr/C17.v: sub_tag)
    return [(tag, res[k]["ok"]) for tag, k in enumerate(("dobs", "drt", "dobs2", "drt2")) if "ok" in res.get(k, {})]


def pcase_lit(job, res):
    return "(CP (PC %s %s %s %s %s %s))" % (
        clist(obs_lit(r, problem_lit) for r in res["pfiles"]), obs_lit(res["pobs"], problem_lit),
        rt_lit(res, "pobs", "prt", problem_lit),
        cstrs(dict.fromkeys([k for k, _ in res["default_after_problems"]["fresh"]] +
                            [k for k, _ in res["default_after_problems"]["DEFAULT_TYPES"]] +
                            [k for k, _ in res["default_end"]["fresh"]])),
        others_lit(res, ("others_expected", "others_before", "others_after", "others_again")),
        opt_lit(res.get("pexpect"), problem_lit))


class Table:
    """texts of one group, each once; a text crosses as its position (Corr/C17.v: tget / ES / EA / ED / EP)"""

    def __init__(self):
        self.index, self.items = {}, []
        self.shared, self.lets = {}, []

    def share(self, lit):
        """a section literal (list of positions) that occurs several times in the group - the combination, its re-parsed
        export, the other dummy setting share most sections in the same order - crosses once: let s<k> := lit in ..."""
        if len(lit) < 16:
            return lit
        v = self.shared.get(lit)
        if v is None:
            v = self.shared[lit] = "s%d" % len(self.lets)
            self.lets.append("let %s := %s in " % (v, lit))
        return v

    def __call__(self, text):
        i = self.index.get(text)
        if i is None:
            i = self.index[text] = len(self.items)
            self.items.append(text)
        return "%d" % i

    def lit(self):
        return clist(cstr(x) for x in self.items)


def e_strs(T, items):
    return T.share(clist(T(short(x)) for x in items))


def e_pairs(T, pairs, acts=False):
    out = []
    for k, v in pairs:
        out.append(T(short(k)))
        out.append(T(short(v) if not acts or k.startswith("dummy-") else short(v, 44, 28)))
    return T.share(clist(out))


def e_domain(T):
    def render(d):
        name = "None" if d["name"] is None else "(Some %s)" % T(short(d["name"]))
        return "(ED t %s %s %s %s %s %s %s)" % (name, e_strs(T, d["reqs"]), e_pairs(T, d["types"]), e_pairs(T, d["consts"]),
                                                e_pairs(T, d["preds"]), e_pairs(T, d["funcs"]), e_pairs(T, d["acts"], acts=True))
    return render


def e_problem(T):
    def render(p):
        facts = T.share(clist("(%s,%s)" % (T(short(k)), clist(T(short(x)) for x in fs)) for k, fs in p["facts"]))
        return "(EP t %s %s %s %s %s %s)" % (T(short(p["name"])), e_pairs(T, p["objs"]), facts, e_pairs(T, p["fluents"]),
                                             e_strs(T, p["goals"]), e_strs(T, p["ngoals"]))
    return render


def e_names(T, *states):
    return "(ES t %s)" % clist(dict.fromkeys(T(k) for st in states for k, _ in st))


def e_others(T, res, keys):
    return clist("(EA t %s)" % e_pairs(T, res[k]) for k in keys if k in res)


def drun_fields(T, job, res):
    dl = e_domain(T)
    return (cbool(job["dummy"]), obs_lit(res["dobs"], dl),
            e_names(T, res["default_after"]["fresh"], res["default_end"]["fresh"]),
            e_names(T, res["default_after"]["DEFAULT_TYPES"], res["default_end"]["DEFAULT_TYPES"]),
            e_others(T, res, ("others_expected", "others_before", "others_mid", "others_again_mid", "others_after", "others_again")),
            rt_lit(res, "dobs", "drt", dl),
            ("(Some (%s, %s))" % (obs_lit(res["dobs2"], dl), rt_lit(res, "dobs2", "drt2", dl)) if "dobs2" in res else "None"),
            clist("(%d,EA t %s,EA t %s)" % (tag, e_pairs(T, d["types"]), e_pairs(T, d["sub"]))
                  for tag, d in observed_domains(res)))


def prun_fields(T, job, res):
    pl = e_problem(T)
    return (obs_lit(res["pobs"], pl), rt_lit(res, "pobs", "prt", pl),
            e_names(T, res["default_after_problems"]["fresh"], res["default_after_problems"]["DEFAULT_TYPES"],
                    res["default_end"]["fresh"]),
            e_others(T, res, ("others_expected", "others_before", "others_after", "others_again")))


def group_cases(entries):
    """entries: (part 'd'|'p', job, res, case) in run order.  The runs of one directory share the per-file dumps (checked:
    a run whose dumps differ from the first run's opens a group of its own); each group crosses as one Coq literal
    (let t := [texts] in GD ... / GP ..., Corr/C17.v) with one verdict per run.  Returns (cases in verdict order,
    literals, units)."""
    groups, index = [], {}
    for part, job, res, case in entries:
        names, dumps = (res["dorder"], res["dfiles"]) if part == "d" else (res["porder"], res["pfiles"])
        files = dict(zip(names, dumps))
        expect = res.get("dexpect" if part == "d" else "pexpect")
        key = (part, job.get("dir"), json.dumps([sorted(files.items()), expect, res["default_before"]["fresh"]], sort_keys=True))
        if key not in index:
            index[key] = len(groups)
            groups.append({"part": part, "names": sorted(files), "files": files, "expect": expect,
                           "defaults": res["default_before"]["fresh"], "runs": []})
        g = groups[index[key]]
        g["runs"].append(([g["names"].index(n) for n in names], job, res, case))
    cases, lits, units = [], [], []
    for g in groups:
        T = Table()
        order_lit = lambda o: clist("%d" % i for i in o)     # noqa: E731
        if g["part"] == "d":
            dl = e_domain(T)
            runs = clist("(DR %s %s)" % (order_lit(o), " ".join(drun_fields(T, job, res))) for o, job, res, _ in g["runs"])
            body = "GD (EA t %s) %s %s %s" % (e_pairs(T, g["defaults"]), clist(obs_lit(g["files"][n], dl) for n in g["names"]),
                                             opt_lit(g["expect"], dl), runs)
        else:
            pl = e_problem(T)
            runs = clist("(PR %s %s)" % (order_lit(o), " ".join(prun_fields(T, job, res))) for o, job, res, _ in g["runs"])
            body = "GP %s %s %s" % (clist(obs_lit(g["files"][n], pl) for n in g["names"]), opt_lit(g["expect"], pl), runs)
        lits.append("(let t := %s in %s%s)" % (T.lit(), "".join(T.lets), body))
        units.append(len(g["runs"]))
        cases.extend(c for _, _, _, c in g["runs"])
    return cases, lits, units


def types_agree(dumps):
    parent = {}
    for d in dumps:
        if "ok" not in d:
            continue
        for k, chain_ in d["ok"]["types"]:
            p = chain_.split()[0] if chain_ else ""
            if parent.setdefault(k, p) != p:
                return False
    return True


def scase_lit(job, res):
    st = res["structured"]
    texts = [job["dfiles"][n] for n in res["dorder"]]
    nums = clist("(%s, %s)" % (cstr(k), chex(float.fromhex(v))) for k, v in sorted(st["nums"].items()))

    def ob(key):
        return "(Returned %s)" % cstr(st[key]) if key in st else "Raised"
    return "(SC %s %s %d %d %s %s %s %s)" % (clist(cstr(t) for t in texts), nums, st["dpre"], st["deff"], cbool(job["dummy"]),
                                             cbool(types_agree(res["dfiles"])), ob("vocab"), ob("rt_vocab"))


def pscase_lit(job, res):
    from . import c05 as C5
    ps = res["pstructured"]
    texts = [job["pfiles"][n] for n in res["porder"]]
    reprs = clist("(%s, %s)" % (chex(float.fromhex(h)), cstr(s_)) for h, s_ in sorted(ps["reprs"].items()))

    def dump(key):
        return "(Returned %s)" % C5.cpdump(ps[key]) if key in ps else "Raised"
    return "(PS %s %s %s %s %s %s %s)" % (
        C5.cvocab(ps["vocab"]), clist(cstr(t) for t in texts), C5.cnums(ps["nums"]), reprs, dump("obs"),
        "(Returned %s)" % cstr(ps["export"]) if "export" in ps else "Raised", dump("rt"))


def nontrivial_maps(dumps, sections):
    """>= 2 files, some name shared by two files and some name held by one file only"""
    oks = [d["ok"] for d in dumps if "ok" in d]
    if len(oks) < 2:
        return False
    count = {}
    for d in oks:
        for s in sections:
            for k, _ in d[s]:
                if (s, k) != ("types", "object"):
                    count[(s, k)] = count.get((s, k), 0) + 1
    return any(c >= 2 for c in count.values()) and any(c == 1 for c in count.values())


def type_refs(text):
    """type names an entry text mentions (the concrete reading used by C17_example_wellformed): the words after '-'
    of a typed list, or every word of a type chain / type name"""
    if "..#" in text:
        return None
    ws_ = text.replace("(", " ").replace(")", " ").split()
    if "(" in text:
        return [ws_[i + 1] for i in range(len(ws_) - 1) if ws_[i] == "-"]
    return ws_


def closed_dump(d):
    """hypothesis of C17_wellformed_domains on a vocabulary dump, for the sections whose texts are never abbreviated"""
    names = {k for k, _ in d["types"]}
    for sec in ("types", "consts", "preds", "funcs"):
        for _, v in d[sec]:
            r = type_refs(v)
            if r is None or any(x not in names for x in r):
                return False
    return True


# ------------------------------------------------------------------------------------------------
def run(args):
    rep = Report(PROP, args.tier, args.seed)
    timing, t_last = {}, [time.time()]

    def lap(name):
        timing[name] = round(time.time() - t_last[0], 1)
        t_last[0] = time.time()
    if not args.replay:
        shutil.rmtree(WORK / PROP / "replays", ignore_errors=True)
    standard_proof_part(rep, PROP)
    lap("proof_part")
    rng = random.Random(args.seed * 104729 + 17)
    if args.replay:
        data = json.load(open(args.replay))
        jobs = [data["input"]["job"]]
        jobs[0]["keep"] = True
    else:
        jobs = build_jobs(rng, args.tier)
    results = run_impl(jobs, hashseed=args.seed % 5, nproc=min(NCPU, max(1, len(jobs) // 12)))
    lap("implementation")
    entries, cross = [], {}
    for job, res in zip(jobs, results):
        if "default_before" not in res:     # the op itself failed
            p = write_replay(PROP, "op_failed_%s" % job["case"], {"kind": "correspondence", "why": "implementation driver failed",
                                                                 "input": {"job": job, "implementation": res}})
            rep.violation(p, False)
            continue
        slim = dict(res)
        entries.append(("d", job, res, {
            "lit": dcase_lit(job, res), "input": {"job": job, "part": "domains", "implementation": slim},
            "nontrivial": nontrivial_maps(res["dfiles"], ("types", "consts", "preds", "funcs", "acts")), "witness_of": None}))
        if "pobs" in res:
            entries.append(("p", job, res, {
                "lit": pcase_lit(job, res), "input": {"job": job, "part": "problems", "implementation": slim},
                "nontrivial": nontrivial_maps(res["pfiles"], ("objs", "fluents")), "witness_of": None}))
        cross.setdefault(job.get("dir"), []).append((job, res))
    # the runs of a directory cross as one literal (per-file dumps once); cases[i] keeps the stand-alone literal of run i
    # for the replay's explanation
    cases, glits, gunits = group_cases(entries)
    verdicts, info = run_case_shards(PROP, "Corr.C17", glits, shard_size=14, max_bytes=45_000, units=gunits,
                                     run_fn="run_groups", header_extra="Open Scope N_scope.\n")
    lap("coq_dump_cases")
    timing["dump_case_literal_bytes"] = sum(len(x) for x in glits)
    timing["dump_case_shards"] = info.get("shards")
    decide(rep, PROP, "Corr.C17", cases, verdicts, info, explain_expr="explain %s")
    lap("decide_dump_cases")
    # structured correspondence: the model parses the texts itself, combines, exports (C08's exporter model), re-parses
    scases = []
    for job, res in zip(jobs, results):
        if "structured" in res and "nums" in res["structured"]:
            lit = scase_lit(job, res)
            nt = nontrivial_maps(res["dfiles"], ("types", "consts", "preds", "funcs", "acts"))
            for unit in ("combine", "wf", "reparse"):
                scases.append({"lit": lit, "input": {"job": job, "part": "structured:" + unit,
                                                     "implementation": {k: res.get(k) for k in ("structured", "dorder", "dobs", "dexport", "drt")}},
                               "nontrivial": nt and unit == "combine", "witness_of": None})
    if scases:
        lits = [c["lit"] for c in scases[::3]]
        hdr = "From Coq Require Import PrimFloat.\n"
        sverdicts, sinfo = run_case_shards(PROP, "Corr.C17s", lits, shard_size=40, max_bytes=110_000, units=[3] * len(lits),
                                           header_extra=hdr)
        vc1, dn1 = dict(rep.coverage.get("verdict_counts", {})), rep.coverage.get("distinct_nontrivial", 0)
        lap("coq_structured_cases")
        decide(rep, PROP, "Corr.C17s", scases, sverdicts, sinfo, explain_expr="explain %s", header_extra=hdr)
        vc2 = rep.coverage.get("verdict_counts", {})
        rep.coverage["verdict_counts"] = {k: vc1.get(k, 0) + vc2.get(k, 0) for k in set(vc1) | set(vc2)}
        rep.coverage["verdict_counts_structured"] = vc2
        rep.coverage["distinct_nontrivial"] = dn1 + rep.coverage.get("distinct_nontrivial", 0)
    # structured correspondence for problems: the model's problem parser reads the agent problem texts, the model combines,
    # exports (C09's exporter model) and re-parses
    pcases = []
    for job, res in zip(jobs, results):
        if "pstructured" in res and "vocab" in res["pstructured"]:
            lit = pscase_lit(job, res)
            nt = nontrivial_maps(res["pfiles"], ("objs", "fluents"))
            for unit in ("combine", "export", "reparse"):
                pcases.append({"lit": lit, "input": {"job": job, "part": "structured-problems:" + unit,
                                                     "implementation": {k: res.get(k) for k in ("pstructured", "porder", "pobs", "prt")}},
                               "nontrivial": nt and unit == "combine", "witness_of": None})
    if pcases:
        lits = [c["lit"] for c in pcases[::3]]
        hdr = "From Coq Require Import PrimFloat.\nFrom Verif Require Import Spec.Pddl Spec.Problem.\n"
        pverdicts, pinfo = run_case_shards(PROP, "Corr.C17p", lits, shard_size=30, max_bytes=60_000, units=[3] * len(lits),
                                           header_extra=hdr)
        lap("coq_structured_problem_cases")
        vc1, dn1 = dict(rep.coverage.get("verdict_counts", {})), rep.coverage.get("distinct_nontrivial", 0)
        decide(rep, PROP, "Corr.C17p", pcases, pverdicts, pinfo, explain_expr="explain %s", header_extra=hdr)
        vc2 = rep.coverage.get("verdict_counts", {})
        rep.coverage["verdict_counts"] = {k: vc1.get(k, 0) + vc2.get(k, 0) for k in set(vc1) | set(vc2)}
        rep.coverage["verdict_counts_structured_problems"] = vc2
        rep.coverage["distinct_nontrivial"] = dn1 + rep.coverage.get("distinct_nontrivial", 0)
    # order independence observed directly: the agreeing directories give the same maps under every order
    order_groups, order_pairs = 0, 0
    for d, runs in cross.items():
        if len(runs) < 2 or runs[0][0].get("conflict") or runs[0][0].get("pconflict"):
            continue
        order_groups += 1

        def canon(res, dummy):
            out = []
            d = res.get("dobs", {}).get("ok")
            if d is not None:
                out.append({s: sorted(tuple(x) for x in d[s] if not x[0].startswith("dummy-"))
                            for s in ("types", "consts", "preds", "funcs", "acts")})
            else:
                out.append(None)
            q = res.get("pobs", {}).get("ok")
            if q is not None:
                out.append({"objs": sorted(map(tuple, q["objs"])),
                            "facts": sorted(f for _, fs in q["facts"] for f in fs),
                            "fluents": sorted(map(tuple, q["fluents"])), "goals": sorted(q["goals"]),
                            "ngoals": sorted(q["ngoals"])})
            else:
                out.append(None)
            return json.dumps(out, sort_keys=True)
        ref = canon(runs[0][1], runs[0][0]["dummy"])
        for job, res in runs[1:]:
            order_pairs += 1
            if canon(res, job["dummy"]) != ref:
                p = write_replay(PROP, "order_%s" % job["case"], {
                    "kind": "input", "why": "the combination differs between two discovery orders of the same agreeing files",
                    "input": {"job": job, "implementation": res, "other_order": runs[0][0].get("dorder"),
                              "other_implementation": runs[0][1]}})
                rep.violation(p, True)
                break
    cov = rep.coverage
    gen = [j for j in jobs if j.get("kind") == "generated"]
    dist = {"jobs": len(jobs), "directories": len(cross), "fixture_jobs": len(jobs) - len(gen),
            "files_per_directory": {}, "forced_orders": sum(1 for j in jobs if j.get("dorder")),
            "real_orders": sum(1 for j in jobs if not j.get("dorder")),
            "dummy_on": sum(1 for j in jobs if j["dummy"]), "dummy_off": sum(1 for j in jobs if not j["dummy"]),
            "domain_conflicts": {}, "problem_conflicts": {}}
    seen_dirs = set()
    real_not_sorted = 0
    distinct_orders = set()
    for j, r in zip(jobs, results):
        if "dorder" in r:
            distinct_orders.add((j.get("dir"), tuple(r["dorder"])))
        if not j.get("dorder") and r.get("real_dorder") and r["real_dorder"] != sorted(r["real_dorder"]):
            real_not_sorted += 1
        if j.get("dir") in seen_dirs:
            continue
        seen_dirs.add(j.get("dir"))
        dist["files_per_directory"][str(j["n"])] = dist["files_per_directory"].get(str(j["n"]), 0) + 1
        if j.get("conflict"):
            dist["domain_conflicts"][j["conflict"]] = dist["domain_conflicts"].get(j["conflict"], 0) + 1
        if j.get("pconflict"):
            dist["problem_conflicts"][j["pconflict"]] = dist["problem_conflicts"].get(j["pconflict"], 0) + 1
    dist["distinct_directory_x_order"] = len(distinct_orders)
    dist["real_discovery_order_not_sorted"] = real_not_sorted
    dist["outcomes"] = {
        "domains_returned": sum(1 for r in results if "ok" in r.get("dobs", {})),
        "domains_raised": sum(1 for r in results if "raised" in r.get("dobs", {})),
        "problems_returned": sum(1 for r in results if "ok" in r.get("pobs", {})),
        "problems_raised": sum(1 for r in results if "raised" in r.get("pobs", {})),
        "agent_files_not_parsing": sum(1 for r in results for f in r.get("dfiles", []) + r.get("pfiles", []) if "raised" in f),
        "round_trips_checked": sum(1 for r in results for k in ("drt_same", "prt_same") if k in r),
        "shared_numeric_goal": sum(1 for r in results if "pfiles" in r and len(
            [g for f in r["pfiles"] if "ok" in f for g in set(f["ok"]["ngoals"])]) > len(
            {g for f in r["pfiles"] if "ok" in f for g in f["ok"]["ngoals"]})),
    }
    def object_before_other(consts):
        seen_obj = False
        for _, t in consts:
            if t == "object":
                seen_obj = True
            elif seen_obj:
                return True
        return False

    def near_dups(ngoals):
        printed = [g.split(" #")[0] for g in set(ngoals)]
        return len(printed) > len(set(printed))
    def types_section(text):
        """[(type, parent | None)] in declaration order, of one agent file"""
        m_ = re.search(r"\(:types([^()]*)\)", text)
        if not m_:
            return []
        toks, out, run_ = m_.group(1).split(), [], []
        i = 0
        while i < len(toks):
            if toks[i] == "-" and i + 1 < len(toks):
                out += [(t, toks[i + 1]) for t in run_]
                run_, i = [], i + 2
            else:
                run_.append(toks[i])
                i += 1
        return out + [(t, None) for t in run_]

    def child_first(decl):
        pos = {t: i for i, (t, _) in enumerate(decl)}
        return any(p in pos and pos[p] > i for i, (_, p) in enumerate(decl))

    def implicit_parent(decl):
        declared = {t for t, _ in decl}
        return any(p and p != "object" and p not in declared for _, p in decl)
    gen_files = {(j.get("dir"), n): t for j in jobs if j.get("kind") == "generated" for n, t in j["dfiles"].items()}
    decls = [types_section(t) for t in gen_files.values()]
    depth = max([len(c.split()) for r in results if "ok" in r.get("dobs", {}) for _, c in r["dobs"]["ok"]["types"]] or [0])
    dist["type_declarations"] = {
        "generated_agent_files": len(decls),
        "files_declaring_some_type_before_its_parent": sum(1 for d in decls if child_first(d)),
        "files_with_a_parent_named_on_right_hand_sides_only": sum(1 for d in decls if implicit_parent(d)),
        "jobs_whose_first_found_file_declares_a_type_before_its_parent": sum(
            1 for j, r in zip(jobs, results) if j.get("kind") == "generated" and r.get("dorder") and
            child_first(types_section(j["dfiles"][r["dorder"][0]]))),
        "deepest_ancestor_chain_in_a_combination": depth,
        "combinations_with_a_chain_of_3_or_more": sum(
            1 for r in results if "ok" in r.get("dobs", {}) and any(len(c.split()) >= 3 for _, c in r["dobs"]["ok"]["types"])),
        "subtype_tables_compared_in_coq": sum(len(observed_domains(r)) for r in results if "dobs" in r),
    }
    def collisions(j, r):
        """(problem file, object, its type, the constant's type in the combination, own domain declares the constant)
        for every object of an agent's problem file that is named like a constant of the combined domain"""
        if "ok" not in r.get("dobs", {}) or "pfiles" not in r or j.get("domain_path"):
            return []
        consts = dict(map(tuple, r["dobs"]["ok"]["consts"]))
        own = {n.split("-", 1)[1]: ({k for k, _ in f["ok"]["consts"]} if "ok" in f else set())
               for n, f in zip(r["dorder"], r["dfiles"])}
        return [(n, o, t, consts[o], o in own.get(n.split("-", 1)[1], set()))
                for n, f in zip(r["porder"], r["pfiles"]) if "ok" in f for o, t in f["ok"]["objs"] if o in consts]
    coll = [(j, r, collisions(j, r)) for j, r in zip(jobs, results)]
    coll = [(j, r, c) for j, r, c in coll if c]
    dist["object_named_like_a_constant"] = {
        "directories": len({j.get("dir") for j, _, _ in coll}),
        "jobs": len(coll),
        "agent_problem_files_declaring_such_an_object": sum(len({c[0] for c in cs}) for _, _, cs in coll),
        "declared_with_the_constants_type": sum(1 for _, _, cs in coll for c in cs if c[2] == c[3]),
        "declared_with_another_type": sum(1 for _, _, cs in coll for c in cs if c[2] != c[3]),
        "constant_declared_by_the_same_agents_domain_file": sum(1 for _, _, cs in coll for c in cs if c[4]),
        "constant_declared_by_other_agents_domain_files_only": sum(1 for _, _, cs in coll for c in cs if not c[4]),
        "combined_problems_exported_and_reparsed_with_such_an_object": sum(
            1 for j, r, cs in coll if "ok" in r.get("prt", {}) and "ok" in r.get("pobs", {}) and
            any(o in {c[1] for c in cs} for o, _ in r["pobs"]["ok"]["objs"])),
        "directories_in_which_a_file_mentions_the_name_without_listing_it": len({
            j.get("dir") for j, r, cs in coll for n, txt in j["pfiles"].items()
            if any(mentioned(txt.split("(:init", 1)[-1], [c[1]]) and not mentioned(txt.split("(:init", 1)[0], [c[1]]) for c in cs)}),
    }
    dist["new_classes"] = {
        "untyped_directories": len({j.get("dir") for j in jobs if j.get("untyped")}),
        "combinations_with_a_constant_of_type_object": sum(
            1 for r in results if "ok" in r.get("dobs", {}) and any(t == "object" for _, t in r["dobs"]["ok"]["consts"])),
        "combinations_with_an_object_typed_constant_before_a_constant_of_another_type": sum(
            1 for r in results if "ok" in r.get("dobs", {}) and object_before_other(r["dobs"]["ok"]["consts"])),
        "agent_files_declaring_a_constant_bare_at_the_end": sum(
            1 for j in jobs for t in j["dfiles"].values() if re.search(r"\(:constants [^()]*[^()\s-]\s+[^()\s-]+\)", t) and
            not re.search(r"\(:constants [^()]*-\s+[^()\s]+\)", t)) if False else None,
        "combinations_with_an_object_typed_object_before_an_object_of_another_type": sum(
            1 for r in results if "ok" in r.get("pobs", {}) and object_before_other(r["pobs"]["ok"]["objs"])),
        "combined_problems_with_distinct_numeric_goals_that_print_alike": sum(
            1 for r in results if "ok" in r.get("pobs", {}) and near_dups(r["pobs"]["ok"]["ngoals"])),
        "directories_with_near_duplicate_numeric_goals": len({j.get("dir") for j in jobs if j.get("near")}),
        "jobs_with_both_dummy_settings": sum(1 for r in results if "dobs2" in r),
        "exports_reparsed": sum(1 for r in results for k in ("drt", "drt2", "prt") if k in r),
        "unrelated_domains_per_job": max([len(j.get("others", {})) for j in jobs] or [0]),
        "directories_by_split_mode": {m: len({j.get("dir") for j in jobs if j.get("split") == m})
                                      for m in ("mixed", "full", "disjoint")},
    }
    del dist["new_classes"]["agent_files_declaring_a_constant_bare_at_the_end"]
    sizes = [len(r["dobs"]["ok"][s]) for r in results if "ok" in r.get("dobs", {}) for s in ("types", "preds", "acts")]
    dist["combined_section_size_max"] = max(sizes) if sizes else 0
    wf_all, wf_comb = 0, 0
    for r in results:
        if "ok" in r.get("dobs", {}) and r.get("dfiles") and all("ok" in f for f in r["dfiles"]):
            if all(closed_dump(f["ok"]) for f in r["dfiles"]):
                wf_all += 1
                wf_comb += closed_dump(r["dobs"]["ok"])
    dist["wellformedness"] = {"jobs_with_all_files_closed_under_type_references": wf_all,
                              "of_which_the_combination_is_closed_too": wf_comb}
    kinds = {}
    for j in jobs:
        kinds[j.get("kind")] = kinds.get(j.get("kind"), 0) + 1
    dist["jobs_by_kind"] = kinds
    dist["structured_cases"] = len(scases) // 3
    dist["structured_problem_cases"] = len(pcases) // 3
    dist["order_independence_groups"] = order_groups
    dist["order_independence_pairs_compared"] = order_pairs
    cov["input_distribution"] = dist
    cov["timing_s"] = timing
    cov["exhaustive"] = False    # the small scope above is complete (thorough), the generated directories are a sample
    cov["rule"] = ("random typed domains (1-7 types in a forest or - 40 % - mostly in chains, 3-6 levels deep; every agent file writes "
                   "its (:types ...) section in one of the orders the language allows: parents first, every child before its parent, "
                   "shuffled; object-parented parents left implicit - named on right-hand sides only - in 35 % of the files; "
                   "conflict class: a file names a type as a parent and leaves its declaration to another file; constants, 2-6 predicates, 0-3 functions, 1-6 actions with an agent "
                   "parameter, numeric conditions/effects) and problems (objects, facts, fluent values, goal literals, numeric goals) split "
                   "into 1-4 overlapping per-agent files (public/private parts, :private blocks, differing :requirements, shuffled "
                   "sections; 30 % of the problems over a domain with constants list 1-2 OBJECTS named like a domain CONSTANT, with the constant's type or another one, in the files the split picks - the same agent's domain may declare the constant or only another agent's); 20% of the directories carry one conflicting redefinition (predicate/constant/action/type; fluent value, object type); "
                   "every directory is combined under the file system's own discovery order and under forced orders (quick: 3, thorough: "
                   "all n! for n<=3, 12 of 24 for n=4; the problems get an independent order), dummy actions on in 35% of the jobs; the "
                   "shipped multi-agent fixture directories and hand-made witness directories (repaired findings D18/D27, files that differ "
                   "in :requirements / names) are included; thorough adds a small scope enumerated completely: all 576 ways to give the two "
                   "actions, an unused predicate, a constant and an unused type of a tiny domain to two agents and all 729 ways to give two "
                   "facts, a fluent value, two goal literals and a numeric goal to them, each under both orders.  Each job yields a domain case and a problem case; for one order (thorough: the first two orders) of every non-fixture directory (every "
                   "third directory of the exhaustive scope) also a structured case: the agent file TEXTS are parsed by the model's domain parser, "
                   "combined, exported by C08's exporter model and parsed again inside Coq (3 verdict units: combine / wf / reparse).  Non-trivial: "
                   ">= 2 parsed files with a name shared by two files and a name private to one; distinct by input hash.")
    cov["samples"] = [{"files": {k: v for k, v in list(c["input"]["job"]["dfiles"].items())[:2]},
                       "order": c["input"]["implementation"].get("dorder"), "dummy": c["input"]["job"]["dummy"],
                       "combined": c["input"]["implementation"].get("dobs")}
                      for c in cases if c["input"]["job"].get("kind") == "generated" and c["input"]["part"] == "domains"][:2]
    cov["samples"] += [{"files": {k: v for k, v in list(c["input"]["job"]["pfiles"].items())[:2]},
                        "order": c["input"]["implementation"].get("porder"),
                        "combined": c["input"]["implementation"].get("pobs")}
                       for c in cases if c["input"]["job"].get("kind") == "generated" and c["input"]["part"] == "problems"][:1]
    cov["explanation"] = ("theorems C17_* (Props/C17.v) proved for all lists of per-agent vocabularies on the Coq model of the two "
                          "converters and of Domain()/DEFAULT_TYPES; the model is tied to the repository by the cases above (model result "
                          "and union spec evaluated inside Coq on the implementation's per-file dumps and combined result)")
    rep.assumptions = [
        "dump-level cases: each per-agent file is parsed by the implementation and its vocabulary dump is the model's input (parsing is the subject of C01/C05/C06); structured cases: the model's own domain parser (Model/Domain.v) reads the texts, float() of the numerals is supplied by the harness",
        "entries are compared through canonical texts produced by harness/ops_c17.py (texts longer than 110 characters through a SHA-1 digest)",
        "the order in which Path.glob enumerates a directory is observed (own glob call on the unchanged directory) or forced by wrapping Path.glob; it is a parameter of the model",
        "iteration order of hash sets (goal literals, facts) is not modelled: those observables are compared as sets",
    ]
    return rep.finish()
