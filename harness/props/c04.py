"""C04 — a plan is turned into the trajectory that the transition function dictates."""
import json
import random

from ..common import (REPO, Report, cbool, chex, clist, cstr, coq_eval, decide, load_findings, run_case_shards,
                      run_impl, standard_proof_part)
from .. import pddlgen as G
from ..core_common import catom, cstate

PROP = "C04"
CORR = "Corr.C04"
HEADER = "From Coq Require Import PrimFloat.\nFrom Verif Require Import Spec.Pddl Model.Plan.\n"

# the planner plans shipped with the repository, with their domain / problem pairs (tests/exporters_tests/consts.py)
FIXTURES = [
    ("elevators", "elevators_domain.pddl", "elevators_p03.pddl", "elevators_p03_plan.solution"),
    ("depot", "depot_numeric.pddl", "pfile2.pddl", "depot_numeric.solution"),
    ("depot-faulty", "depot_numeric.pddl", "pfile2.pddl", "depot_numeric_faulty.solution"),
    ("miconic", "domain_miconic.pddl", "miconic_problem.pddl", "miconic_solution.solution"),
    ("minecraft", "minecraft_domain.pddl", "minecraft_problem.pddl", "minecraft_pfile0.solution"),
    ("spider", "domain_spider.pddl", "pfile01_spider.pddl", "pfile01_spider.solution"),
]
FIXTURE_DIR = "tests/exporters_tests"


# ------------------------------------------------------------------------------------------------ generation
def blanks(rng):
    return rng.choice([" ", " ", "  ", "\t", " \t ", "   "])


def render_line(rng, name, args, noise):
    toks = [name] + list(args)
    if not noise:
        return "(" + " ".join(toks) + ")\n"
    toks = [t.upper() if rng.random() < 0.3 else (t.capitalize() if rng.random() < 0.1 else t) for t in toks]
    s = "("
    if rng.random() < 0.3:
        s += blanks(rng)
    s += toks[0]
    for t in toks[1:]:
        s += (blanks(rng) if rng.random() < 0.4 else " ") + t
    if rng.random() < 0.3:
        s += blanks(rng)
    s += ")"
    if rng.random() < 0.2:
        s = blanks(rng) + s
    return s + rng.choice(["\n", "\n", "\n", "", " \n", "\r\n", "\t\n"])


MALFORMED = ["unknown-action", "blank-line", "missing-arg", "surplus-arg", "no-parens", "trailing-text",
             "only-parens", "double-parens"]


def corrupt(rng, w, calls, kind):
    """one malformed plan line; returns (line, must_raise)"""
    name, args = rng.choice(calls)
    if kind == "unknown-action":
        return "(zz-unknown %s)\n" % " ".join(args), True
    if kind == "blank-line":
        return rng.choice(["\n", "", "   \n"]), True
    if kind == "only-parens":
        return "()\n", True
    if kind == "missing-arg":
        return "(%s)\n" % " ".join([name] + list(args[:-1])), False
    if kind == "surplus-arg":
        return "(%s)\n" % " ".join([name] + list(args) + [rng.choice(["o0", "zz"])]), False
    if kind == "no-parens":
        return " ".join([name] + list(args)) + "\n", False
    if kind == "trailing-text":
        return "(%s) ; cost 1\n" % " ".join([name] + list(args)), False
    if kind == "double-parens":
        return "((%s))\n" % " ".join([name] + list(args)), False
    raise ValueError(kind)


def all_calls(rng, w, objs):
    out = []
    for a in w.actions:
        for args in G.calls_for(rng, w, objs, a, limit=40):
            out.append((a["name"], args))
    return out


def numeric_actions(w):
    def flat(t):
        if isinstance(t, str):
            yield t
        else:
            for x in t:
                yield from flat(x)
    return [a["name"] for a in w.actions if any(x in ("assign", "increase", "decrease") for x in flat(a["eff"]))]


def plant_enabler(rng, w, info):
    """an action that moves the fluent the read-write action's precondition looks at, so that the same grounded call
    can be refused first and executed later (and the other way round)"""
    F = info["F"]
    params = [p for p in info["params"] if p[0] in F[1:]]
    name = "en%d" % len(w.actions)
    guard = info["pre"][1][0] if len(info["pre"]) > 1 else None
    if guard in (">=", ">"):
        eff = rng.choice([["increase", F, "3"], ["assign", F, "5"]])
    elif guard in ("<=", "<"):
        eff = rng.choice([["decrease", F, "3"], ["assign", F, "0"], ["assign", F, "-1"]])
    else:
        eff = rng.choice([["increase", F, "2"], ["assign", F, "2"], ["decrease", F, "3"], ["assign", F, "0"]])
    w.actions.append({"name": name, "params": params, "group": False, "pre": ["and"], "eff": ["and", eff]})
    return name


def repeat_cases(rng, tier):
    """plans in which the SAME grounded call with numeric effects is executed twice or more (in a row and with other
    steps between), is refused and executed later, executed and refused later; the action's conditional / universal
    effects read what its unconditional group writes (props/c03.plant_read_write)"""
    from .c03 import plant_read_write
    cases = []
    for _ in range({"quick": 8, "thorough": 80}[tier]):
        w = G.gen_world(rng, max_actions=2)
        info = plant_read_write(rng, w, guarded=rng.random() < 0.7)
        en = plant_enabler(rng, w, info)
        objs = G.gen_objects(rng, w)
        calls = all_calls(rng, w, objs)
        rw_calls = [c for c in calls if c[0] == info["name"]]
        if not rw_calls:
            continue
        st = G.gen_state(rng, w, objs)
        guard = info["pre"][1] if len(info["pre"]) > 1 else None
        if guard is not None and rng.random() < 0.6:
            # start where the guarded call is refused: the enabler makes it applicable later
            bad = float(guard[2]) + 2.0 if guard[0] in ("<=", "<") else float(guard[2]) - 2.0
            st["fluents"] = [(f, a, bad if f == "rf" else v) for f, a, v in st["fluents"]]
        base = {"domain_text": G.render(w.domain_tree("dom"), rng, True), "problem_text": G.problem_text(w, objs, st, domain="dom"),
                "objects": [list(o) for o in objs], "init": st, "features": sorted(w.features), "numeric_actions": numeric_actions(w)}
        for _k in range(2):
            c = rng.choice(rw_calls)
            e = (en, [a for (p, _), a in zip(info["params"], c[1]) if p in info["F"][1:]])
            o = rng.choice(calls)
            plan = rng.choice([[c, c, c], [c, c, c, c], [c, e, c, c], [c, c, e, c], [c, e, e, c, c], [c, o, c, e, c, c], [e, c, c, o, c]])
            noise = rng.random() < 0.4
            lines = [render_line(rng, n, a, noise) for n, a in plan]
            for allow in (False, True):
                cases.append(dict(base, kind="repeat", lines=lines, calls=plan, allow=allow, strict=True, expect_raise=False,
                                  noise=noise))
    return cases


def shape_cases(rng, tier):
    """actions whose precondition is of ONE kind only (only (in)equalities between parameters, only a forall, only a nested
    'or', only numeric comparisons, empty ...; harness/guardgen.py), walked by random plans whose steps violate them (the same
    object for both compared parameters) and satisfy them, both switch values"""
    from ..guardgen import SHAPES, shape_preconditions
    cases = []
    for i in range({"quick": len(SHAPES), "thorough": 8 * len(SHAPES)}[tier]):
        for _try in range(8):
            w = G.gen_world(rng, max_actions=2)
            shapes = shape_preconditions(rng, w, shapes=[SHAPES[i % len(SHAPES)]])      # every shape in every run
            objs = G.gen_objects(rng, w)
            calls = all_calls(rng, w, objs)
            if calls and SHAPES[i % len(SHAPES)] in shapes:
                break
        if not calls:
            continue
        st = G.gen_state(rng, w, objs)
        base = {"domain_text": G.render(w.domain_tree("dom"), rng, True), "problem_text": G.problem_text(w, objs, st, domain="dom"),
                "objects": [list(o) for o in objs], "init": st, "features": sorted(w.features), "numeric_actions": numeric_actions(w),
                "guard_shapes": shapes}
        same = [c for c in calls if c[1][-1] == c[1][-2]]
        diff = [c for c in calls if c[1][-1] != c[1][-2]]
        for _k in range(1 if tier == "quick" else 2):
            plan = [rng.choice(same if (same and (i % 2 == 0 or not diff)) else diff) for i in range(rng.choice([3, 4, 5, 6]))]
            rng.shuffle(plan)
            noise = rng.random() < 0.4
            lines = [render_line(rng, n, a, noise) for n, a in plan]
            for allow in (False, True):
                cases.append(dict(base, kind="guard-shape", lines=lines, calls=plan, allow=allow, strict=True, expect_raise=False,
                                  noise=noise))
    return cases


def boundary_cases(rng, tier):
    """plans over BOUNDARY OBJECT TABLES: a problem without objects ('(:objects)': the exporter hands an EMPTY table to every
    Operator - quantified conditions and forall-when effects must then range over the domain's constants), with and without
    constants of the quantified type, and a quantified type that nothing inhabits (props/c03.boundary_table); and plans over
    actions whose quantified variables SHADOW an action parameter / an enclosing quantified variable (props/c03.plant_shadow)"""
    from .c03 import boundary_table, plant_read_write, plant_shadow, plant_when_forall, shadows
    cases = []
    per = {"quick": 2, "thorough": 16}[tier]
    for mode in ("empty+constants", "empty-constants", "uninhabited", "shadow"):
        k, tries = 0, 0
        while k < per and tries < 400:
            tries += 1
            w = G.gen_world(rng, max_actions=2)
            if k % 2 == 1:
                plant_read_write(rng, w)
            elif rng.random() < 0.5:
                plant_when_forall(rng, w)
            if mode == "shadow":
                if not plant_shadow(rng, w) or not any(shadows(a) for a in w.actions):
                    continue
                objs = G.gen_objects(rng, w, n=3)
            else:
                if rng.random() < 0.25:
                    plant_shadow(rng, w, how_many=1)
                tab = boundary_table(rng, w, mode)
                if tab is None:
                    continue
                objs = tab[0]
            quantified = [a["name"] for a in w.actions if any(x == "forall" for x in flat_tokens(a["eff"]))]
            calls = all_calls(rng, w, objs)
            qcalls = [c for c in calls if c[0] in quantified]
            if not qcalls:
                continue
            st = G.gen_state(rng, w, objs)
            base = {"domain_text": G.render(w.domain_tree("dom"), rng, True), "problem_text": G.problem_text(w, objs, st, domain="dom"),
                    "objects": [list(o) for o in objs], "init": st, "features": sorted(w.features), "numeric_actions": numeric_actions(w)}
            plan = [rng.choice(qcalls if rng.random() < 0.7 else calls) for _ in range(rng.choice([2, 3, 4, 5]))]
            noise = rng.random() < 0.4
            lines = [render_line(rng, n, a, noise) for n, a in plan]
            for allow in (False, True):
                cases.append(dict(base, kind=("shadow" if mode == "shadow" else "object-table:" + mode), lines=lines, calls=plan,
                                  allow=allow, strict=True, expect_raise=False, noise=noise))
            k += 1
    return cases


def flat_tokens(t):
    if isinstance(t, str):
        yield t
    else:
        for x in t:
            yield from flat_tokens(x)


def gen_cases(rng, tier):
    n_worlds = {"quick": 30, "thorough": 170}[tier]
    cases = []
    tries = 0
    while len([c for c in cases if c["kind"] == "walk"]) < n_worlds * 6 and tries < n_worlds * 3:
        tries += 1
        w = G.gen_world(rng, max_actions=3)
        objs = G.gen_objects(rng, w)
        calls = all_calls(rng, w, objs)
        if not calls:
            continue
        st = G.gen_state(rng, w, objs)
        dtext = G.render(w.domain_tree("dom"), rng, True)
        ptext = G.problem_text(w, objs, st, domain="dom")
        base = {"domain_text": dtext, "problem_text": ptext, "objects": [list(o) for o in objs], "init": st,
                "features": sorted(w.features), "numeric_actions": numeric_actions(w)}
        for k in range(3):
            length = rng.choice([0, 1, 2, 3, 4, 5, 6, 8]) if k else rng.choice([3, 4, 5, 6])
            plan = [rng.choice(calls) for _ in range(length)]
            noise = rng.random() < 0.6
            lines = [render_line(rng, n, a, noise) for n, a in plan]
            for allow in (False, True):
                cases.append(dict(base, kind="walk", lines=lines, calls=plan, allow=allow, strict=True,
                                  expect_raise=False, noise=noise))
        # one malformed line planted at a random position of a short plan
        kind = rng.choice(MALFORMED)
        plan = [rng.choice(calls) for _ in range(rng.randint(0, 3))]
        lines = [render_line(rng, n, a, False) for n, a in plan]
        bad, must_raise = corrupt(rng, w, calls, kind)
        pos = rng.randint(0, len(lines))
        lines.insert(pos, bad)
        cases.append(dict(base, kind="malformed:" + kind, lines=lines, calls=None, allow=rng.random() < 0.5,
                          strict=False, expect_raise=must_raise, noise=False))
    return cases


def fixture_cases(tier):
    out = []
    for name, dom, prob, plan in FIXTURES:
        limit = {"quick": 12, "thorough": 0}[tier]
        if name in ("spider", "elevators", "miconic"):      # ~1000 facts per state: set comparison inside Coq is quadratic
            limit = {"quick": 3, "thorough": 6}[tier]
        for allow in ((False,) if tier == "quick" else (False, True)):
            out.append({"kind": "fixture:" + name, "domain_path": str(REPO / FIXTURE_DIR / dom),
                        "problem_path": str(REPO / FIXTURE_DIR / prob), "plan_path": str(REPO / FIXTURE_DIR / plan),
                        "max_lines": limit, "allow": allow, "strict": True, "expect_raise": False, "noise": False,
                        "features": ["fixture"]})
    return out


def corpus_cases():
    out = []
    for f in load_findings(PROP):
        w = f.get("witness")
        if w and "domain_text" in w and "lines" in w:
            out.append(dict(w, kind="corpus:" + f["id"], strict=w.get("strict", True),
                            expect_raise=w.get("expect_raise", False), noise=False, features=["corpus"],
                            witness_of=f["id"] if f.get("status") == "open" else None))
    return out


# ------------------------------------------------------------------------------------------------ literals
def job_of(c):
    j = {"op": "c04.plan", "allow": c["allow"]}
    for k in ("domain_text", "problem_text", "lines", "domain_path", "problem_path", "plan_path", "max_lines"):
        if k in c:
            j[k] = c[k]
    return j


def norm_state(st):
    return ([(p, tuple(a)) for p, a in st["facts"]],
            [(f, tuple(a), (v if isinstance(v, str) else float(v).hex())) for f, a, v in st["fluents"]])


class StateTable:
    """literals stay small: the facts / fluent values common to every state of a case are written once (let-bound)
    and every state is 'common ++ its own rest'; identical states are written once"""

    def __init__(self, states):
        norm = [norm_state(st) for st in states]
        self.common_f = [x for x in norm[0][0] if all(x in set(n[0]) for n in norm[1:])] if norm else []
        self.common_v = [x for x in norm[0][1] if all(x in set(n[1]) for n in norm[1:])] if norm else []
        self.cf, self.cv = set(self.common_f), set(self.common_v)
        self.names = {}
        self.defs = ["let cfacts := %s in " % clist([catom(p, list(a)) for p, a in self.common_f]),
                     "let cfluents := %s in " % clist(["(%s, %s)" % (catom(f, list(a)), chex(float.fromhex(v)))
                                                        for f, a, v in self.common_v])]

    def ref(self, st):
        facts, fl = norm_state(st)
        key = json.dumps([facts, fl])
        if key not in self.names:
            self.names[key] = "st%d" % len(self.names)
            self.defs.append("let %s := {| facts := cfacts ++ %s; fluents := cfluents ++ %s |} in " % (
                self.names[key], clist([catom(p, list(a)) for p, a in facts if (p, a) not in self.cf]),
                clist(["(%s, %s)" % (catom(f, list(a)), chex(float.fromhex(v))) for f, a, v in fl if (f, a, v) not in self.cv])))
        return self.names[key]

    def mstate(self, st):
        return "{| ms_init := %s; ms_st := %s |}" % (cbool(st["kind"] == ":init"), self.ref(st))

    def direct(self, d):
        if "value" in d:
            return "(DRet %s)" % self.ref(d["value"])
        if "refused" in d:
            return "DRefused"
        return "DRaised"


def case_literal(c, res, eps_hex):
    dtext = c.get("domain_text") or open(c["domain_path"]).read()
    nums = clist(["(%s, %s)" % (cstr(k), chex(float.fromhex(v))) for k, v in sorted(res["nums"].items())])
    objs = res.get("objects") if "domain_path" in c else c["objects"]
    init = res.get("init") if "domain_path" in c else c["init"]
    if objs is None or init is None:
        return None
    lines = res.get("lines", c.get("lines", []))
    init = {"facts": [[p, list(a)] for p, a in init["facts"]], "fluents": [[f, list(a), v] for f, a, v in init["fluents"]]}
    states = [init]
    for st in res.get("steps") or []:
        states += [st["pre"], st["post"]] + ([st["direct"]["value"]] if "value" in st["direct"] else [])
    tab = StateTable(states)
    init_ref = tab.ref(init)
    if "steps" in res:
        trace = "(Returned %s)" % clist([
            "{| so_pre := %s; so_op := %s; so_post := %s; so_direct := %s |}" % (
                tab.mstate(s["pre"]), cstr(s["op"]), tab.mstate(s["post"]), tab.direct(s["direct"]))
            for s in res["steps"]])
    else:
        trace = "Raised"
    export = "(Returned %s)" % cstr(res["export"]) if "export" in res else "Raised"
    return ("(%s{| c_text := %s; c_nums := %s; c_eps := %s; c_objs := %s; c_init := %s; c_plan := %s; c_allow := %s; "
            "c_strict := %s; c_expect_raise := %s; c_trace := %s; c_export := %s |})") % (
        "".join(tab.defs), cstr(dtext), nums, chex(float.fromhex(eps_hex)),
        clist(["(%s, %s)" % (cstr(n), cstr(t)) for n, t in objs]), init_ref,
        clist([cstr(l) for l in lines]), cbool(c["allow"]), cbool(c["strict"]), cbool(c["expect_raise"]), trace, export)


def nontrivial(c, res):
    """a plan of >= 2 lines whose run contains both an accepted and a refused (or forced) step, or a malformed line"""
    if c["kind"].startswith("malformed"):
        return True
    steps = res.get("steps") or []
    apps = [s.get("applicable") for s in steps]
    return len(steps) >= 2 and (True in apps) and (False in apps)


def lex_part(rep, args, rng):
    """the text layer alone, exhaustively on a small scope: parse_action_call on EVERY text of length <= N over
    { ( ) blank a B TAB ; } plus random longer ones; model vs implementation only"""
    import itertools
    from ..common import add_shard_obligations, write_replay
    alphabet = ["(", ")", " ", "a", "B", "\t", ";"]
    maxlen = {"quick": 3, "thorough": 5}[args.tier]
    texts = ["".join(t) for n in range(maxlen + 1) for t in itertools.product(alphabet, repeat=n)]
    n_exh = len(texts)
    for _ in range({"quick": 300, "thorough": 3000}[args.tier]):
        texts.append("".join(rng.choice(alphabet + ["(", ")", " ", "x", "\n", "-", "Z9"]) for _ in range(rng.randint(maxlen + 1, 14))))
    chunks = [texts[i:i + 400] for i in range(0, len(texts), 400)]
    res = [r for out in run_impl([{"op": "c04.lex", "texts": ch} for ch in chunks]) for r in out]
    lits = []
    for t, r in zip(texts, res):
        ob = "(Returned (%s, %s))" % (cstr(r["name"]), clist([cstr(x) for x in r["params"]])) if "name" in r else "Raised"
        lits.append("{| x_text := %s; x_obs := %s |}" % (cstr(t), ob))
    verdicts, info = run_case_shards(PROP + "/lex", CORR, lits, shard_size=2500, run_fn="Corr.C04.run_lex", max_bytes=100_000)
    cov = rep.coverage
    cov["obligations"] = cov.get("obligations", 0) + info["shards"]
    cov["discharged"] = cov.get("discharged", 0) + info["shards"] - len(info["shard_errors"])
    bad = [i for i, ch in enumerate(verdicts) if ch != "."]
    cov["lexical_scope"] = {"alphabet": alphabet, "max_length_exhaustive": maxlen, "texts_exhaustive": n_exh,
                            "texts_random_longer": len(texts) - n_exh, "returned": sum(1 for r in res if "name" in r),
                            "raised": sum(1 for r in res if "raised" in r), "disagreements": len(bad), "shards": info["shards"]}
    cov["evaluations"] = cov.get("evaluations", 0) + len(texts)
    cov["traces_validated_against_impl"] = cov.get("traces_validated_against_impl", 0) + len(texts) - len(bad)
    for i in bad[:3]:
        rep.violation(write_replay(PROP, "lex_%05d" % i, {"kind": "correspondence", "why": "parse_action_call: implementation differs "
                      "from the model on this text (text layer only; no spec judgement)", "input": {"text": texts[i]},
                      "implementation": res[i], "verdict": verdicts[i]}), False)


def run(args):
    rep = Report(PROP, args.tier, args.seed)
    standard_proof_part(rep, PROP)
    rng = random.Random(args.seed * 7919 + 4)
    if args.replay:
        data = json.load(open(args.replay))
        cases = [data["input"]["case"]]
    else:
        cases = corpus_cases() + fixture_cases(args.tier) + gen_cases(rng, args.tier) + repeat_cases(rng, args.tier) + shape_cases(rng, args.tier) + boundary_cases(rng, args.tier)
        # the shipped plans have large states (their shards are the slow ones): one of them per shard of 24 cases
        big = [c for c in cases if c["kind"].startswith("fixture")]
        rest = [c for c in cases if not c["kind"].startswith("fixture")]
        cases = []
        while big or rest:
            if big:
                cases.append(big.pop(0))
            cases += rest[:23]
            rest = rest[23:]
    cfg = run_impl([{"op": "core.numeric_config"}], nproc=1)[0]
    hashseeds = [0] if args.tier == "quick" else [0, 1]
    all_cases, all_verdicts = [], ""
    info_total = {"shards": 0, "shard_errors": [], "cmd": ""}
    dist = {"cases": 0, "by_kind": {}, "plan_length": {}, "allow": {"false": 0, "true": 0}, "noisy_lines": 0,
            "steps": 0, "steps_applicable": 0, "steps_refused_unchanged": 0, "steps_forced": 0,
            "position_applicable": {}, "position_inapplicable": {}, "parse_plan_raised": 0, "raise_classes": {},
            "direct_refused": 0, "direct_returned": 0, "direct_other_error": 0, "domain_parse_raised": 0,
            "spec_judged": 0, "spec_skipped": 0, "features": {},
            "guard_shapes": {"plans": 0, "steps_refused_unchanged": 0, "steps_executed": 0, "steps_forced": 0, "by_shape": {}},
            "repeated_calls": {"plans_with_a_call_executed_2+_times": 0, "plans_with_a_numeric_call_executed_2+_times": 0,
                               "plans_with_a_numeric_call_executed_twice_in_a_row": 0,
                               "plans_with_a_call_refused_then_executed": 0, "plans_with_a_call_executed_then_refused": 0,
                               "max_executions_of_one_numeric_call": 0}}
    for hs in hashseeds:
        results = run_impl([job_of(c) for c in cases], hashseed=hs)
        lits, kept = [], []
        for c, res in zip(cases, results):
            if "raised" in res and "nums" not in res:
                res = {"nums": {}, "worker_raised": res}
            lit = case_literal(c, res, cfg["epsilon"]) if "vocab" in res and "problem_raised" not in res else None
            if hs == hashseeds[0]:
                dist["cases"] += 1
                dist["by_kind"][c["kind"]] = dist["by_kind"].get(c["kind"], 0) + 1
                if "vocab" not in res:
                    dist["domain_parse_raised"] += 1
            if lit is None:
                continue
            lits.append(lit)
            kept.append((c, res))
        both, info = run_case_shards(PROP, CORR, lits, shard_size=24, header_extra=HEADER, max_bytes=110_000,
                                     run_fn="Corr.C04.run2", units=[2] * len(lits))
        verdicts, judged = both[0::2], both[1::2]
        info_total["shards"] += info["shards"]
        info_total["shard_errors"] += info["shard_errors"]
        info_total["cmd"] = info["cmd"]
        for (c, res), ch in zip(kept, verdicts):
            inp = {"case": {k: v for k, v in c.items() if k != "witness_of"}, "hashseed": hs,
                   "implementation": {k: res.get(k) for k in ("steps", "trace_raised", "export", "export_raised", "objects")}}
            all_cases.append({"lit": case_literal(c, res, cfg["epsilon"]), "input": inp,
                              "nontrivial": nontrivial(c, res), "witness_of": c.get("witness_of")})
            all_verdicts += ch
        if hs == hashseeds[0]:
            dist["spec_judged"] = judged.count("j")
            dist["spec_skipped"] = judged.count("s")
            for c, res in kept:
                n = len(res.get("lines", []))
                dist["plan_length"][str(n)] = dist["plan_length"].get(str(n), 0) + 1
                dist["allow"]["true" if c["allow"] else "false"] += 1
                dist["noisy_lines"] += n if c.get("noise") else 0
                for f in c.get("features", []):
                    dist["features"][f] = dist["features"].get(f, 0) + 1
                if "trace_raised" in res:
                    dist["parse_plan_raised"] += 1
                    k = res["trace_raised"]["raised"]
                    dist["raise_classes"][k] = dist["raise_classes"].get(k, 0) + 1
                if c["kind"] == "guard-shape":
                    gs = dist["guard_shapes"]
                    gs["plans"] += 1
                    for sh in c.get("guard_shapes", []):
                        gs["by_shape"][sh] = gs["by_shape"].get(sh, 0) + 1
                    for s in res.get("steps") or []:
                        gs["steps_executed" if s.get("applicable") else "steps_forced" if c["allow"] else "steps_refused_unchanged"] += 1
                if c["kind"].startswith("object-table") or c["kind"] == "shadow":
                    bt = dist.setdefault("boundary_object_tables_and_shadowing", {}).setdefault(
                        c["kind"], {"plans": 0, "objects_in_problem": {}, "steps_executed": 0, "steps_forced": 0, "steps_refused_unchanged": 0,
                                    "steps_that_changed_the_state": 0})
                    bt["plans"] += 1
                    no = str(len(c.get("objects") or []))
                    bt["objects_in_problem"][no] = bt["objects_in_problem"].get(no, 0) + 1
                    for s_ in res.get("steps") or []:
                        bt["steps_executed" if s_.get("applicable") else "steps_forced" if c["allow"] else "steps_refused_unchanged"] += 1
                        bt["steps_that_changed_the_state"] += 1 if norm_state(s_["pre"]) != norm_state(s_["post"]) else 0
                rc = dist["repeated_calls"]
                hist = {}
                for s in res.get("steps") or []:
                    hist.setdefault(s["op"], []).append(bool(s.get("applicable")) or bool(c["allow"]))
                numeric = set(c.get("numeric_actions") or [])

                def is_num(op):
                    return op.strip("()").split()[0] in numeric if op.strip("()").split() else False
                rc["plans_with_a_call_executed_2+_times"] += 1 if any(sum(h) >= 2 for h in hist.values()) else 0
                rc["plans_with_a_numeric_call_executed_2+_times"] += 1 if any(sum(h) >= 2 and is_num(op) for op, h in hist.items()) else 0
                ops_seq = [(s["op"], bool(s.get("applicable")) or bool(c["allow"])) for s in res.get("steps") or []]
                rc["plans_with_a_numeric_call_executed_twice_in_a_row"] += 1 if any(
                    a == b and a[1] and is_num(a[0]) for a, b in zip(ops_seq, ops_seq[1:])) else 0
                rc["plans_with_a_call_refused_then_executed"] += 1 if any(
                    any((not x) and any(h[i + 1:]) for i, x in enumerate(h)) for h in hist.values()) else 0
                rc["plans_with_a_call_executed_then_refused"] += 1 if any(
                    any(x and not all(h[i + 1:]) for i, x in enumerate(h)) for h in hist.values()) else 0
                rc["max_executions_of_one_numeric_call"] = max([rc["max_executions_of_one_numeric_call"]] + [
                    sum(h) for op, h in hist.items() if is_num(op)])
                for i, s in enumerate(res.get("steps") or []):
                    dist["steps"] += 1
                    key = "position_applicable" if s.get("applicable") else "position_inapplicable"
                    dist[key][str(i)] = dist[key].get(str(i), 0) + 1
                    if s.get("applicable"):
                        dist["steps_applicable"] += 1
                    elif c["allow"]:
                        dist["steps_forced"] += 1
                    else:
                        dist["steps_refused_unchanged"] += 1
                    d = s["direct"]
                    dist["direct_returned" if "value" in d else "direct_refused" if "refused" in d else "direct_other_error"] += 1
    decide(rep, PROP, CORR, all_cases, all_verdicts, info_total, explain_expr="Corr.C04.explain %s", header_extra=HEADER,
           max_replays=5)
    if not args.replay:
        lex_part(rep, args, rng)
    cov = rep.coverage
    cov["input_distribution"] = dist
    cov["hash_seeds"] = hashseeds
    cov["numeric_config"] = cfg
    cov["exhaustive"] = False
    cov["rule"] = (
        "generated typed domains (pddlgen: <=4 types, constants, 2-4 predicates, <=3 functions, 1-3 actions with and/or/not/=/forall/"
        "comparison preconditions and add/del/assign/increase/decrease/when/forall-when effects kept consistent) rendered with layout noise; "
        "a problem with 2-3 objects and a random initial state; plans = random sequences (0-8 lines) of type-correct calls of the domain's "
        "actions, so applicable and inapplicable steps occur at every position (table position_*); each plan is run with allow_invalid_actions "
        "False and True; 60% of the plans have upper-cased tokens / tabs / extra blanks / CRLF in their lines. Plus one malformed line "
        "(unknown action, blank, missing/surplus argument, no parentheses, trailing text) planted in a short plan, and the 6 planner plans "
        "shipped under tests/exporters_tests with their domain/problem pairs (prefix only in the quick tier). "
        "repeat: plans in which the SAME grounded call with numeric effects is executed twice or more (in a row and "
        "with other steps between), refused first and executed later (an enabling action in between), executed and refused later - the action's "
        "'when' / 'forall-when' effects read the fluent its unconditional group writes (table repeated_calls). guard-shape: actions whose precondition "
        "is of ONE kind only (only (in)equalities between parameters, only a forall, only a nested 'or', only numeric comparisons, empty; every shape "
        "in every run) walked by plans whose steps violate and satisfy them (table guard_shapes). object-table: problems WITHOUT objects ('(:objects)'; the "
        "exporter hands every Operator an empty table) over domains with and without constants of the type a forall-when / a quantified condition ranges "
        "over, and problems where nothing inhabits that type; shadow: actions whose quantified variables have the name of an action parameter / of an "
        "enclosing quantified variable (table boundary_object_tables_and_shadowing). Every state of every triplet is serialized AFTER "
        "parse_plan returned (a post-state rewritten by a later step is seen). Observables: every triplet's "
        "pre-state, operator text and post-state re-read from State.serialize(), Operator.apply applied directly to each pre-state "
        "(returned state / ValueError / other), and the exported trajectory text read back inside Coq by the tokenizer model. "
        "A case is non-trivial when it is malformed, or has >= 2 steps among which one is applicable and one is not; distinct by input hash.")
    cov["samples"] = [{"kind": c["input"]["case"]["kind"], "lines": c["input"]["case"].get("lines"),
                       "allow": c["input"]["case"]["allow"],
                       "ops": [s["op"] for s in (c["input"]["implementation"].get("steps") or [])][:8]}
                      for c in all_cases[:1] + all_cases[len(all_cases) // 2:len(all_cases) // 2 + 2] + all_cases[-2:]]
    rep.assumptions = ["ASCII text", "the problem's initial state and object table are taken from the problem text by the library's "
                       "ProblemParser (C05) - the model starts from the state the generator wrote",
                       "simultaneous effects consistent at every step (cases where they are not are skipped by the spec's own test: spec_skipped)",
                       "effect collections are visited in declaration order by the model; by C03 the order is irrelevant for consistent effects"]
    return rep.finish()
