"""C11 — the S-expression reader returns the text's parenthesis structure, all of it."""
import itertools
import json
import random

from ..common import (Report, cbool, cobs, copt, cstr, decide, load_findings, run_case_shards, run_impl,
                      standard_proof_part, write_replay)

PROP = "C11"
WS = [9, 10, 11, 12, 13, 28, 29, 30, 31, 32]
ATOMS = ["a", "B", "x-1", ":Kw", "?v", "3.5", "p_q"]


# ---------------------------------------------------------------- trees and renderings
def show(t):
    if isinstance(t, str):
        return t
    return " ".join(["("] + [show(x) for x in t] + [")"])


def lower_tree(t):
    return t.lower() if isinstance(t, str) else [lower_tree(x) for x in t]


def flatten(t):
    if isinstance(t, str):
        return [t]
    out = ["("]
    for x in t:
        out += flatten(x)
    return out + [")"]


def trees_of_size(n, atoms):
    """all token trees whose flattening has exactly n tokens (lists only at the top level or nested)"""
    if n == 1:
        for a in atoms:
            yield a
        return
    if n < 2:
        return
    # a list: '(' children ')', children sizes sum to n-2
    def seqs(k):
        if k == 0:
            yield []
            return
        for first in range(1, k + 1):
            for head in trees_of_size(first, atoms):
                for rest in seqs(k - first):
                    yield [head] + rest
    for s in seqs(n - 2):
        yield s


def rand_tree(rng, depth, atoms):
    if depth == 0 or rng.random() < 0.25:
        return rng.choice(atoms)
    return [rand_tree(rng, depth - 1, atoms) for _ in range(rng.randint(0, 4))]


def rand_case(rng, tok):
    if tok in "()":
        return tok
    return "".join(c.upper() if rng.random() < 0.4 else c.lower() for c in tok)


def rand_comment(rng, file_mode):
    body = "".join(rng.choice(" ;()abcXYZ\t-?:") for _ in range(rng.randint(0, 8)))
    if not file_mode:
        # in string mode a lone CR does not end the comment; it may be part of the body
        if rng.random() < 0.2:
            body += "\r x"
    ends = ["\n", "\r\n"] + (["\r"] if file_mode else [])
    return ";" + body + rng.choice(ends)


def rand_sep(rng, file_mode, nonempty, style):
    """style: 'plain' single blanks, 'ws' any whitespace mix, 'comments' whitespace and comments"""
    if style == "plain":
        return " " if (nonempty or rng.random() < 0.5) else ""
    parts = []
    n = rng.randint(1 if nonempty else 0, 3)
    for _ in range(n):
        if style == "comments" and rng.random() < 0.35:
            parts.append(rand_comment(rng, file_mode))
        else:
            parts.append(chr(rng.choice(WS)))
    return "".join(parts)


def render(rng, tree, file_mode, style, case_noise=True):
    toks = flatten(tree)
    out = []
    prev_atom = False
    for t in toks:
        is_atom = t not in "()"
        out.append(rand_sep(rng, file_mode, prev_atom and is_atom, style))
        out.append(rand_case(rng, t) if case_noise else t)
        prev_atom = is_atom
    # trailer: separator, optionally an unterminated comment
    out.append(rand_sep(rng, file_mode, False, style))
    if style == "comments" and rng.random() < 0.3:
        out.append("; trailing (comment")
    return "".join(out)


# ---------------------------------------------------------------- case construction
def build_inputs(rng, tier):
    """returns list of dicts: text, file(bool), expect (None | {'ok': str} | 'raised'), kind, nontrivial"""
    inputs = []

    def add(text, expect, kind, nontrivial, modes=(True, False), **kw):
        for fm in modes:
            inputs.append(dict(text=text, file=fm, expect=expect, kind=kind, nontrivial=nontrivial, **kw))

    # recorded findings and regression corpus first
    for f in load_findings(PROP):
        w = f.get("witness", {})
        add(w["text"], "raised" if w.get("expect") == "raised" else None, "finding-witness", True,
            modes=(w.get("file", False),), witness_of=f["id"] if f.get("status") == "open" else None)
    corpus = [
        ("(a\tb)", {"ok": "( a b )"}), ("(a\x0bb\x0cc\x1cd\x1fe)", {"ok": "( a b c d e )"}),
        ("(a ;c\r\n b)", {"ok": "( a b )"}), (";x\n(a)", {"ok": "( a )"}), ("(A(B)c)", {"ok": "( a ( b ) c )"}),
        ("", "raised"), (")", "raised"), ("(", "raised"), ("(a (b)", "raised"), ("; only a comment", "raised"),
        ("()", {"ok": "( )"}), ("(()())", {"ok": "( ( ) ( ) )"}), ("a", {"ok": "a"}),
    ]
    for text, exp in corpus:
        add(text, exp, "corpus", True)
    # string mode: a lone CR inside a comment does not end it; file mode: it does
    add("(a ;c\r b)", {"ok": "( a b )"}, "cr-in-comment", True, modes=(True,))
    add("(a ;c\r b)", "raised", "cr-in-comment", True, modes=(False,))

    max_size = 6 if tier == "quick" else 8
    atoms3 = ["a", "B", "x-1"]
    styles = ["plain", "ws", "comments"]
    n_exh = 0
    for n in range(1, max_size + 1):
        for t in trees_of_size(n, atoms3 if n <= 6 else ["a", "B"]):
            n_exh += 1
            if tier == "quick" and n >= 6 and rng.random() < 0.8:
                continue
            if tier == "thorough" and n >= 8 and rng.random() < 0.9:
                continue
            for style in styles:
                fm = rng.random() < 0.5
                text = render(rng, t, fm, style)
                add(text, {"ok": show(lower_tree(t))}, "exhaustive-" + style, style != "plain" or not isinstance(t, str),
                    modes=(fm,))
    n_rand = 250 if tier == "quick" else 4000
    for _ in range(n_rand):
        t = rand_tree(rng, rng.randint(1, 5), ATOMS)
        if len(flatten(t)) > 60:
            continue
        fm = rng.random() < 0.5
        style = rng.choice(styles)
        text = render(rng, t, fm, style)
        add(text, {"ok": show(lower_tree(t))}, "random-" + style, True, modes=(fm,))
        # single parenthesis deletion / insertion on a plain rendering: must be rejected
        if isinstance(t, list) and rng.random() < (0.6 if tier == "quick" else 1.0):
            plain = flatten(t)
            idxs = [i for i, x in enumerate(plain) if x in "()"]
            for i in (idxs if tier == "thorough" else rng.sample(idxs, min(2, len(idxs)))):
                mutated = plain[:i] + plain[i + 1:]
                add(" ".join(mutated), "raised", "paren-deleted", True, modes=(rng.random() < 0.5,))
            pos = rng.randint(0, len(plain))
            ins = rng.choice("()")
            mutated = plain[:pos] + [ins] + plain[pos:]
            add(" ".join(mutated), "raised", "paren-inserted", True, modes=(rng.random() < 0.5,))
            # text continuing after the top-level form
            add(" ".join(plain) + " " + rng.choice(["x", "(c d)", ")", "("]), "raised", "trailing", True,
                modes=(rng.random() < 0.5,))
    # raw character soup: judged by the strict reader only (no a-priori expectation)
    n_raw = 150 if tier == "quick" else 2000
    alphabet = "()ab;A \t\n\r\x0b\x1c"
    for _ in range(n_raw):
        text = "".join(rng.choice(alphabet) for _ in range(rng.randint(0, 14)))
        add(text, None, "raw", len(text) > 3, modes=(rng.random() < 0.5,))
    return inputs, n_exh


def case_lit(inp, res):
    observed = res.get("ok") if "ok" in res else None
    exp = inp["expect"]
    if exp is None:
        e = "None"
    elif exp == "raised":
        e = "(Some Raised)"
    else:
        e = "(Some (Returned %s))" % cstr(exp["ok"])
    return "{| c_file := %s; c_text := %s; c_obs := %s; c_expect := %s |}" % (
        cbool(inp["file"]), cstr(inp["text"]), cobs(observed), e)


def run(args):
    rep = Report(PROP, args.tier, args.seed)
    standard_proof_part(rep, PROP)
    rng = random.Random(args.seed * 7919 + 11)
    if args.replay:
        data = json.load(open(args.replay))
        inputs = [data["input"]["case"]]
        n_exh = 0
    else:
        inputs, n_exh = build_inputs(rng, args.tier)
    # CPython facts encoded in the model
    facts = run_impl([{"op": "c11.facts"}], nproc=1)[0]
    facts_ok = (facts.get("isspace") == WS and facts.get("split") == WS and facts.get("lower_ok")
                and facts.get("lower_changes") == list(range(65, 91)))
    results = []
    for hs in ([0] if args.tier == "quick" else [0]):
        results = run_impl([{"op": "c11.parse", "text": i["text"], "file": i["file"]} for i in inputs], hashseed=hs)
    cases = []
    for inp, res in zip(inputs, results):
        cases.append({"lit": case_lit(inp, res),
                      "input": {"case": inp, "implementation": res},
                      "nontrivial": inp["nontrivial"], "witness_of": inp.get("witness_of")})
    verdicts, info = run_case_shards(PROP, "Corr.C11", [c["lit"] for c in cases], shard_size=150)
    summary = decide(rep, PROP, "Corr.C11", cases, verdicts, info, explain_expr="explain %s")
    if not facts_ok:
        p = write_replay(PROP, "cpython_facts", {"kind": "correspondence", "why": "CPython whitespace/lower facts differ from the model", "facts": facts})
        rep.violation(p, False)
    cov = rep.coverage
    kinds = {}
    for i in inputs:
        kinds[i["kind"]] = kinds.get(i["kind"], 0) + 1
    cov["input_distribution"] = kinds
    cov["modes"] = {"file": sum(1 for i in inputs if i["file"]), "string": sum(1 for i in inputs if not i["file"])}
    cov["outcomes"] = {"returned": sum(1 for r in results if "ok" in r), "raised": sum(1 for r in results if "ok" not in r)}
    cov["exhaustive_trees_enumerated"] = n_exh
    cov["exhaustive"] = False
    cov["rule"] = ("token trees enumerated exhaustively up to %d tokens over 3 atoms (sub-sampled at the largest sizes), random trees up to depth 5, "
                   "each rendered with plain / any-whitespace / whitespace+comment layouts and random case, in file or string mode; every single "
                   "parenthesis deletion/insertion and trailing text; raw character soup.  Non-trivial: >=2 tokens or a non-plain layout; distinct by input hash."
                   % (6 if args.tier == "quick" else 8))
    cov["samples"] = [c["input"]["case"] for c in cases[:3]] + [c["input"]["case"] for c in cases[-2:]]
    cov["explanation"] = "theorems C11_* (Props/C11.v) proved for all inputs on the model; model tied to /repo by the cases above"
    rep.assumptions = ["ASCII input only (code points < 128)", "CPython facts re-checked on this run: %s" % facts_ok]
    return rep.finish()
