"""C11 — the S-expression reader returns the text's parenthesis structure, all of it."""
import concurrent.futures
import itertools
import json
import random
import time

from .. import c11_util as U
from ..common import (Report, cbool, clist, cobs, copt, cstr, decide, load_findings, run_case_shards, run_impl,
                      standard_proof_part, write_replay)

PROP = "C11"
WS = [9, 10, 11, 12, 13, 28, 29, 30, 31, 32]
ATOMS = ["a", "B", "x-1", ":Kw", "?v", "3.5", "p_q"]


# ---------------------------------------------------------------- trees and renderings
def show(t):
    if isinstance(t, str):
        return t
    return " ".join(["("] + [show(x) for x in t] + [")"])


def lower_tree(t):
    return t.lower() if isinstance(t, str) else [lower_tree(x) for x in t]


def flatten(t):
    if isinstance(t, str):
        return [t]
    out = ["("]
    for x in t:
        out += flatten(x)
    return out + [")"]


def trees_of_size(n, atoms):
    """all token trees whose flattening has exactly n tokens (lists only at the top level or nested)"""
    if n == 1:
        for a in atoms:
            yield a
        return
    if n < 2:
        return
    # a list: '(' children ')', children sizes sum to n-2
    def seqs(k):
        if k == 0:
            yield []
            return
        for first in range(1, k + 1):
            for head in trees_of_size(first, atoms):
                for rest in seqs(k - first):
                    yield [head] + rest
    for s in seqs(n - 2):
        yield s


def rand_tree(rng, depth, atoms):
    if depth == 0 or rng.random() < 0.25:
        return rng.choice(atoms)
    return [rand_tree(rng, depth - 1, atoms) for _ in range(rng.randint(0, 4))]


def rand_case(rng, tok):
    if tok in "()":
        return tok
    return "".join(c.upper() if rng.random() < 0.4 else c.lower() for c in tok)


def rand_comment(rng, file_mode):
    body = "".join(rng.choice(" ;()abcXYZ\t-?:") for _ in range(rng.randint(0, 8)))
    if file_mode is False:
        # in string mode a lone CR does not end the comment; it may be part of the body
        if rng.random() < 0.2:
            body += "\r x"
    # file_mode "both": a text given in both modes has no lone CR inside or at the end of a comment
    ends = ["\n", "\r\n"] + (["\r"] if file_mode is True else [])
    return ";" + body + rng.choice(ends)


def rand_sep(rng, file_mode, nonempty, style):
    """style: 'plain' single blanks, 'ws' any whitespace mix, 'comments' whitespace and comments"""
    if style == "plain":
        return " " if (nonempty or rng.random() < 0.5) else ""
    parts = []
    n = rng.randint(1 if nonempty else 0, 3)
    for _ in range(n):
        if style == "comments" and rng.random() < 0.35:
            parts.append(rand_comment(rng, file_mode))
        else:
            parts.append(chr(rng.choice(WS)))
    return "".join(parts)


def render(rng, tree, file_mode, style, case_noise=True):
    toks = flatten(tree)
    out = []
    prev_atom = False
    for t in toks:
        is_atom = t not in "()"
        out.append(rand_sep(rng, file_mode, prev_atom and is_atom, style))
        out.append(rand_case(rng, t) if case_noise else t)
        prev_atom = is_atom
    # trailer: separator, optionally an unterminated comment
    out.append(rand_sep(rng, file_mode, False, style))
    if style == "comments" and rng.random() < 0.3:
        out.append("; trailing (comment")
    return "".join(out)


# ---------------------------------------------------------------- case construction
def build_inputs(rng, tier):
    """returns list of dicts: text, file(bool), expect (None | {'ok': str} | 'raised'), kind, nontrivial"""
    inputs = []

    def add(text, expect, kind, nontrivial, modes=(True, False), **kw):
        for fm in modes:
            inputs.append(dict(text=text, file=fm, expect=expect, kind=kind, nontrivial=nontrivial, **kw))

    # recorded findings and regression corpus first
    for f in load_findings(PROP):
        w = f.get("witness", {})
        add(w["text"], "raised" if w.get("expect") == "raised" else None, "finding-witness", True,
            modes=(w.get("file", False),), witness_of=f["id"] if f.get("status") == "open" else None)
    corpus = [
        ("(a\tb)", {"ok": "( a b )"}), ("(a\x0bb\x0cc\x1cd\x1fe)", {"ok": "( a b c d e )"}),
        ("(a ;c\r\n b)", {"ok": "( a b )"}), (";x\n(a)", {"ok": "( a )"}), ("(A(B)c)", {"ok": "( a ( b ) c )"}),
        ("", "raised"), (")", "raised"), ("(", "raised"), ("(a (b)", "raised"), ("; only a comment", "raised"),
        ("()", {"ok": "( )"}), ("(()())", {"ok": "( ( ) ( ) )"}), ("a", {"ok": "a"}),
    ]
    for text, exp in corpus:
        add(text, exp, "corpus", True)
    # string mode: a lone CR inside a comment does not end it; file mode: it does
    add("(a ;c\r b)", {"ok": "( a b )"}, "cr-in-comment", True, modes=(True,))
    add("(a ;c\r b)", "raised", "cr-in-comment", True, modes=(False,))

    max_size = 6 if tier == "quick" else 8
    atoms3 = ["a", "B", "x-1"]
    styles = ["plain", "ws", "comments"]
    n_exh = 0
    for n in range(1, max_size + 1):
        for t in trees_of_size(n, atoms3 if n <= 6 else ["a", "B"]):
            n_exh += 1
            if tier == "quick" and n >= 6 and rng.random() < 0.8:
                continue
            if tier == "thorough" and n >= 8 and rng.random() < 0.9:
                continue
            for style in styles:
                fm = rng.random() < 0.5
                text = render(rng, t, fm, style)
                add(text, {"ok": show(lower_tree(t))}, "exhaustive-" + style, style != "plain" or not isinstance(t, str),
                    modes=(fm,))
    n_rand = 250 if tier == "quick" else 4000
    for _ in range(n_rand):
        t = rand_tree(rng, rng.randint(1, 5), ATOMS)
        if len(flatten(t)) > 60:
            continue
        fm = rng.random() < 0.5
        style = rng.choice(styles)
        text = render(rng, t, fm, style)
        add(text, {"ok": show(lower_tree(t))}, "random-" + style, True, modes=(fm,))
        # single parenthesis deletion / insertion on a plain rendering: must be rejected
        if isinstance(t, list) and rng.random() < (0.6 if tier == "quick" else 1.0):
            plain = flatten(t)
            idxs = [i for i, x in enumerate(plain) if x in "()"]
            for i in (idxs if tier == "thorough" else rng.sample(idxs, min(2, len(idxs)))):
                mutated = plain[:i] + plain[i + 1:]
                add(" ".join(mutated), "raised", "paren-deleted", True, modes=(rng.random() < 0.5,))
            pos = rng.randint(0, len(plain))
            ins = rng.choice("()")
            mutated = plain[:pos] + [ins] + plain[pos:]
            add(" ".join(mutated), "raised", "paren-inserted", True, modes=(rng.random() < 0.5,))
            # text continuing after the top-level form
            add(" ".join(plain) + " " + rng.choice(["x", "(c d)", ")", "("]), "raised", "trailing", True,
                modes=(rng.random() < 0.5,))
    # raw character soup: judged by the strict reader only (no a-priori expectation)
    n_raw = 150 if tier == "quick" else 2000
    alphabet = "()ab;A \t\n\r\x0b\x1c"
    for _ in range(n_raw):
        text = "".join(rng.choice(alphabet) for _ in range(rng.randint(0, 14)))
        add(text, None, "raw", len(text) > 3, modes=(rng.random() < 0.5,))
    return inputs, n_exh


# ---------------------------------------------------------------- call sequences on one path (round 3, seeded change C11_D)
def render_items(rng, tree, file_mode, style, case_fn=rand_case):
    """like render(), but keeps the pieces: ([(separator, token)], trailer)"""
    items, prev_atom = [], False
    for t in flatten(tree):
        is_atom = t not in "()"
        items.append((rand_sep(rng, file_mode, prev_atom and is_atom, style), case_fn(rng, t)))
        prev_atom = is_atom
    trailer = rand_sep(rng, file_mode, False, style)
    if style == "comments" and rng.random() < 0.3:
        trailer += "; trailing (comment"
    return items, trailer


def items_text(items, trailer):
    return "".join(s + t for s, t in items) + trailer


def same_length_name(rng, tok):
    """another atom of the same length whose lower-case form differs"""
    chars = list(tok)
    idxs = [i for i, c in enumerate(chars) if c.isalnum()]
    i = rng.choice(idxs)
    pool = "abcdefghijklmnopqrstuvwxyzABCDEFGHIJKLMNOPQRSTUVWXYZ" if chars[i].isalpha() else "0123456789"
    chars[i] = rng.choice([c for c in pool if c.lower() != chars[i].lower()])
    return "".join(chars)


def same_length_variant(rng, items, trailer):
    """a text of exactly the same length as the rendering (items, trailer) but different content.
    returns (kind, text, expect) — expect None: judged by the strict reader alone."""
    toks = [t for _, t in items]
    atoms_at = [i for i, t in enumerate(toks) if t not in "()"]
    parens_at = [i for i, t in enumerate(toks) if t in "()"]
    kinds = ["rename", "rename", "case", "blank-tab", "move-paren", "move-paren", "paren-to-atom", "blank-to-semicolon"]
    for _ in range(20):
        kind = rng.choice(kinds)
        if kind == "rename" and atoms_at:
            new = list(items)
            for i in rng.sample(atoms_at, min(len(atoms_at), rng.randint(1, 3))):
                new[i] = (new[i][0], same_length_name(rng, new[i][1]))
            return kind, items_text(new, trailer), {"ok": " ".join(t.lower() for _, t in new)}
        if kind == "case" and any(c.isalpha() for t in toks for c in t):
            new = [(s, t.swapcase()) for s, t in items]
            return kind, items_text(new, trailer), {"ok": " ".join(t.lower() for t in toks)}
        if kind == "blank-tab" and any(c in " \t" for s, _ in items for c in s):
            tr = str.maketrans(" \t", "\t ")
            new = [(s.translate(tr), t) for s, t in items]
            return kind, items_text(new, trailer.translate(tr)), {"ok": " ".join(t.lower() for t in toks)}
        if kind == "move-paren" and len(toks) >= 2:
            cand = [i for i in range(len(toks) - 1) if (toks[i] in "()") != (toks[i + 1] in "()") or
                    (toks[i] in "()" and toks[i + 1] in "()" and toks[i] != toks[i + 1])]
            if cand:
                i = rng.choice(cand)
                new = list(items)
                new[i], new[i + 1] = (items[i][0], items[i + 1][1]), (items[i + 1][0], items[i][1])
                return kind, items_text(new, trailer), None
        if kind == "paren-to-atom" and parens_at:
            i = rng.choice(parens_at)
            new = list(items)
            new[i] = (items[i][0], "x")
            return kind, items_text(new, trailer), None
        if kind == "blank-to-semicolon":
            text = items_text(items, trailer)
            pos = [i for i, c in enumerate(text) if c == " "]
            if pos:
                i = rng.choice(pos)
                return kind, text[:i] + ";" + text[i + 1:], None
    return None


SEQ_SHAPES = ["overwrite", "overwrite", "overwrite-chain", "two-paths", "string-after-file", "length-change", "reread"]


def build_sequences(rng, tier):
    """call sequences inside ONE process: texts put one after the other at the same path (same length, different
    content), the same content at two paths, string input after file input, re-reads without a write.  Every step
    is one case: the model and the strict reader get the text that is at the path at that moment."""
    seqs = []
    n = 70 if tier == "quick" else 700
    while len(seqs) < n:
        shape = rng.choice(SEQ_SHAPES)
        fm = True if shape != "string-after-file" else "both"
        t = rand_tree(rng, rng.randint(1, 4), ATOMS)
        if isinstance(t, str) or not (3 <= len(flatten(t)) <= 50):
            continue
        style = rng.choice(["plain", "ws", "comments"])
        items, trailer = render_items(rng, t, fm, style)
        a_text, a_exp = items_text(items, trailer), {"ok": show(lower_tree(t))}
        vs = []
        for _ in range(3):
            v = same_length_variant(rng, items, trailer)
            if v is None or v[1] == a_text or len(v[1]) != len(a_text):
                break
            vs.append(v)
        if len(vs) < 3:
            continue
        how = rng.choice(["overwrite", "overwrite", "replace", "recreate"])

        def F(path, text, exp, write=True, note=""):
            return dict(file=True, path=path, text=text, expect=exp, write=write, how=how, note=note)

        def S(text, exp, note=""):
            return dict(file=False, path=None, text=text, expect=exp, write=False, how=None, note=note)
        (k1, b1, e1), (k2, b2, e2), (k3, b3, e3) = vs
        if shape == "overwrite":
            steps = [F("p0.pddl", a_text, a_exp, note="first"), F("p0.pddl", b1, e1, note="same-length:" + k1)]
        elif shape == "overwrite-chain":
            steps = [F("p0.pddl", a_text, a_exp, note="first"), F("p0.pddl", b1, e1, note="same-length:" + k1),
                     F("p0.pddl", b2, e2, note="same-length:" + k2), F("p0.pddl", a_text, a_exp, note="back to the first text"),
                     F("p0.pddl", b3, e3, note="same-length:" + k3)]
        elif shape == "two-paths":
            steps = [F("p0.pddl", a_text, a_exp, note="first"), F("p1.pddl", a_text, a_exp, note="same content, other path"),
                     F("p1.pddl", b1, e1, note="same-length:" + k1), F("p0.pddl", a_text, a_exp, write=False, note="re-read, unchanged"),
                     F("p0.pddl", b2, e2, note="same-length:" + k2), F("p1.pddl", b1, e1, write=False, note="re-read, unchanged")]
        elif shape == "string-after-file":
            steps = [F("p0.pddl", a_text, a_exp, note="first"), S(b1, e1, note="string, same-length:" + k1),
                     F("p0.pddl", b1, e1, note="same-length:" + k1), S(a_text, a_exp, note="string, the first text"),
                     F("p0.pddl", b2, e2, note="same-length:" + k2)]
        elif shape == "length-change":
            t2 = rand_tree(rng, rng.randint(1, 3), ATOMS)
            c_text = render(rng, t2, fm, style)
            if len(c_text) == len(a_text):
                c_text += " "
            steps = [F("p0.pddl", a_text, a_exp, note="first"), F("p0.pddl", c_text, {"ok": show(lower_tree(t2))}, note="other length"),
                     F("p0.pddl", b1, e1, note="length of the first text again:" + k1), F("p0.pddl", b2, e2, note="same-length:" + k2)]
        else:
            steps = [F("p0.pddl", a_text, a_exp, note="first"), F("p0.pddl", a_text, a_exp, write=False, note="re-read, unchanged"),
                     F("p0.pddl", b1, e1, note="same-length:" + k1), F("p0.pddl", b1, e1, write=False, note="re-read, unchanged")]
        seqs.append({"shape": shape, "how": how, "steps": steps})
    return seqs


# ---------------------------------------------------------------- LARGE inputs (round 3, seeded change C11_C)
BIG_BUFS = [4096, 8192, 65536, 131072]
BIG_CLASSES = ["inside-token", "inside-comment", "after-newline", "between-tokens", "inside-crlf"]


def rand_long_atom(rng):
    n = rng.randint(6, 28)
    return rng.choice("abcdXYZ?:") + "".join(rng.choice("abcdefXYZ0123456789-_") for _ in range(n - 1))


def big_sep(rng, nonempty, style, nl):
    """style 'oneline': blanks and tabs only; 'lines': any whitespace and line ends; 'comments': also ';' comments
    (bodies up to 40 characters, never a lone CR: the same text is given in file and in string mode)"""
    parts = []
    for _ in range(rng.randint(1 if nonempty else 0, 3)):
        r = rng.random()
        if style == "comments" and r < 0.3:
            parts.append(";" + "".join(rng.choice(" ;()abcXYZ\t-?:") for _ in range(rng.randint(0, 40))) + nl)
        elif style != "oneline" and r < 0.5:
            parts.append(nl)
        elif style == "oneline":
            parts.append(rng.choice(" \t"))
        else:
            parts.append(chr(rng.choice([9, 11, 12, 28, 29, 30, 31, 32, 32, 32])))
    return "".join(parts)


def big_render(rng, toks, style, nl, first_nonempty):
    out, prev_atom = [], False
    for j, t in enumerate(toks):
        is_atom = t not in "()"
        out.append(big_sep(rng, (prev_atom and is_atom) or (j == 0 and first_nonempty), style, nl))
        out.append(rand_case(rng, t))
        prev_atom = is_atom
    return "".join(out)


def translated(text):
    """what a text-mode read delivers (universal newlines)"""
    return text.replace("\r\n", "\n").replace("\r", "\n")


def build_big_case(rng, target_len, buf, target_class, variant, force_style=None):
    """text = shift + prefix + blocks repeated + suffix, whose token stream is the flattening of one tree (the
    generator's expectation); the shift is chosen so that offset `buf` falls into `target_class` — offsets counted
    in bytes of the file ('raw') or in characters after newline translation ('translated': what a text-mode
    read(n) counts); target_len is a lower bound of the TRANSLATED length."""
    atoms = ATOMS + [rand_long_atom(rng) for _ in range(6)]
    style = "comments" if target_class == "inside-comment" else rng.choice(["oneline", "lines", "comments", "comments"])
    nl = "\r\n" if target_class == "inside-crlf" else rng.choice(["\n", "\n", "\r\n"])
    if target_class in ("after-newline", "inside-crlf") and style == "oneline":
        style = "lines"
    if force_style:
        style = force_style
    view = "raw" if (nl == "\n" or target_class == "inside-crlf" or rng.random() < 0.4) else "translated"
    depth = rng.randint(1, 3)
    ptoks, stoks = [], []
    for _ in range(depth):
        ptoks.append("(")
        for _ in range(rng.randint(0, 2)):
            ptoks += flatten(rand_tree(rng, 1, atoms))
    for _ in range(depth):
        for _ in range(rng.randint(0, 1)):
            stoks += flatten(rand_tree(rng, 1, atoms))
        stoks.append(")")
    blocks = []
    flat_objects = rng.random() < 0.15      # a long flat list of atoms (':objects a b c ...'): costs the model's reader O(n^2)
    for _ in range(rng.randint(1, 3)):
        while True:
            btoks = []
            for _ in range(rng.randint(1, 3)):
                if flat_objects or rng.random() < 0.3:
                    btoks.append(rng.choice(atoms))
                else:
                    sub = rand_tree(rng, 2, atoms)
                    btoks += flatten(sub if isinstance(sub, list) else [sub, rng.choice(atoms)])
            btext = big_render(rng, btoks, style, nl, True)
            if len(translated(btext)) >= (24 if flat_objects else 60):
                break
        blocks.append((btoks, btext))
    header = rng.choice(["", "; generated (problem" + nl, ";;" + nl + nl])
    ptext = big_render(rng, ptoks, style, nl, False)
    if variant == "unclosed":
        stoks = stoks[:-1]
    stext = big_render(rng, stoks, style, nl, True) + big_sep(rng, False, style, nl)
    stoks_all = stoks
    if variant == "trailing":
        extra = rng.choice([["x"], ["(", "c", "d", ")"], [")"]])
        stoks_all, stext = stoks + extra, stext + " " + " ".join(extra)
    if variant == "open-comment":
        stext += " ; trailing ( comment"
    tl = lambda x: len(translated(x))
    per = max(1, (target_len + 400 - tl(header) - tl(ptext) - tl(stext)) // len(blocks))
    body = [(b[0], b[1], per // tl(b[1]) + 1) for b in blocks]
    if variant == "extra-open":
        bt, bx, r = body[0]
        body = [(bt, bx, r // 2), ([], " ( ", 1), (bt, bx, r - r // 2)] + body[1:]
    # choose the shift (leading blanks) that puts offset `buf` into the target class
    base = header + ptext + "".join(bx * r for _, bx, r in body) + stext
    seen = base if view == "raw" else translated(base)
    labels = U.label_text(seen)
    shift, hit = 0, False
    for sft in range(0, 400):
        o = buf - sft
        if 0 < o < len(seen) and U.boundary_class(seen, labels, o) == target_class:
            shift, hit = sft, True
            break
    if not hit:
        shift = rng.randint(0, 63)
    lead = " " * shift
    segs = [[lead + header + ptext, 1]] + [[bx, r] for _, bx, r in body] + [[stext, 1]]
    tsegs = [[[t.lower() for t in ptoks], 1]] + [[[t.lower() for t in bt], r] for bt, _, r in body]
    tsegs.append([[t.lower() for t in stoks_all], 1])
    if variant in ("ok", "open-comment"):
        expect = {"digest": U.digest(U.expand_toks(tsegs))}
    else:
        expect = "raised"
    return dict(segs=segs, expect_toks=tsegs if variant in ("ok", "open-comment") else None, expect=expect,
                variant=variant, style=style, nl=repr(nl), target=[buf, target_class, view], target_hit=hit,
                klass="D02" if variant == "trailing" else None)


def build_big(rng, tier):
    """a handful of LARGE texts per run: just above 64 KiB and 128 KiB (offsets k*65536 inside a token / a comment /
    after a newline / inside CRLF), and cheaper ones above 8 KiB whose offsets k*4096, k*8192 do the same"""
    plan = []
    if tier == "quick":
        big64, big128, small = 4, 2, 8
    else:
        big64, big128, small = 15, 8, 30
    off = rng.randint(0, 4)
    for i in range(big64):
        # inside-token and inside-comment in every run; the other three classes rotate with the seed
        k = BIG_CLASSES[i] if i < 2 else BIG_CLASSES[2 + (i + off) % 3]
        plan.append((rng.randint(66000, 74000), 65536, k, "ok"))
    for i in range(big128):
        plan.append((rng.randint(131500, 140000), 131072 if i % 2 == 0 else 65536, BIG_CLASSES[(i + off) % 4 if i >= 2 else i], "ok"))
    for i in range(small):
        plan.append((rng.randint(8400, 21000), rng.choice([4096, 8192]), BIG_CLASSES[i % 5], "ok"))
    for j, v in enumerate(["unclosed", "extra-open", "trailing", "open-comment"] * (1 if tier == "quick" else 3)):
        large = (j == off % 4) if tier == "quick" else (rng.random() < 0.5)
        plan.append((rng.randint(66000, 70000) if large else rng.randint(8400, 21000), 65536 if large else 8192,
                     rng.choice(BIG_CLASSES[:4]), v))
    if tier == "thorough":
        plan.append((rng.randint(270000, 300000), 262144, "inside-token", "ok"))
        plan.append((rng.randint(270000, 300000), 262144, "inside-comment", "ok"))
    # the whole text on ONE line (a reader with a line-length limit would cut it): one every run
    plan.append((rng.randint(9000, 21000), rng.choice([4096, 8192]), "inside-token", "ok", "oneline"))
    if tier == "thorough":
        plan.append((rng.randint(66000, 74000), 65536, "inside-token", "ok", "oneline"))
        plan.append((rng.randint(131500, 140000), 131072, "between-tokens", "ok", "oneline"))
    cases = []
    for target_len, buf, klass, variant, *rest in plan:
        if buf >= target_len:
            buf = 4096
        c = build_big_case(rng, target_len, buf, klass, variant, *rest)
        for fm in (True, False):
            cases.append(dict(c, file=fm))
    return cases


def big_lit(inp, res):
    def dg(d):
        return "(%d%%uint63, %d%%uint63, %d%%uint63)" % tuple(d)
    observed = "(Returned %s)" % dg(res["ok"]) if "ok" in res else "Raised"
    exp = inp["expect"]
    if exp is None:
        e = "None"
    elif exp == "raised":
        e = "(Some Raised)"
    else:
        e = "(Some (Returned %s))" % dg(exp["digest"])
    segs = clist("Rep %s %d" % (cstr(b), r) for b, r in inp["segs"])
    return "{| b_file := %s; b_segs := %s; b_obs := %s; b_expect := %s |}" % (cbool(inp["file"]), segs, observed, e)


# ---------------------------------------------------------------- non-ASCII text (round 3): OUTSIDE the Coq model
# Judged by a Python-side oracle only: the generator's tree, lower-cased with the explicit table below (not str.lower(): the two
# interpreters may carry different Unicode tables), tokens separated at ASCII whitespace only — no generated character is
# Unicode whitespace — and file input (UTF-8) == string input.
U_LOWER = {"\u00c9": "\u00e9", "\u03a9": "\u03c9", "\u0414": "\u0434", "\u00dc": "\u00fc", "\u00d1": "\u00f1"}
U_CASELESS = ["\u00df", "\u540d", "\u524d", "\U0001d4b3", "\u2603", "\u00e9", "\u0434", "\u03c9", "\u00b7", "\u2014"]
U_SPACES = ["\u00a0", "\u2003", "\u3000", "\u0085", "\u2028"]     # Unicode whitespace: str.split() separates tokens there too


def u_lower(tok):
    return "".join(U_LOWER.get(c, c.lower() if ord(c) < 128 else c) for c in tok)


def u_case(rng, tok):
    """case noise on the ASCII letters only (upper() of a non-ASCII letter may be a different string: 'ss' for U+00DF)"""
    return "".join((c.upper() if rng.random() < 0.4 else c.lower()) if c.isascii() else c for c in tok)


def rand_u_atom(rng):
    pool = list(U_LOWER) + U_CASELESS + list("abXY-_?:12")
    return "".join(rng.choice(pool) for _ in range(rng.randint(1, 8)))


def build_utf8(rng, tier):
    cases = []
    n = 60 if tier == "quick" else 600
    for _ in range(n):
        atoms = [rand_u_atom(rng) for _ in range(5)] + ["a", "B"]
        t = rand_tree(rng, rng.randint(1, 4), atoms)
        if len(flatten(t)) > 40:
            continue
        items, trailer = render_items(rng, t, "both", rng.choice(["plain", "ws", "comments"]), case_fn=u_case)
        # non-ASCII characters inside the comments as well
        items = [(s.replace(";", "; " + rand_u_atom(rng) + " (", 1) if ";" in s and rng.random() < 0.7 else s, tok) for s, tok in items]
        cases.append(dict(kind="utf8", text=items_text(items, trailer), expect={"ok": " ".join(u_lower(x) for x in flatten(t))}))
        if isinstance(t, list) and rng.random() < 0.3:
            plain = flatten(t)
            idxs = [i for i, x in enumerate(plain) if x in "()"]
            i = rng.choice(idxs)
            cases.append(dict(kind="utf8-paren-deleted", text=" ".join(plain[:i] + plain[i + 1:]), expect="raised"))
    # Unicode whitespace: recorded, judged for file == string only (str.split() separates tokens at these characters)
    for sp in U_SPACES:
        cases.append(dict(kind="utf8-unicode-space", text="(a" + sp + "b ;c" + sp + "(\n" + sp + ")", expect=None))
    cases.append(dict(kind="utf8-bom", text="\ufeff(a b)", expect=None))
    return cases


def leaves_tokens_unread(plain_text):
    """class of finding D02 for a comment-free text: a complete form is followed by more tokens"""
    toks = plain_text.replace("(", " ( ").replace(")", " ) ").split()
    depth = 0
    for i, t in enumerate(toks):
        depth += (t == "(") - (t == ")")
        if depth < 0:
            return False
        if depth == 0:
            return i + 1 < len(toks)
    return False


def judge_utf8(c, res):
    """None when fine, else the reason"""
    if not isinstance(res, dict) or "file" not in res:
        return "the driver failed: %r" % (res,)
    f, s = res["file"], res["str"]
    if ("ok" in f) != ("ok" in s) or f.get("ok") != s.get("ok"):
        return "file input and string input differ"
    exp = c["expect"]
    if exp == "raised" and "ok" in f:
        if leaves_tokens_unread(c["text"]):
            return "D02"                      # the recorded finding: the first complete form is returned, the tail ignored
        return "unbalanced text accepted"
    if isinstance(exp, dict) and f.get("ok") != exp["ok"]:
        return "result differs from the token tree the text was rendered from"
    return None


def case_lit(inp, res):
    observed = res.get("ok") if "ok" in res else None
    exp = inp["expect"]
    if exp is None:
        e = "None"
    elif exp == "raised":
        e = "(Some Raised)"
    else:
        e = "(Some (Returned %s))" % cstr(exp["ok"])
    return "{| c_file := %s; c_text := %s; c_obs := %s; c_expect := %s |}" % (
        cbool(inp["file"]), cstr(inp["text"]), cobs(observed), e)


def seq_inputs(seqs):
    """one ordinary case per step of each sequence (the replay carries the whole sequence)"""
    out = []
    for sid, sq in enumerate(seqs):
        for k, st in enumerate(sq["steps"]):
            out.append(dict(text=st["text"], file=st["file"], expect=st["expect"], kind="seq-" + sq["shape"], nontrivial=True,
                            seq=sid, step=k, note=st["note"]))
    return out


def boundary_table(bigs):
    """where the offsets k*B fall in the large texts of this run (B = plausible buffer sizes), on the raw text and
    on the text after universal-newline translation (what a text-mode read counts)"""
    tab = {}
    seen = set()
    for c in bigs:
        key = json.dumps(c["segs"])
        if key in seen:
            continue
        seen.add(key)
        raw = U.expand_segs(c["segs"])
        for view, text in (("raw", raw), ("translated", raw.replace("\r\n", "\n").replace("\r", "\n"))):
            labels = U.label_text(text)
            for b in BIG_BUFS:
                row = tab.setdefault("%s/%d" % (view, b), {})
                for o in range(b, len(text), b):
                    k = U.boundary_class(text, labels, o)
                    row[k] = row.get(k, 0) + 1
    return tab


def run(args):
    rep = Report(PROP, args.tier, args.seed)
    standard_proof_part(rep, PROP)
    rng = random.Random(args.seed * 7919 + 11)
    n_exh, seqs, bigs, u_replay = 0, [], [], None
    if args.replay:
        data = json.load(open(args.replay))["input"]
        inputs = []
        if "sequence" in data:
            seqs = [data["sequence"]]
        elif "utf8" in data:
            u_replay = data["utf8"]
        elif "big" in data:
            bigs = [data["big"]]
        else:
            inputs = [data["case"]]
    else:
        inputs, n_exh = build_inputs(rng, args.tier)
        seqs = build_sequences(random.Random(args.seed * 7919 + 12), args.tier)
        bigs = build_big(random.Random(args.seed * 7919 + 13), args.tier)
    # CPython facts encoded in the model
    facts = run_impl([{"op": "c11.facts"}], nproc=1)[0]
    facts_ok = (facts.get("isspace") == WS and facts.get("split") == WS and facts.get("lower_ok")
                and facts.get("lower_changes") == list(range(65, 91)))
    timing, t0 = {}, time.time()

    def big_part():
        bres = run_impl([{"op": "c11.parse_big", "segs": b["segs"], "file": b["file"], "expect_toks": b.get("expect_toks")}
                         for b in bigs], hashseed=0, nproc=min(8, len(bigs)))
        bcases = []
        for b, res in zip(bigs, bres):
            slim = {k: v for k, v in b.items() if k != "expect_toks"}
            slim["chars"] = sum(len(x) * r for x, r in b["segs"])
            bcases.append({"lit": big_lit(b, res), "input": {"big": b, "summary": slim, "implementation": res},
                           "nontrivial": True, "witness_of": None, "klass": b.get("klass")})
        bver, binfo = run_case_shards(PROP + "/big", "Corr.C11", [c["lit"] for c in bcases], shard_size=1, run_fn="run_big",
                                      header_extra="From Coq Require Import Uint63.\nFrom Verif Require Import Corr.BigText.\n")
        return bres, bcases, bver, binfo
    # the large cases are evaluated while the ordinary ones run (their own work directory: work/C11/big)
    big_future = concurrent.futures.ThreadPoolExecutor(max_workers=1).submit(big_part) if bigs else None
    jobs = [{"op": "c11.parse", "text": i["text"], "file": i["file"]} for i in inputs]
    jobs += [{"op": "c11.sequence", "steps": sq["steps"]} for sq in seqs]
    raw = run_impl(jobs, hashseed=0)
    results = list(raw[:len(inputs)])
    s_inputs = seq_inputs(seqs)
    for sq, r in zip(seqs, raw[len(inputs):]):
        steps = r.get("steps") if isinstance(r, dict) else None
        if steps is None or len(steps) != len(sq["steps"]):
            steps = [r] * len(sq["steps"])       # the sequence op itself failed: every step counts as raised
        results.extend(steps)
    timing["impl_s"] = round(time.time() - t0, 1)
    t0 = time.time()
    cases = []
    for inp, res in zip(inputs + s_inputs, results):
        payload = {"case": inp, "implementation": res}
        if "seq" in inp:
            payload["sequence"] = seqs[inp["seq"]]
            payload["failing_step"] = inp["step"]
        cases.append({"lit": case_lit(inp, res), "input": payload,
                      "nontrivial": inp["nontrivial"], "witness_of": inp.get("witness_of")})
    inputs = inputs + s_inputs
    verdicts, info = run_case_shards(PROP, "Corr.C11", [c["lit"] for c in cases], shard_size=150)
    summary = decide(rep, PROP, "Corr.C11", cases, verdicts, info, explain_expr="explain %s")
    cov = rep.coverage
    timing["coq_cases_s"] = round(time.time() - t0, 1)
    t0 = time.time()
    # LARGE inputs: one shard per (text, mode); the observable is a digest of the token stream
    if bigs:
        small_counts, small_distinct = dict(cov.get("verdict_counts", {})), cov.get("distinct_nontrivial", 0)
        bres, bcases, bver, binfo = big_future.result()
        n_before = len(rep.violations)
        decide(rep, PROP, "Corr.C11", bcases, bver, binfo, explain_expr="explain_big %s",
               header_extra="From Coq Require Import Uint63.\nFrom Verif Require Import Corr.BigText.\n")
        # the replay files of large cases get their own names (decide numbers both lists from 0)
        for j in range(n_before, len(rep.violations)):
            old, concrete = rep.violations[j]
            new = old.with_name("big_" + old.name)
            payload = json.loads(old.read_text())
            payload["replay_cmd"] = "./check %s --replay %s" % (PROP, new)
            new.write_text(json.dumps(payload, indent=1))
            old.unlink()
            rep.violations[j] = (new, concrete)
        cov["big_verdict_counts"] = dict(cov.get("verdict_counts", {}))
        merged = dict(small_counts)
        for k, v in cov["big_verdict_counts"].items():
            merged[k] = merged.get(k, 0) + v
        cov["verdict_counts"] = merged
        cov["distinct_nontrivial"] = small_distinct + cov.get("distinct_nontrivial", 0)
        cov["big_inputs"] = {"cases": len(bigs), "chars": sorted({sum(len(x) * r for x, r in b["segs"]) for b in bigs}),
                             "variants": {v: sum(1 for b in bigs if b["variant"] == v) for v in sorted({b["variant"] for b in bigs})},
                             "targets_hit": sum(1 for b in bigs if b.get("target_hit")),
                             "styles": {v: sum(1 for b in bigs if b["style"] == v) for v in sorted({b["style"] for b in bigs})},
                             "boundaries": boundary_table(bigs)}
    timing["big_s"] = round(time.time() - t0, 1)
    # non-ASCII text: outside the model, Python-side oracle
    if not args.replay or u_replay is not None:
        ucases = [u_replay] if u_replay is not None else build_utf8(random.Random(args.seed * 7919 + 14), args.tier)
        ures = run_impl([{"op": "c11.parse_utf8", "text": c["text"]} for c in ucases], hashseed=0, nproc=2)
        bad = known_d02 = 0
        for k, (c, r) in enumerate(zip(ucases, ures)):
            why = judge_utf8(c, r)
            if why == "D02":
                known_d02 += 1
            elif why:
                bad += 1
                if bad <= 4:
                    rep.violation(write_replay(PROP, "utf8_%04d" % k, {"kind": "input", "why": why + " (non-ASCII text: judged by the Python-side "
                                                                    "oracle, outside the Coq model)", "input": {"utf8": c, "implementation": r}}), True)
        cov["utf8"] = {"cases": len(ucases), "failed": bad, "in_class_of_D02": known_d02, "kinds": {kd: sum(1 for c in ucases if c["kind"] == kd) for kd in sorted({c["kind"] for c in ucases})},
                       "oracle": "Python side only: generator's tree lower-cased by an explicit table; file (UTF-8) == string",
                       "unicode_space_observed": {repr(c["text"][2]): r.get("str") for c, r in zip(ucases, ures) if c["kind"] == "utf8-unicode-space"},
                       "bom_observed": [r for c, r in zip(ucases, ures) if c["kind"] == "utf8-bom"]}
        cov["evaluations"] = cov.get("evaluations", 0) + 2 * len(ucases)
    cov["timing_s"] = timing
    if not facts_ok:
        p = write_replay(PROP, "cpython_facts", {"kind": "correspondence", "why": "CPython whitespace/lower facts differ from the model", "facts": facts})
        rep.violation(p, False)
    kinds = {}
    for i in inputs:
        kinds[i["kind"]] = kinds.get(i["kind"], 0) + 1
    cov["input_distribution"] = kinds
    cov["modes"] = {"file": sum(1 for i in inputs if i["file"]), "string": sum(1 for i in inputs if not i["file"])}
    cov["outcomes"] = {"returned": sum(1 for r in results if "ok" in r), "raised": sum(1 for r in results if "ok" not in r)}
    cov["sequences"] = {"count": len(seqs), "steps": len(s_inputs),
                        "shapes": {sh: sum(1 for q in seqs if q["shape"] == sh) for sh in sorted({q["shape"] for q in seqs})},
                        "how": {h: sum(1 for q in seqs if q["how"] == h) for h in sorted({q["how"] for q in seqs})},
                        "same_length_kinds": {}}
    for q in seqs:
        for st in q["steps"]:
            if "same-length:" in st["note"] or "again:" in st["note"]:
                k = st["note"].split(":")[-1]
                cov["sequences"]["same_length_kinds"][k] = cov["sequences"]["same_length_kinds"].get(k, 0) + 1
    cov["exhaustive_trees_enumerated"] = n_exh
    cov["exhaustive"] = False
    cov["rule"] = ("token trees enumerated exhaustively up to %d tokens over 3 atoms (sub-sampled at the largest sizes), random trees up to depth 5, "
                   "each rendered with plain / any-whitespace / whitespace+comment layouts and random case, in file or string mode; every single "
                   "parenthesis deletion/insertion and trailing text; raw character soup; call SEQUENCES in one process (a path overwritten with a "
                   "different text of the same length: renamed atoms, case, blank<->tab, a moved parenthesis, parenthesis->atom, blank->';'; the same "
                   "content at two paths; string after file; re-reads), each step judged on the text at the path at that moment; LARGE texts "
                   "(8-20 KiB, >64 KiB, >128 KiB%s; a block repeated, shifted so that offsets k*4096/8192/65536/131072 fall inside a token, inside a "
                   "comment, after a newline, inside CRLF) from file and from string, compared by token-stream digest.  "
                   "Non-trivial: >=2 tokens or a non-plain layout; distinct by input hash."
                   % (6 if args.tier == "quick" else 8, ", >256 KiB" if args.tier == "thorough" else ""))
    cov["samples"] = [c["input"]["case"] for c in cases[:3]] + [c["input"]["case"] for c in cases[-2:]]
    cov["explanation"] = "theorems C11_* (Props/C11.v) proved for all inputs on the model; model tied to /repo by the cases above"
    rep.assumptions = ["ASCII input only (code points < 128)", "CPython facts re-checked on this run: %s" % facts_ok]
    return rep.finish()
