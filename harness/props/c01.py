from .core_props import run_prop


def run(args):
    return run_prop("C01", args)
