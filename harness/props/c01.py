"""C01 - domain text is parsed faithfully or rejected, never silently altered.

Worlds judged inside Coq by Corr.Core (model vs implementation, implementation vs the independent reading):
  * the witnesses of the findings of this property (all repaired: they must pass),
  * generated domains of the supported fragment, rendered with layout / letter-case / comment noise,
  * one domain per construct outside the supported fragment (harness/c01_gen.py: every form the property names and
    the neighbouring ones), where only 'faithful' or 'exception by first use' is accepted,
  * every domain file the repository ships (raising is acceptable, a vocabulary different from the text is not).
For C01 the meaning of a parsed body is observed through behaviour: applicability and successor of every parsed action
on probe states are part of the verdict of the world (units 'app' / 'succ'), next to the vocabulary (unit 'parse')."""
import json
import os
import random

from ..common import (REPO, WORK, Report, coq_eval, cstr, decide, load_findings, run_case_shards, run_impl, standard_proof_part)
from .. import pddlgen as G
from .. import c01_gen as C
from ..core_common import count_groups, flatten_units, run_worlds, world_literal

PROP = "C01"
HEADER = "From Coq Require Import PrimFloat.\nFrom Verif Require Import Spec.Pddl Corr.Core.\nFrom Verif Require Import Corr.C01.\n"
CORR = "Corr.C01"


def build_world(rng, w, n_states=1, calls_per_action=2, noise=True, name="dom", hints=None):
    objs = G.gen_objects(rng, w)
    focus = [a for a in w.actions if hints and a["name"] == hints["focus"]]
    if hints and hints.get("distinct_calls"):
        # one more object per parameter of the focus action, so that calls with pairwise different arguments exist
        objs = objs + [("ox%d" % i, t) for i, (_, t) in enumerate(focus[0]["params"])]
    if hints:
        # every quantified type of the shape has an object - except a type the shape wants empty;
        # every parameter of the focus action has a candidate
        objs = objs + [("oq%d" % i, t) for i, t in enumerate(hints.get("need_types", []))]
        objs = [(o, t) for o, t in objs if not any(w.is_sub(t, e) for e in hints.get("empty_types", []))]
        for i, (_, t) in enumerate(focus[0]["params"]):
            if not isinstance(t, list) and not any(w.is_sub(ot, t) for _, ot in objs + list(w.consts)):
                objs = objs + [("op%d" % i, t)]
    tree = C.domain_tree(w, rng, name)
    text = C.render2(tree, rng) if noise == 2 else G.render(tree, rng, noise)
    probes = []
    if hints:
        n_states = hints.get("n_states", 2 if hints.get("random_only") else 3)
    for k in range(n_states):
        st = C.hinted_state(rng, w, objs, hints, k) if hints else G.gen_state(rng, w, objs)
        ptxt = G.problem_text(w, objs, st, domain=name)
        for a in w.actions:
            if hints and a["name"] != hints["focus"]:
                continue          # a shaped world is probed on the action that carries the shape
            nwhen, nuniv = count_groups(a) if isinstance(a["eff"], list) and a["eff"] and a["eff"][0] == "and" else (0, 0)
            limit = calls_per_action
            if hints and a["name"] == hints["focus"]:
                limit = hints.get("calls", calls_per_action if k == 0 or hints.get("random_only") else 1)
            try:
                if hints and hints.get("distinct_calls"):
                    # a fluent atom that repeats an OBJECT collapses at grounding (D07, open, property C20): not C01's subject
                    calls = [c for c in G.calls_for(rng, w, objs, a, limit=10 ** 6)
                             if len(set(c)) == len(c) and not set(c) & set(hints.get("avoid_args", []))][:limit]
                else:
                    calls = G.calls_for(rng, w, objs, a, limit=limit)
            except TypeError:
                calls = []
            for args in calls:
                probes.append({"action": a["name"], "args": args, "state": st, "problem_text": ptxt,
                               "perm_seed": 0, "nwhen": nwhen, "nuniv": nuniv})
    return {"domain_text": text, "objects": objs, "oof": w.oof, "oof_kind": w.oof_kind, "probes": probes,
            "features": sorted(w.features), "tree": tree, "source": "generated",
            "shape": hints.get("tag") if hints else None,
            "oof_action": getattr(w, "oof_action", "") if w.oof and w.oof_kind not in VOCAB_KINDS else ""}


# planted in the vocabulary, not in one action's body: every probe of the world is affected
VOCAB_KINDS = {"either-pred", "trailing-untyped-constants", "grouped-function-params"}


def cworld_literal(wd, res, eps):
    """the Coq literal of a world (Corr.C01.cworld).  Same fields as core_common.world_literal; a probe state that several
    probes share is bound once with 'let' (Coq spends most of a shard's time reading the literals)."""
    if "vocab" not in res or not wd["probes"]:
        lit, u = world_literal(wd, res, eps)
        return "{| cw := %s; cw_action := %s |}" % (lit, cstr(wd.get("oof_action") or "")), u
    from ..common import cbool, chex, clist
    from ..core_common import cobs_bool, cobs_state, cstate, nat_list
    nums = clist(["(%s, %s)" % (cstr(k), chex(float.fromhex(v))) for k, v in sorted(res["nums"].items())])
    objs = clist(["(%s, %s)" % (cstr(n), cstr(t)) for n, t in wd["objects"]])
    names, lets, probes = {}, [], []
    for pr, r in zip(wd["probes"], res["probes"]):
        key = id(pr["state"])
        if key not in names:
            names[key] = "st%d" % len(names)
            lets.append("let %s := %s in" % (names[key], cstate(pr["state"])))
        if "problem_raised" in r:
            app, succ = "Raised", "Raised"
        else:
            app, succ = cobs_bool(r["app"]), cobs_state(r["succ"])
        ng = r.get("ngroups", 1 + pr.get("nwhen", 0))
        probes.append("{| p_action := %s; p_args := %s; p_state := %s; p_app := %s; p_order := %s; p_uorder := %s; p_succ := %s |}" % (
            cstr(pr["action"]), clist([cstr(a) for a in pr["args"]]), names[key], app, nat_list(ng), nat_list(pr.get("nuniv", 0)), succ))
    lit = "{| w_text := %s; w_nums := %s; w_eps := %s; w_objs := %s; w_oof := %s; w_parsed := (Returned %s); w_probes := %s |}" % (
        cstr(wd["domain_text"]), nums, chex(float.fromhex(eps)), objs, cbool(wd["oof"]), cstr(res["vocab"]), clist(probes))
    return "(%s {| cw := %s; cw_action := %s |})" % (" ".join(lets), lit, cstr(wd.get("oof_action") or "")), 1 + 2 * len(probes)


def clean_replays():
    d = WORK / PROP / "replays"
    if d.exists():
        for f in d.glob("*.json"):
            f.unlink()


def corpus_worlds():
    out = []
    for f in load_findings(PROP):
        w = f.get("witness")
        if not w or "domain_text" not in w:
            continue
        out.append({"domain_text": w["domain_text"], "objects": w.get("objects", []), "oof": w.get("oof", False),
                    "oof_kind": w.get("oof_kind"), "probes": w.get("probes", []), "features": ["corpus:" + f["id"]],
                    "witness_of": f["id"] if f.get("status") == "open" else None, "tree": None,
                    "source": "corpus:" + f["id"]})
    return out


def fixture_worlds(tier="thorough", seed=0):
    """every domain file the repository ships, once per distinct content (the copies under other test directories are
    named in 'same_as').  quick: the files up to 10 kB and one of the larger ones (a different one per seed)."""
    import hashlib
    out, by_hash = [], {}
    for path in C.shipped_domain_files(str(REPO)):
        try:
            text = open(path, "r", encoding="utf-8", errors="replace").read()
        except OSError:
            continue
        text = "".join(ch if ord(ch) < 256 else "?" for ch in text)
        rel = os.path.relpath(path, str(REPO))
        h = hashlib.sha1(text.encode("latin-1")).hexdigest()
        if h in by_hash:
            by_hash[h]["same_as"].append(rel)
            continue
        wd = {"domain_text": text, "objects": [], "oof": True, "oof_kind": None, "probes": [],
              "features": ["fixture"], "tree": None, "source": "fixture:" + rel, "same_as": []}
        by_hash[h] = wd
        out.append(wd)
    if tier == "quick":
        big = [wd for wd in out if len(wd["domain_text"]) > 10000]
        keep = big[seed % len(big)] if big else None
        out = [wd for wd in out if len(wd["domain_text"]) <= 10000 or wd is keep]
    return out


def text_only_literal(wd, res, eps):
    """the world without its probes (for questions about the text alone, e.g. membership in G)"""
    lit, _ = world_literal(dict(wd, probes=[]), dict(res, probes=[]), eps)
    return "{| cw := %s; cw_action := %s |}" % (lit, cstr(""))


def generate(rng, tier):
    worlds = []
    n_in = {"quick": 60, "thorough": 400}[tier]
    per_kind = {"quick": 2, "thorough": 8}[tier]
    per_shape = {"quick": 1, "thorough": 2}[tier]
    for i in range(n_in):
        w = G.gen_world(rng, max_actions=3)
        worlds.append(build_world(rng, w, noise=2 if i % 4 == 3 else True))
    planted = {}
    for kind in C.PLANTERS:
        if kind.startswith("neg-cmp:"):
            continue                      # planted last (below), so that the stream before them is the one of earlier rounds
        done, tries = 0, 0
        while done < per_kind and tries < 200:
            tries += 1
            w = G.gen_world(rng, max_actions=2)
            if C.plant(rng, w, kind):
                worlds.append(build_world(rng, w, noise=(done % 2 == 1)))
                done += 1
        planted[kind] = done
    shaped = {}
    keys = list(C.SHAPES)
    if tier == "quick":
        # of the shapes whose look-alike siblings DIFFER in meaning (a far decimal, one polarity, = vs not =, the quantified
        # type, a contradiction, a leaf that an earlier compound contains) and of the other families (nesting, constants, numerals,
        # scoping ...) every second one, of the controls (exact copies, operand order, near constants) one in four - by seed
        pick, pick_d, pick_f = rng.randrange(4), rng.randrange(2), rng.randrange(2)
        differ = [k for k in keys if C.differs(k)]
        controls = [k for k in keys if not C.differs(k) and k.split(":")[0] in ("twins", "leaf-twins", "when-twins")]
        families = [k for k in keys if not C.differs(k) and k not in controls]
        keys = [k for i, k in enumerate(differ) if i % 2 == pick_d] + [k for i, k in enumerate(families) if i % 2 == pick_f] + \
               [k for i, k in enumerate(controls) if i % 4 == pick]
    for key in keys:
        done, tries = 0, 0
        # the shapes that plant look-alikes whose meanings differ are planted in both text orders
        want = 2 if "far" in key or "qtype-vacuous" in key else per_shape
        while done < want and tries < 50:
            tries += 1
            w = G.gen_world(rng, max_actions=2)
            hints = C.shape(rng, w, key, order=done % 2 if want > 1 else None)
            if hints:
                worlds.append(build_world(rng, w, noise=[False, True, 2][(done + len(shaped)) % 3], hints=hints))
                done += 1
        shaped[key] = done
    # negated numeric comparisons, every operator x context (quick: one world each, thorough: four), probed on the action
    # that carries the construct in states where the two sides are equal / within EPSILON / clearly apart, both ways
    for kind in [k for k in C.PLANTERS if k.startswith("neg-cmp:")]:
        done, tries = 0, 0
        while done < max(1, per_kind // 2) and tries < 200:
            tries += 1
            w = G.gen_world(rng, max_actions=2)
            if C.plant(rng, w, kind):
                worlds.append(build_world(rng, w, noise=[False, True, 2][(done + len(planted)) % 3], hints=w.probe_hints))
                done += 1
        planted[kind] = done
    return worlds, planted, shaped


def run(args):
    rep = Report(PROP, args.tier, args.seed)
    if not args.replay:
        clean_replays()
    standard_proof_part(rep, PROP)
    rng = random.Random(args.seed * 104729 + 1)
    planted, shaped = {}, {}
    # the generator of near-duplicate texts follows the library's own tolerance and printing precisions
    ccfg = run_impl([{"op": "c01.config"}], nproc=1)[0]
    if "epsilon" in ccfg:
        C.configure(float.fromhex(ccfg["epsilon"]), ccfg["condition_digits"], ccfg["digits"])
    if args.replay:
        data = json.load(open(args.replay))
        worlds = [data["input"]["world"]]
        for wd in worlds:
            wd.setdefault("source", "replay")
    else:
        gen, planted, shaped = generate(rng, args.tier)
        worlds = corpus_worlds() + gen + fixture_worlds(args.tier, args.seed)
    cfg = run_impl([{"op": "core.numeric_config"}], nproc=1)[0]
    hashseeds = [0] if args.tier == "quick" else [0, 1]
    all_cases, all_verdicts, info_total = [], "", {"shards": 0, "shard_errors": [], "cmd": ""}
    stats = {"worlds": 0, "by_source": {}, "parsed": 0, "parse_raised": 0, "probes": 0, "app_true": 0, "app_false": 0,
             "app_raised": 0, "succ_returned": 0, "succ_refused_or_raised": 0, "features": {}, "oof_planted": planted,
             "oof_outcomes": {}, "fixtures": {}, "productions": {},
             "shapes_planted": shaped, "shape_outcomes": {}}
    for hs in hashseeds:
        results = run_worlds(worlds, hashseed=hs)
        lits, units = [], []
        for wd, res in zip(worlds, results):
            lit, u = cworld_literal(wd, res, cfg["epsilon"])
            lits.append(lit)
            units.append(u)
        verdicts, info = run_case_shards(PROP, CORR, lits, shard_size=12, units=units, header_extra=HEADER,
                                         max_bytes=120_000)
        info_total["shards"] += info["shards"]
        info_total["shard_errors"] += info["shard_errors"]
        info_total["cmd"] = info["cmd"]
        flat = flatten_units(worlds, results)
        for u, ch in zip(flat, verdicts):
            wd, res = worlds[u["world"]], results[u["world"]]
            inp = {"world": {k: wd.get(k) for k in ("domain_text", "objects", "oof", "oof_kind", "oof_action", "probes", "features", "source", "shape")},
                   "unit": u, "hashseed": hs,
                   "implementation": (res.get("probes", [None] * (u.get("probe", 0) + 1))[u["probe"]] if "probe" in u
                                      else {k: res.get(k) for k in ("vocab", "parse_raised")})}
            if "probe" in u:
                inp["probe"] = wd["probes"][u["probe"]]
                inp["world"] = dict(inp["world"], probes=[wd["probes"][u["probe"]]])
            nontrivial = (wd["source"] != "generated" or bool(wd["features"]) or wd["oof"]) and \
                         (u["kind"] == "parse" or len(wd["probes"][u["probe"]]["state"]["facts"]) > 0)
            all_cases.append({"lit": lits[u["world"]], "input": inp, "nontrivial": nontrivial,
                              "witness_of": wd.get("witness_of")})
            all_verdicts += ch
        if hs == hashseeds[0]:
            # how many generated in-fragment texts (a sample) and - thorough tier - shipped files the decidable fragment G
            # contains (reporting only: 'in G => accepted' is part of every world's verdict)
            import re as _re
            gen_idx = [i for i, wd in enumerate(worlds) if wd["source"] == "generated" and not wd["oof"]]
            groups = [("generated_in_fragment_sample", gen_idx[:20] + gen_idx[-20:] if len(gen_idx) > 40 else gen_idx)]
            if args.tier != "quick":
                groups.append(("shipped_files", [i for i, wd in enumerate(worlds) if wd["source"].startswith("fixture")]))
            for label, idx in groups:
                if not idx:
                    continue
                out = coq_eval(PROP, CORR, "count_in_G [%s]" % ";\n".join(text_only_literal(worlds[i], results[i], cfg["epsilon"]) for i in idx),
                               name="count_in_G_" + label, header_extra=HEADER)
                m = _re.search(r"=\s*(\d+)\s*:\s*nat", out)
                stats.setdefault("in_G", {})[label] = {"in_G": int(m.group(1)) if m else None, "of": len(idx)}
            for wd, res in zip(worlds, results):
                stats["worlds"] += 1
                src = wd["source"].split(":")[0]
                stats["by_source"][src] = stats["by_source"].get(src, 0) + 1
                for f in wd["features"]:
                    stats["features"][f] = stats["features"].get(f, 0) + 1
                if wd.get("tree"):
                    C.census(wd["tree"], stats["productions"])
                raised = "vocab" not in res
                if wd["source"].startswith("fixture"):
                    for rel in [wd["source"][8:]] + wd.get("same_as", []):
                        stats["fixtures"][rel] = ("raised " + res["parse_raised"]["raised"]) if raised else "parsed"
                if wd.get("oof_kind"):
                    o = stats["oof_outcomes"].setdefault(wd["oof_kind"], {"parse-raised": 0, "use-raised": 0, "returned": 0, "not-probed": 0})
                    if raised:
                        o["parse-raised"] += 1
                    else:
                        prs = [r for pr, r in zip(wd["probes"], res.get("probes", []))
                               if not wd.get("oof_action") or pr["action"] == wd["oof_action"]]
                        if not prs:
                            o["not-probed"] += 1
                        elif all("value" not in r.get("app", {}) and "value" not in r.get("succ", {}) for r in prs):
                            o["use-raised"] += 1
                        else:
                            o["returned"] += 1
                if wd.get("shape"):
                    fam = wd["shape"].split(":")[0]
                    o = stats["shape_outcomes"].setdefault(fam, {"worlds": 0, "parse-raised": 0, "focus_probes": 0, "app_true": 0,
                                                                 "app_false": 0, "app_raised": 0, "succ_returned": 0})
                    o["worlds"] += 1
                    if raised:
                        o["parse-raised"] += 1
                    else:
                        for pr, r in zip(wd["probes"], res["probes"]):
                            o["focus_probes"] += 1
                            av = r.get("app", {})
                            o["app_true" if av.get("value") is True else "app_false" if av.get("value") is False else "app_raised"] += 1
                            o["succ_returned"] += 1 if "value" in r.get("succ", {}) else 0
                if raised:
                    stats["parse_raised"] += 1
                    continue
                stats["parsed"] += 1
                for pr, r in zip(wd["probes"], res["probes"]):
                    stats["probes"] += 1
                    a = r.get("app", {})
                    if "value" in a:
                        stats["app_true" if a["value"] else "app_false"] += 1
                    else:
                        stats["app_raised"] += 1
                    stats["succ_returned" if "value" in r.get("succ", {}) else "succ_refused_or_raised"] += 1
    decide(rep, PROP, CORR, all_cases, all_verdicts, info_total, explain_expr="explain %s", header_extra=HEADER,
           max_replays=5)
    cov = rep.coverage
    stats["named_by_property"] = {name: {k: planted.get(k, 0) for k in kinds} for name, kinds in C.NAMED_BY_PROPERTY.items()}
    cov["input_distribution"] = stats
    cov["hash_seeds"] = hashseeds
    cov["numeric_config"] = dict(cfg, **{k: v for k, v in ccfg.items() if k == "condition_digits"})
    cov["exhaustive"] = False
    cov["rule"] = ("worlds = findings' witnesses + generated typed domains (<=4 types in any declaration order, constants, 2-4 predicates, <=3 "
                   "functions, 1-3 actions; and/or/not/=/forall/comparison preconditions, add/del/assign/increase/decrease/when/forall-when effects), "
                   "rendered with layout, letter-case and comment noise (every 4th with c01_gen.render2: mixed-case names and variables, comments with "
                   "parentheses, CR LF, no blanks next to parentheses) + one domain per construct outside the supported fragment (c01_gen.PLANTERS: "
                   "every form the property names and neighbouring ones; expected: faithful, or an exception at parse or at every first use; the negated numeric comparisons "
                   "'neg-cmp:<op>:<context>' = (not (<op> a b)) for <= >= < > = as a precondition / under a nested and / or / in a forall "
                   "body / as a (nested, forall-) when antecedent are probed on their action in 7 states: both sides equal, EPSILON/2 "
                   "apart, 1 apart, 2 EPSILON apart - each both ways -, sibling literals neutral) + "
                   "in-fragment SHAPES (c01_gen.SHAPES, expected: accepted and faithful): sibling conditions / conditional effects that are the same "
                   "text up to a far decimal of a constant (agreeing to the library's printing precisions, read from the library: "
                   "numeric_config.condition_digits / digits), an exact copy, operand order, one polarity, (= a b) vs (not (= a b)), the quantified "
                   "type; sibling leaves that repeat / contradict; deep nesting; forall in when antecedents; constants in quantifier ranges (D30) and "
                   "before variables; binary functions, ternary predicates; equal operands; long numerals; shadowing, empty bodies, (= ?x ?x), "
                   "comparison forms - each probed on the action that carries the shape in 3 states chosen to separate the siblings (hinted facts all "
                   "false / all true, or the regime under which the siblings' literals are neutral; fluent values between the two constants, shifted by "
                   "EPSILON where the comparison is tolerant; then a random state), 4 calls "
                   "(quick: half of the shapes whose siblings differ in meaning - the 'far' ones in both text orders - half of the other families and a quarter of the controls, by seed; thorough: 2 worlds per shape) + every domain file shipped under "
                   "/repo/tests, once per distinct content (quick: up to 10 kB + one larger; vocabulary / raised compared, behaviour not probed). "
                   "Other parsed worlds are probed with 2-3 objects, one random state, two type-correct calls per action; units = vocabulary (parse), "
                   "applicability (app), successor (succ). productions = census of grammar productions over the generated texts. A unit is "
                   "non-trivial when its world is not a feature-less generated one and (for probes) the state has facts; distinct by input hash.")
    cov["samples"] = [c["input"]["world"]["domain_text"][:500] for c in all_cases[:1]] + \
                     [c["input"]["world"]["domain_text"][:300] for c in all_cases if c["input"]["world"].get("oof_kind")][:2]
    rep.assumptions = ["ASCII / latin-1 text (other characters of shipped files are replaced by '?' for both sides)",
                       "float(token) is data: the implementation's float() on every token of the text is passed to model and spec",
                       "fluent magnitudes below 1e4; states define every fluent; inconsistent effect sets are skipped by the spec's own test"]
    return rep.finish()
