"""C06 — the subtype relation is the closure of the declared type tree, in any order; every place that checks or
ranges over types accepts an object exactly when its declared type is a subtype of the required type."""
import itertools
import json
import math
import random
import re
from collections import Counter
from pathlib import Path

from ..common import (REPO, Report, cobs, cstr, clist, decide, load_findings, run_case_shards, run_impl,
                      standard_proof_part, write_replay)

PROP = "C06"
# the same object / constant at two or three positions (all (T, R1, R2[, R3]) combinations of a small forest)
REPEAT_KINDS = ["rep2_fact", "rep2_goal", "rep2_cfact", "rep2_fluent", "rep2_cfluent",
                "rep3_fact", "rep3m_fact", "rep3_fluent", "rep3e_fluent"]
# trajectory fluents with a repeated argument (finding D31, repaired in 3c74fae: was a name-keyed type check), in cases of their own
TRAJ_REPEAT_KINDS = ["rep2_tfluent", "rep3_tfluent", "rep3m_tfluent", "rep3e_tfluent"]
CONST_KINDS = ["cforall_pre", "cforall_eff"]       # D30 (repaired): quantifiers over constants, in cases of their own
# several quantifiers in ONE action: shapes of the generated actions (see quant_domain_text)
QUANT_SHAPES = ["eff", "pre", "when", "npre", "neff"]
VAR_PATTERNS = {2: [("?x", "?x"), ("?x", "?y")], 3: [("?x", "?x", "?x"), ("?x", "?y", "?x"), ("?y", "?x", "?x")]}
SITE_KINDS = ["fact", "goal", "fact2", "fluent", "fluent2", "cfact", "cfluent", "tfluent", "tfact",
              "forall_pre", "forall_eff", "joint_eff"]


# ------------------------------------------------------------------------------------------------ forests
def forests(maxn=6, maxd=4, maxw=4):
    """all unlabelled rooted forests (root = object) with <= maxn types, depth <= maxd, every node (object
    included) with <= maxw children; as parent arrays: par[i] in 0..i is the parent of type i+1 (0 = object)"""
    seen, out = set(), []

    def canon(par):
        ch = {i: [] for i in range(len(par) + 1)}
        for i, p in enumerate(par):
            ch[p].append(i + 1)

        def enc(v):
            return "(" + "".join(sorted(enc(c) for c in ch[v])) + ")"
        return enc(0)

    for n in range(1, maxn + 1):
        for par in itertools.product(*[range(0, i + 1) for i in range(n)]):
            d = {0: 0}
            for i, p in enumerate(par):
                d[i + 1] = d[p] + 1
            if max(d.values()) > maxd or max(Counter(par).values()) > maxw:
                continue
            c = canon(par)
            if c in seen:
                continue
            seen.add(c)
            out.append(par)
    return out


def set_partitions(xs):
    if not xs:
        yield []
        return
    x, rest = xs[0], xs[1:]
    for p in set_partitions(rest):
        yield [[x]] + p
        for i in range(len(p)):
            yield p[:i] + [[x] + p[i]] + p[i + 1:]


def regroupings(par, maxlines=5):
    """every way of writing the forest as declaration lines: the children of each parent split into groups in
    every way; every root either in a '- object' group, or a trailing untyped name, or (when it is somebody's
    parent) not declared on a left-hand side at all.  Returns [(lines [(children, parent)], trailing)]."""
    ch = {}
    for i, p in enumerate(par):
        ch.setdefault(p, []).append(i + 1)
    roots = ch.get(0, [])
    parents = [p for p in ch if p != 0]

    def root_modes(rs):
        if not rs:
            yield ([], [], [])
            return
        r, rest = rs[0], rs[1:]
        for e, t, o in root_modes(rest):
            yield ([r] + e, t, o)
            yield (e, [r] + t, o)
            if r in ch:
                yield (e, t, [r] + o)
    res = []
    for e, t, _o in root_modes(roots):
        choices = [list(set_partitions(ch[p])) for p in parents] + [list(set_partitions(e))]
        for combo in itertools.product(*choices):
            lines = []
            for p, part in zip(parents + [0], combo):
                for g in part:
                    lines.append((tuple(g), p))
            if len(lines) + (1 if t else 0) > maxlines:
                continue
            res.append((lines, tuple(t)))
    return res


def name_map(n, rng=None):
    names = ["t%d" % i for i in range(1, n + 1)]
    if rng is not None:
        rng.shuffle(names)
    m = {0: "object"}
    for i in range(n):
        m[i + 1] = names[i]
    return m


def apply_names(lines, trailing, nm):
    return [([nm[c] for c in cs], nm[p]) for cs, p in lines], [nm[c] for c in trailing]


def types_tokens(groups, trailing):
    toks = []
    for cs, p in groups:
        toks += list(cs) + ["-", p]
    return toks + list(trailing)


def all_names(groups, trailing):
    s = {"object"}
    for c, p in decl_pairs(groups, trailing):
        s.add(c)
        s.add(p)
    return sorted(s)


def decl_pairs(groups, trailing):
    return [(c, p) for cs, p in groups for c in cs] + [(c, "object") for c in trailing]


def depth_of(groups, trailing):
    par = dict(decl_pairs(groups, trailing))
    best = 0
    for t in par:
        d, x, seen = 0, t, set()
        while x != "object" and x not in seen:
            seen.add(x)
            x = par.get(x, "object")
            d += 1
        best = max(best, d)
    return best


# ------------------------------------------------------------------------------------------------ texts
def table_domain_text(groups, trailing):
    return "(define (domain c06) (:requirements :typing) (:types %s) (:predicates (p ?x - object)))" % (
        " ".join(types_tokens(groups, trailing)))


def site_domain_text(groups, trailing, names):
    consts = " ".join("k%s - %s" % (t, t) for t in names)
    preds = "(m ?x - object) (hit ?x - object) " + " ".join(
        "(q%s ?x - %s) (w%s ?x - object ?y - %s)" % (t, t, t, t) for t in names)
    funcs = " ".join("(f%s ?x - %s) (g%s ?x - object ?y - %s)" % (t, t, t, t) for t in names)
    acts = []
    for r in names:
        acts.append("(:action chk%s :parameters () :precondition (and (forall (?v - %s) (and (m ?v)))) "
                    ":effect (and (hit kobject)))" % (r, r))
        acts.append("(:action eff%s :parameters () :precondition (and ) "
                    ":effect (and (forall (?v - %s) (when (m ?v) (hit ?v)))))" % (r, r))
    return ("(define (domain c06) (:requirements :typing :universal-preconditions :conditional-effects :fluents)\n"
            " (:types %s)\n (:constants %s)\n (:predicates %s)\n (:functions %s)\n %s)" % (
                " ".join(types_tokens(groups, trailing)), consts, preds, funcs, "\n ".join(acts)))


def repeat_domain_text(groups, trailing, names):
    """binary and ternary predicates / functions for EVERY combination of required types"""
    consts = " ".join("k%s - %s" % (t, t) for t in names)
    preds, funcs = [], []
    for r1 in names:
        for r2 in names:
            preds.append("(b_%s_%s ?x - %s ?y - %s)" % (r1, r2, r1, r2))
            funcs.append("(fb_%s_%s ?x - %s ?y - %s)" % (r1, r2, r1, r2))
            for r3 in names:
                preds.append("(c_%s_%s_%s ?x - %s ?y - %s ?z - %s)" % (r1, r2, r3, r1, r2, r3))
                funcs.append("(fc_%s_%s_%s ?x - %s ?y - %s ?z - %s)" % (r1, r2, r3, r1, r2, r3))
    return ("(define (domain c06) (:requirements :typing :fluents)\n (:types %s)\n (:constants %s)\n"
            " (:predicates %s)\n (:functions %s))" % (" ".join(types_tokens(groups, trailing)), consts,
                                                      " ".join(preds), " ".join(funcs)))


def quant_action_text(act):
    """one action with several quantifiers; the j-th quantifier has the variable vars[j], the type types[j], reads (m<j> .)
    and (as an effect) writes (hit<j> .)"""
    vs, ts, name, shape = act["vars"], act["types"], act["name"], act["shape"]
    n = len(ts)
    if shape == "eff":
        pre = "(and )"
        eff = "(and %s)" % " ".join("(forall (%s - %s) (when (m%d %s) (hit%d %s)))" % (vs[j], ts[j], j + 1, vs[j], j + 1, vs[j])
                                    for j in range(n))
    elif shape == "pre":
        pre = "(and %s)" % " ".join("(forall (%s - %s) (and (m%d %s)))" % (vs[j], ts[j], j + 1, vs[j]) for j in range(n))
        eff = "(and (fin kobject))"
    elif shape == "when":
        pre = "(and )"
        eff = "(and (when (and %s) (fin kobject)))" % " ".join(
            "(forall (%s - %s) (and (m%d %s)))" % (vs[j], ts[j], j + 1, vs[j]) for j in range(n))
    elif shape == "npre":            # the inner quantifier re-binds (or not) the outer one's variable
        pre = "(and (forall (%s - %s) (and (m1 %s) (forall (%s - %s) (and (m2 %s))))))" % (vs[0], ts[0], vs[0], vs[1], ts[1], vs[1])
        eff = "(and (fin kobject))"
    elif shape == "neff":            # a quantified condition inside the antecedent of a quantified effect
        pre = "(and )"
        eff = "(and (forall (%s - %s) (when (and (m1 %s) (forall (%s - %s) (and (m2 %s)))) (hit1 %s))))" % (
            vs[0], ts[0], vs[0], vs[1], ts[1], vs[1], vs[0])
    else:
        raise ValueError(shape)
    return "(:action %s :parameters () :precondition %s :effect %s)" % (name, pre, eff)


def quant_domain_text(groups, trailing, names, acts):
    consts = " ".join("k%s - %s" % (t, t) for t in names)
    preds = " ".join("(m%d ?x - object) (hit%d ?x - object)" % (k, k) for k in (1, 2, 3)) + " (fin ?x - object)"
    return ("(define (domain c06) (:requirements :typing :universal-preconditions :conditional-effects)\n"
            " (:types %s)\n (:constants %s)\n (:predicates %s)\n %s)" % (
                " ".join(types_tokens(groups, trailing)), consts, preds, "\n ".join(quant_action_text(a) for a in acts)))


def quant_actions(rng, names, per_shape):
    """actions whose quantifiers REUSE a variable name with different types, with the same type, and (control) use
    distinct names; type tuples drawn from all tuples over the section's names (all of them when they are few)"""
    acts = []
    for shape in QUANT_SHAPES:
        arities = [2, 3] if shape in ("eff", "pre", "when") else [2]
        for n in arities:
            tuples = list(itertools.product(names, repeat=n))
            budget = per_shape if n == 2 else max(2, per_shape // 3)
            if shape != "eff":                       # one run per (quantifier, entity): fewer of them
                budget = max(2, budget // 2)
            if len(tuples) > budget:
                same = [t for t in tuples if len(set(t)) == 1]
                picked = rng.sample(tuples, budget - 1) + [rng.choice(same)]
            else:
                picked = tuples
            for ts in picked:
                pats = VAR_PATTERNS[n]
                # the reused-name pattern always; the others now and then
                for vs in [pats[0]] + [q for q in pats[1:] if rng.random() < 0.25]:
                    acts.append({"name": "a%d" % len(acts), "shape": shape, "types": list(ts), "vars": list(vs)})
    return acts


# ------------------------------------------------------------------------------------------------ cases
def mk_quant_case(groups, trailing, rng, per_shape, hashseed):
    groups = [(list(cs), p) for cs, p in groups]
    trailing = list(trailing)
    names = all_names(groups, trailing)
    objs = [["o" + t, t] for t in names] + [["zz", "object"]]
    rng.shuffle(objs)
    acts = quant_actions(rng, names, per_shape)
    return {"groups": groups, "trailing": trailing, "names": names, "kind": "forest-quantifiers", "sites": False,
            "quant": True, "witness_of": None, "objects": objs, "ents": objs + [["k" + t, t] for t in names],
            "acts": acts, "hashseed": hashseed, "domain_text": quant_domain_text(groups, trailing, names, acts)}


def mk_case(groups, trailing, kind, sites=False, rng=None, witness_of=None, names=None, kinds=None, klass=None):
    groups = [(list(cs), p) for cs, p in groups]
    trailing = list(trailing)
    names = names or all_names(groups, trailing)
    c = {"groups": groups, "trailing": trailing, "names": names, "kind": kind, "sites": bool(sites),
         "witness_of": witness_of, "klass": klass}
    if sites:
        objs = [["o" + t, t] for t in names] + [["zz", "object"]]
        if rng is not None:
            rng.shuffle(objs)
        c["objects"] = objs
        c["kinds"] = list(kinds or SITE_KINDS)
        if c["kinds"][0].startswith("rep"):
            c["domain_text"] = repeat_domain_text(groups, trailing, names)
        else:
            c["domain_text"] = site_domain_text(groups, trailing, names)
    else:
        c["domain_text"] = table_domain_text(groups, trailing)
    return c


def job_of(c):
    if c.get("path"):
        return {"op": "c06.table_file", "path": c["path"], "names": c["names"]}
    if c.get("quant"):
        return {"op": "c06.quant", "domain_text": c["domain_text"], "names": c["names"], "objects": c["objects"],
                "ents": c["ents"], "acts": c["acts"]}
    if c["sites"]:
        return {"op": "c06.sites", "domain_text": c["domain_text"], "names": c["names"], "objects": c["objects"],
                "kinds": c["kinds"]}
    return {"op": "c06.table", "domain_text": c["domain_text"], "names": c["names"]}


def cgroups(groups):
    return clist(["(%s, %s)" % (clist([cstr(x) for x in cs]), cstr(p)) for cs, p in groups])


def case_lit(c, res):
    raised = "raised" in res
    types = None if raised else ",".join(res["types"])
    table = "" if raised else res["table"]
    edges = "" if raised else ",".join(res["edges"])
    if c["sites"] and not raised:
        obs = clist(["(%s, %s)" % (cstr(k), cstr(res["sites"][k])) for k in c["kinds"]])
        objs = clist(["(%s, %s)" % (cstr(n), cstr(t)) for n, t in c["objects"]])
        sites = "(Some {| s_text := %s; s_objs := %s; s_obs := %s |})" % (cstr(c["domain_text"]), objs, obs)
    else:
        sites = "None"
    quant = "None"
    if c.get("quant") and not raised:
        acts = clist(["{| qa_name := %s; qa_shape := %s; qa_types := %s; qa_obs := %s |}" % (
            cstr(a["name"]), cstr(a["shape"]), clist([cstr(t) for t in a["types"]]), cstr(res["quant"][a["name"]]))
            for a in c["acts"]])
        quant = "(Some {| q_text := %s; q_objs := %s; q_ents := %s; q_acts := %s |})" % (
            cstr(c["domain_text"]), clist(["(%s, %s)" % (cstr(n), cstr(t)) for n, t in c["objects"]]),
            clist(["(%s, %s)" % (cstr(n), cstr(t)) for n, t in c["ents"]]), acts)
    if sites == "None" and quant == "None" and c.get("raw") is None and c["names"] == all_names(c["groups"], c["trailing"]):
        return "tc %s %s %s %s %s" % (cgroups(c["groups"]), clist([cstr(x) for x in c["trailing"]]), cobs(types),
                                      cstr(table), cstr(edges))
    return ("{| c_groups := %s; c_trailing := %s; c_names := %s; c_types := %s; c_table := %s; c_edges := %s; "
            "c_sites := %s; c_quant := %s; c_raw := %s |}" % (
                cgroups(c["groups"]), clist([cstr(x) for x in c["trailing"]]), clist([cstr(x) for x in c["names"]]),
                cobs(types), cstr(table), cstr(edges), sites, quant,
                "(Some %s)" % csexps(c["raw"]) if c.get("raw") is not None else "None"))


def csexps(toks):
    return clist([("SList %s" % csexps(t)) if isinstance(t, list) else "Atom %s" % cstr(t) for t in toks])


def raw_text(toks):
    return " ".join("(%s)" % raw_text(t) if isinstance(t, list) else t for t in toks)


def raw_atoms(toks):
    out = []
    for t in toks:
        out += raw_atoms(t) if isinstance(t, list) else [t]
    return out


def mk_raw_case(toks):
    """a (:types ...) body that is NOT a list of groups + trailing names (a list where a name is expected, a dangling dash, ...):
    no expectation from the property, the implementation is compared with the model"""
    names = sorted(set(x for x in raw_atoms(toks) if x != "-") | {"object"})
    return {"groups": [], "trailing": [], "names": names, "kind": "raw-shape", "sites": False, "witness_of": None, "raw": toks,
            "domain_text": "(define (domain c06) (:requirements :typing) (:types %s) (:predicates (p ?x - object)))" % raw_text(toks)}


RAW_SHAPES = [
    ["-", ["x"]],                       # a list right after a dash while no name is pending: assigned to nobody, accepted
    ["-", ["x"], "a", "-", "b"], ["a", "-", "b", "-", ["x"]], ["-", ["x", "y"], "-", ["z"], "a"], ["-", []],
    ["a", "-", ["x"]], ["a", "b", "-", ["x"], "c"], [["a"], "-", "x"], [["a"]], ["a", ["b"]], ["a", "-"], ["-"], ["-", "-"],
    ["-", "x"], ["-", "x", "a", "-", "x"], ["a", "-", "b", "-", "c"], ["a", "-", "-"], ["a", "-", "-", "-", "b"],
    ["a", "-", "b", "-"], ["-", ["x"], "-"],
]


def make_cyclic(groups, trailing, rng):
    """turn the declaration of a root that has a descendant at depth >= 2... into 'root - descendant'"""
    par = dict(decl_pairs(groups, trailing))
    kids = {}
    for c, p in par.items():
        kids.setdefault(p, []).append(c)

    def desc(x):
        out = []
        for k in kids.get(x, []):
            out += [k] + desc(k)
        return out
    cands = [(x, d) for x in all_names(groups, trailing) if x != "object" for d in desc(x)]
    if not cands:
        return None
    x, d = rng.choice(cands)
    # remove x from wherever it is declared, then declare 'x - d'
    g2 = []
    for cs, p in groups:
        cs2 = [c for c in cs if c != x]
        if cs2:
            g2.append((cs2, p))
    t2 = [c for c in trailing if c != x]
    g2.insert(rng.randint(0, len(g2)), ([x], d))
    return g2, t2


def rand_forest(rng, n, maxd):
    par, depth = [], {0: 0}
    for i in range(n):
        while True:
            p = rng.randint(0, i)
            if depth[p] + 1 <= maxd:
                break
        par.append(p)
        depth[i + 1] = depth[p] + 1
    return tuple(par)


def rand_arrangement(rng, par, maxlines=99):
    rgs = None
    ch = {}
    for i, p in enumerate(par):
        ch.setdefault(p, []).append(i + 1)
    lines, trailing = [], []
    for p, cs in ch.items():
        cs = list(cs)
        rng.shuffle(cs)
        if p == 0:
            rest = []
            for r in cs:
                mode = rng.choice(["explicit", "trailing"] + (["omit"] if r in ch else []))
                if mode == "trailing":
                    trailing.append(r)
                elif mode == "explicit":
                    rest.append(r)
            cs = rest
        while cs:
            k = rng.randint(1, len(cs))
            lines.append((tuple(cs[:k]), p))
            cs = cs[k:]
    rng.shuffle(lines)
    return lines, tuple(trailing)


FIXTURE_TYPES_RE = re.compile(r"\(:types\b([^()]*)\)", re.S | re.I)


def fixture_sections(limit=None):
    """the (:types ...) sections of the domain files shipped under /repo/tests, as (groups, trailing)"""
    out, seen = [], set()
    for f in sorted(Path(REPO, "tests").rglob("*.pddl")):
        try:
            text = re.sub(r";.*", "", f.read_text(errors="replace")).lower()
        except OSError:
            continue
        if "(domain " not in text.replace("\n", " ") and "(domain\t" not in text:
            continue
        m = FIXTURE_TYPES_RE.search(text)
        if not m:
            continue
        toks = m.group(1).split()
        key = " ".join(toks)
        if key in seen or not toks:
            continue
        seen.add(key)
        groups, cur, i, ok = [], [], 0, True
        while i < len(toks):
            if toks[i] == "-":
                if i + 1 >= len(toks):
                    ok = False
                    break
                groups.append((cur, toks[i + 1]))
                cur = []
                i += 2
            else:
                cur.append(toks[i])
                i += 1
        if ok and all(re.fullmatch(r"[a-z0-9_\-]+", x) for x in toks):
            out.append((str(f.relative_to(REPO)), groups, cur))
    return out[:limit] if limit else out


def build_cases(rng, tier, seed=0):
    cases = []
    stats = Counter()
    # 0. recorded findings' witnesses
    for f in load_findings(PROP):
        w = f.get("witness", {})
        if "groups" in w:
            cases.append(mk_case([tuple(g) for g in w["groups"]], w.get("trailing", []), "finding-witness",
                                 sites=bool(w.get("kinds")), kinds=w.get("kinds"), rng=rng,
                                 witness_of=f["id"] if f.get("status") == "open" else None))
    # 1. corpus: the D03 witnesses (children before parents), cycles, odd shapes
    corpus = [
        ([(["a"], "b"), (["b"], "c"), (["c"], "d")], []),          # D03 witness: children first
        ([(["c"], "d"), (["b"], "c"), (["a"], "b")], []),
        ([(["a", "b"], "c")], ["d"]),
        ([(["a"], "b")], ["b"]),
        ([(["a"], "b"), (["b"], "a")], []),                        # cycle
        ([(["a"], "a")], []),
        ([(["b", "a"], "b")], []),
        ([(["a"], "b"), (["a"], "c")], []),                        # two parents: last wins (no expectation)
        ([(["a"], "b")], ["a"]),
        ([(["object"], "foo")], []),
        ([(["a"], "object")], ["b"]),
        ([], ["a", "b"]),
        ([([], "x")], []),
    ]
    for gs, tr in corpus:
        cases.append(mk_case(gs, tr, "corpus", sites=False))
    cases.append(mk_case([(["a"], "b"), (["b"], "c"), (["c"], "d")], ["e"], "corpus", sites=True, rng=rng))
    for toks in RAW_SHAPES:
        cases.append(mk_raw_case(toks))
    # 2. fixtures shipped with the repository
    for path, gs, tr in fixture_sections(12 if tier == "quick" else None):
        cases.append(mk_case(gs, tr, "fixture", sites=False))
        # ... and the shipped file itself, parsed as it is (whatever else it contains)
        fc = mk_case(gs, tr, "fixture-file", sites=False)
        fc["path"] = str(Path(REPO, path))
        fc["fixture"] = path
        cases.append(fc)
        stats["fixture_sections"] += 1
    # 3. exhaustive forests x regroupings x permutations of the lines
    fs = forests()
    stats["forests"] = len(fs)
    exhaustive = (tier == "thorough")
    n_arr = 0
    for fi, par in enumerate(fs):
        rgs = regroupings(par)
        stats["regroupings"] += len(rgs)
        # quick: a full site case for every other forest (which half rotates with the seed)
        site_budget = (1 if (fi + seed) % 2 == 0 else 0) if tier == "quick" else None
        site_pick = set(rng.sample(range(len(rgs)), min(len(rgs), 8))) if tier == "thorough" else set()
        for ri, (lines, trailing) in enumerate(rgs):
            nperm = math.factorial(len(lines))
            n_arr += nperm
            if exhaustive:
                perms = itertools.permutations(lines)
            else:
                # quick: a sample of the permutations of a sample of the regroupings
                if rng.random() > min(1.0, 14.0 / len(rgs)):
                    continue
                perms = [tuple(rng.sample(lines, len(lines))) for _ in range(1 if nperm < 6 else 2)]
            for perm in perms:
                nm = name_map(len(par), rng if rng.random() < 0.5 else None)
                gs, tr = apply_names(perm, trailing, nm)
                if rng.random() < 0.3:
                    gs = [(rng.sample(cs, len(cs)), p) for cs, p in gs]
                    tr = rng.sample(tr, len(tr))
                cases.append(mk_case(gs, tr, "forest", sites=False))
            # sites (every (object type, required type) pair at every site): they depend on the parsed table only,
            # which is compared for EVERY arrangement above; thorough: up to 8 regroupings of every forest, each in a
            # random order of its lines; quick: one arrangement for every other forest
            if (tier == "thorough" and ri in site_pick) or (site_budget and rng.random() < 3.0 / len(rgs)):
                if tier == "quick":
                    site_budget = 0
                perm = rng.sample(lines, len(lines))
                nm = name_map(len(par), rng if rng.random() < 0.5 else None)
                gs, tr = apply_names(perm, trailing, nm)
                cases.append(mk_case(gs, tr, "forest-sites", sites=True, rng=rng))
        if tier == "quick" and site_budget:
            lines, trailing = rng.choice(rgs)
            gs, tr = apply_names(rng.sample(lines, len(lines)), trailing, name_map(len(par), rng))
            cases.append(mk_case(gs, tr, "forest-sites", sites=True, rng=rng))
    stats["arrangements_in_scope"] = n_arr
    # 3a. repeated arguments: every forest with <= 3 types, all (T, R1, R2[, R3]) combinations
    small = [par for par in fs if len(par) <= 3]
    stats["small_forests_for_repeats"] = len(small)
    for par in small:
        for _ in range(1 if tier == "quick" else 3):
            lines, trailing = rng.choice(regroupings(par))
            gs, tr = apply_names(rng.sample(lines, len(lines)), trailing, name_map(len(par), rng))
            cases.append(mk_case(gs, tr, "forest-repeats", sites=True, rng=rng, kinds=REPEAT_KINDS))
            cases.append(mk_case(gs, tr, "forest-trajectory-repeats", sites=True, rng=rng, kinds=TRAJ_REPEAT_KINDS))
    # 3b. quantifiers over CONSTANTS through the library's pipeline (finding D30), in cases of their own
    for par in (rng.sample(fs, 6) if tier == "quick" else fs):
        lines, trailing = rng.choice(regroupings(par))
        gs, tr = apply_names(rng.sample(lines, len(lines)), trailing, name_map(len(par), rng))
        cases.append(mk_case(gs, tr, "forest-constants", sites=True, rng=rng, kinds=CONST_KINDS))
    # 3c. SEVERAL quantifiers in one action (effects, preconditions, 'when' antecedents, nested) that reuse a variable name with
    #     different / equal types; objects and constants of every type; under several PYTHONHASHSEEDs (the quantified effects
    #     of an action live in a set).  Forests of depth >= 2 first.
    deep = [par for par in fs if max(par) >= 1 and len(par) <= 5]
    if tier == "quick":
        chosen = rng.sample([p_ for p_ in deep if len(p_) <= 4], 4) + rng.sample(deep, 2)
        per_shape = 8
    else:
        chosen = [p_ for p_ in fs if len(p_) <= 4] + rng.sample(deep, 8)
        per_shape = 14
    for qi, par in enumerate(chosen):
        lines, trailing = rng.choice(regroupings(par))
        gs, tr = apply_names(rng.sample(lines, len(lines)), trailing, name_map(len(par), rng))
        cases.append(mk_quant_case(gs, tr, rng, per_shape, hashseed=seed + qi % (3 if tier == "quick" else 5)))
    # ... and a larger random forest
    for qi in range(1 if tier == "quick" else 3):
        n = rng.randint(5, 7)
        par = rand_forest(rng, n, rng.randint(2, 5))
        lines, trailing = rand_arrangement(rng, par)
        gs, tr = apply_names(lines, trailing, name_map(n, rng))
        cases.append(mk_quant_case(gs, tr, rng, per_shape, hashseed=seed + 7 + qi))
    # 4. cyclic variants, two-parent variants
    base = [c for c in cases if c["kind"] == "forest"]
    for c in rng.sample(base, min(len(base), 150 if tier == "quick" else 1500)):
        cyc = make_cyclic([(list(cs), p) for cs, p in c["groups"]], c["trailing"], rng)
        if cyc:
            cases.append(mk_case(cyc[0], cyc[1], "cyclic", sites=False))
    for c in rng.sample(base, min(len(base), 40 if tier == "quick" else 300)):
        pairs = decl_pairs(c["groups"], c["trailing"])
        if len(pairs) >= 2:
            (x, _), (_, q) = rng.sample(pairs, 2)
            gs = [(list(cs), p) for cs, p in c["groups"]]
            gs.insert(rng.randint(0, len(gs)), ([x], q))
            cases.append(mk_case(gs, c["trailing"], "two-parents", sites=False))
    # 4b. 'object' on a left-hand side (the declaration is dropped, its parent becomes a type): model agreement only
    for c in rng.sample(base, min(len(base), 20 if tier == "quick" else 200)):
        names_c = [n for n in all_names(c["groups"], c["trailing"]) if n != "object"]
        gs = [(list(cs), p) for cs, p in c["groups"]]
        q = rng.choice(names_c + ["zz9"])
        if rng.random() < 0.5 and gs:
            k = rng.randrange(len(gs))
            cs = list(gs[k][0])
            cs.insert(rng.randint(0, len(cs)), "object")
            gs[k] = (cs, gs[k][1])
        else:
            gs.insert(rng.randint(0, len(gs)), (["object"], q))
        cases.append(mk_case(gs, c["trailing"], "object-child", sites=False))
    # 5. random larger forests
    for _ in range(60 if tier == "quick" else 1500):
        n = rng.randint(5, 10)
        par = rand_forest(rng, n, rng.randint(2, 7))
        lines, trailing = rand_arrangement(rng, par)
        gs, tr = apply_names(lines, trailing, name_map(n, rng))
        cases.append(mk_case(gs, tr, "random-large", sites=False))
    for _ in range(3 if tier == "quick" else 40):
        n = rng.randint(4, 8)
        par = rand_forest(rng, n, rng.randint(2, 6))
        lines, trailing = rand_arrangement(rng, par)
        gs, tr = apply_names(lines, trailing, name_map(n, rng))
        cases.append(mk_case(gs, tr, "random-large-sites", sites=True, rng=rng))
    return cases, stats, exhaustive


def quant_diagnosis(c, res):
    """for the replay file only (the verdict is Coq's): the first action of a several-quantifiers case whose observed rows
    differ from 'touches e iff type(e) is a declared subtype of the quantified type', spelled out"""
    if not c.get("quant") or "quant" not in res:
        return None
    par = dict(decl_pairs(c["groups"], c["trailing"]))

    def sub(t, r):
        seen = set()
        while True:
            if t == r or r == "object":
                return True
            if t == "object" or t in seen:
                return False
            seen.add(t)
            t = par.get(t, "object")
    for a in c["acts"]:
        rows = res["quant"][a["name"]].split("|")
        for j, row in enumerate(rows):
            if a["shape"] in ("npre", "neff") and j == 1 and not any(sub(t, a["types"][0]) for _, t in c["ents"]):
                continue
            exp = "".join("1" if sub(t, a["types"][j]) else "0" for _, t in c["ents"])
            if row != exp:
                return {"action": quant_action_text(a), "quantifier": j + 1, "quantified_type": a["types"][j],
                        "touched": [e for (e, _), b in zip(c["ents"], row) if b == "1"] if row != "E" else "raised",
                        "declared_subtypes_are": [e for (e, _), b in zip(c["ents"], exp) if b == "1"],
                        "types": " ".join(types_tokens(c["groups"], c["trailing"])), "hashseed": c["hashseed"]}
    return None


def nontrivial(c):
    return depth_of(c["groups"], c["trailing"]) >= 2


def run(args):
    rep = Report(PROP, args.tier, args.seed)
    standard_proof_part(rep, PROP)
    rng = random.Random(args.seed * 104729 + 6)
    if args.replay:
        data = json.load(open(args.replay))
        cases, stats, exhaustive = [data["input"]["case"]], Counter(), False
    else:
        cases, stats, exhaustive = build_cases(rng, args.tier, args.seed)
    hashseeds = [0] if args.tier == "quick" else [0]
    import time as _time
    _t0 = _time.time()
    # the quantifier cases carry their own PYTHONHASHSEED (several per run); everything else runs under one
    results = [None] * len(cases)
    by_seed = {}
    for i, c in enumerate(cases):
        by_seed.setdefault(c.get("hashseed", hashseeds[0] + args.seed) if c.get("quant") else None, []).append(i)
    def _run_group(item):
        hs, idx = item
        if hs is None:
            return run_impl([job_of(cases[i]) for i in idx], hashseed=hashseeds[0] + args.seed)
        return run_impl([job_of(cases[i]) for i in idx], hashseed=hs, nproc=min(6, len(idx)))
    import concurrent.futures as _cf
    with _cf.ThreadPoolExecutor(max_workers=8) as _ex:
        for (hs, idx), rs in zip(by_seed.items(), _ex.map(_run_group, list(by_seed.items()))):
            for i, r in zip(idx, rs):
                results[i] = r
    _t_impl = _time.time() - _t0
    # a shipped file that raises for reasons of its own (e.g. starcraft_domain.pddl) says nothing about its types section
    skipped_files = [c["fixture"] for c, r in zip(cases, results) if c.get("path") and "raised" in r]
    keep = [i for i, (c, r) in enumerate(zip(cases, results)) if not (c.get("path") and "raised" in r)]
    cases, results = [cases[i] for i in keep], [results[i] for i in keep]
    records = []
    for c, res in zip(cases, results):
        inp = {"case": c, "implementation": res}
        diag = quant_diagnosis(c, res)
        if diag:
            inp["first_quantifier_that_touches_other_objects_than_the_declared_subtypes"] = diag
        records.append({"lit": case_lit(c, res), "input": inp,
                        "nontrivial": nontrivial(c), "witness_of": c.get("witness_of"), "klass": c.get("klass")})
    # about 12 shards or more (parallelism without paying the library load too often), at most 700 cases / 110 kB of literals per shard (parse time)
    verdicts, info = run_case_shards(PROP, "Corr.C06", [r["lit"] for r in records],
                                     shard_size=max(40, min(700, -(-len(records) // 12))), max_bytes=110_000)
    # a shard that failed to evaluate (coqc killed or a shared .vo rebuilt under it while other checks run) is
    # evaluated again, at most twice; what still fails is reported by decide() as a broken correspondence
    retried = 0
    for _attempt in range(2):
        bad = [i for i, ch in enumerate(verdicts) if ch == "?"]
        if not bad:
            break
        retried += len(bad)
        v2, info2 = run_case_shards(PROP, "Corr.C06", [records[i]["lit"] for i in bad],
                                    shard_size=max(40, min(700, -(-len(bad) // 12))), max_bytes=110_000)
        vl = list(verdicts)
        for i, ch in zip(bad, v2):
            vl[i] = ch
        verdicts = "".join(vl)
        info = {"shards": info["shards"], "shard_errors": info2["shard_errors"], "cmd": info["cmd"]}
    _t_coq = _time.time() - _t0 - _t_impl
    decide(rep, PROP, "Corr.C06", records, verdicts, info, explain_expr="explain (%s)")
    rep.coverage["cases_reevaluated_after_a_failed_shard"] = retried
    cov = rep.coverage
    cov["phase_seconds"] = {"implementation": round(_t_impl, 1), "coq_case_shards": round(_t_coq, 1)}
    cov["input_distribution"] = dict(Counter(c["kind"] for c in cases))
    cov["outcomes"] = {"parsed": sum(1 for r in results if "raised" not in r),
                       "rejected": sum(1 for r in results if "raised" in r)}
    cov["raised_classes"] = dict(Counter(r["raised"] for r in results if "raised" in r))
    cov["depth_distribution"] = dict(Counter(depth_of(c["groups"], c["trailing"]) for c in cases))
    cov["lines_distribution"] = dict(Counter(len(c["groups"]) + (1 if c["trailing"] else 0) for c in cases))
    cov["site_cases"] = sum(1 for c in cases if c["sites"])
    site_bits = Counter()
    for c, r in zip(cases, results):
        if c["sites"] and "sites" in r:
            for k, m in r["sites"].items():
                site_bits[k + ":accepted"] += m.count("1")
                site_bits[k + ":refused"] += m.count("0")
                site_bits[k + ":error"] += m.count("E")
    cov["site_probe_outcomes"] = dict(site_bits)
    qstats = Counter()
    for c, r in zip(cases, results):
        if c.get("quant") and "quant" in r:
            qstats["cases"] += 1
            qstats["hashseed=%d" % c["hashseed"]] += 1
            for a in c["acts"]:
                reused = len(set(a["vars"])) < len(a["vars"])
                diff = len(set(t for v, t in zip(a["vars"], a["types"]) if a["vars"].count(v) > 1)) > 1
                qstats["actions:" + a["shape"]] += 1
                qstats["actions with a reused variable name and different types" if reused and diff else
                       "actions with a reused variable name and one type" if reused else
                       "actions with distinct variable names"] += 1
                o = r["quant"][a["name"]]
                qstats["bits:touched"] += o.count("1")
                qstats["bits:not touched"] += o.count("0")
                qstats["actions that raised"] += 1 if o == "E" else 0
    cov["several_quantifiers_in_one_action"] = dict(qstats)
    cov["table_bits"] = {"true": sum(r.get("table", "").count("1") for r in results),
                         "false": sum(r.get("table", "").count("0") for r in results)}
    cov["scope"] = dict(stats)
    cov["fixture_files_skipped_because_they_raise"] = skipped_files
    cov["exhaustive"] = bool(exhaustive and not args.replay)
    cov["rule"] = ("all unlabelled type forests with <= 6 types, depth <= 4, <= 4 children per node (%s forests); each written in "
                   "every regrouping of its declaration lines (children of a parent split into groups in every way; a root either in a "
                   "'- object' group, a trailing untyped name, or - when it is a parent - never on a left-hand side), <= 5 lines, "
                   "under %s of the lines; type names t1..t6 assigned canonically or shuffled.  Observed per case: Domain.types keys, "
                   "all-pairs is_sub_type, create_type_hierarchy_graph edges; for site cases (%s) all (object type, required type) pairs at: "
                   "ProblemParser init fact / goal fact / 2nd argument / fluent / constant arguments, TrajectoryParser fluent and fact, "
                   "the SAME object / constant at 2 or 3 positions of a fact / goal / fluent for all (T, R1, R2[, R3]) of every forest with <= 3 types, "
                   "forall precondition (applicability on crafted states), forall-when effect (successor) and the same effect under joint execution (multi_agent.common.apply_actions); "
                   "ONE action with 2-3 quantified effects / quantified preconditions / quantified 'when' antecedents / a quantifier nested in a quantifier or in the antecedent of a quantified effect, "
                   "re-using a variable name with different types, with one type, or using distinct names, objects and constants of every type, under several PYTHONHASHSEEDs: which objects EACH quantifier touches.  Plus cyclic variants (must be "
                   "rejected), two-parent variants and 'object' on a left-hand side (model agreement only; what the model does there is proved: C06_any_section_*), token lists that are no sections (a list where a name is expected, dangling dashes; model agreement only), random forests with 5-10 types, the (:types) sections of the "
                   "repository's fixture domains.  Non-trivial: some type has a declared parent other than object (depth >= 2); distinct by input hash."
                   % (stats.get("forests", "-"),
                      "EVERY permutation" if exhaustive else "a sample of the permutations",
                      "up to 8 regroupings of every forest" if args.tier == "thorough" else "one arrangement for every other forest, the half rotating with the seed"))
    cov["samples"] = [{k: c[k] for k in ("groups", "trailing", "kind")} for c in cases[:2] + cases[len(cases) // 2:len(cases) // 2 + 2] + cases[-1:]]
    cov["explanation"] = ("theorems C06_* (Props/C06.v) proved on the Coq model for all sections; model tied to /repo by the cases above, "
                          "spec oracle = Spec.Types.closure_b evaluated inside Coq")
    rep.assumptions = ["type names are plain lower-case tokens", "PYTHONHASHSEED=%d (the several-quantifiers cases: %s)" % (
                           hashseeds[0] + args.seed, sorted(set(c["hashseed"] for c in cases if c.get("quant"))))]
    return rep.finish()
