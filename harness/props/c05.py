"""C05 — problem text is parsed faithfully and ill-formed facts are rejected.

Generated problems over generated domains (typed / grouped / untyped / :private object lists, subtypes, constants,
repeated arguments, zero-arity atoms, integer / decimal / negative / exponent numerals, numeric goals; names with '-'
and '_' that share prefixes), every single-point corruption of each valid problem - by an unrelated name and by a
near miss of every name the parser compares or looks up -, case variants (accepted), and the problem files shipped
under <repo>/tests (each against its domain).  The implementation's dump of the parsed Problem (or 'raised') is compared inside Coq with the model
(Model/Problem.v) and judged by the spec (Spec/Problem.v) and by the generator's a-priori expectation."""
import json
import random

from ..common import (Report, cbool, chex, clist, cstr, decide, esc, load_findings, run_case_shards, run_impl,
                      standard_proof_part, write_replay)
from .. import pddlgen as G

PROP = "C05"
CORR = "Corr.C05"
HEADER = "From Coq Require Import PrimFloat.\nFrom Verif Require Import Spec.Pddl Spec.Problem.\n"

# plain-decimal numerals whose repr() is in exponent form (|v| < 1e-4, >= 1e16), positive and negative: the exporter
# writes repr(float), so these exercise "the exported text uses a notation the source did not"
PLAIN_WITH_EXPONENT_REPR = ["0.00002", "-0.00002", "0.000000123", "25000000000000000", "-25000000000000000",
                            "10000000000000000", "-0.00009999", "123456789012345678"]
NUMERALS = ["0", "3", "-1", "2.5", "0.1", "-0.75", "1e3", "2.5e-2", "-1E2", "1e16", "123456.789",
            "0.30000000000000004", ".5", "5.", "+4", "7", "10", "-0.0", "1e-7", "42.125", "-7.25", "-300"] + PLAIN_WITH_EXPONENT_REPR
GOAL_NUMERALS = ["0", "1", "2.5", "-3", "0.1", "2.123456", "1e3", "0.00001", "7", "-0.5", "100.0625", "1e-7",
                 "-0.00002", "25000000000000000", "-25000000000000000", "0.000000123"]
CMPS = [">=", "<=", ">", "<", "="]


# ------------------------------------------------------------------------------------------------ Coq literals
def plain(s):
    assert esc(s) == s, "name needs no escaping: %r" % s
    return '"%s"' % s


def cpair(a, b):
    return "(%s, %s)" % (plain(a), plain(b))


def csig(rows):
    return clist([cpair(p, t) for p, t in rows])


def cvocab(v):
    return "{| v_name := %s; v_types := %s; v_consts := %s; v_preds := %s; v_funcs := %s |}" % (
        plain(v["name"]), csig(v["types"]), csig(v["consts"]),
        clist(["(%s, %s)" % (plain(n), csig(sg)) for n, sg in v["preds"]]),
        clist(["(%s, %s)" % (plain(n), csig(sg)) for n, sg in v["funcs"]]))


def catom(p, args):
    return "(%s, %s)" % (plain(p), clist([plain(a) for a in args]))


def cgtree(t):
    if t[0] == "num":
        return "(GNum %s)" % chex(float.fromhex(t[1]))
    if t[0] == "fl":
        return "(GFl %s %s)" % (plain(t[1]), clist([plain(a) for a in t[2]]))
    return "(GOp %s %s %s)" % (plain(t[1]), cgtree(t[2]), cgtree(t[3]))


def cpdump(d):
    return ("{| pd_name := %s; pd_objects := %s; pd_facts := %s; pd_fluents := %s; pd_goal := %s; pd_goal_num := %s |}" % (
        plain(d["name"]), csig(d["objects"]), clist([catom(p, a) for p, a in d["facts"]]),
        clist(["(%s, %s)" % (catom(f, a), chex(float.fromhex(v))) for f, a, v in d["fluents"]]),
        clist([catom(p, a) for p, a in d["goal"]]), clist([cgtree(t) for t in d["goal_num"]])))


def cobs_dump(r):
    return "(Returned %s)" % cpdump(r["dump"]) if "dump" in r else "Raised"


def cnums(nums):
    return clist(["(%s, %s)" % (cstr(k), chex(float.fromhex(v))) for k, v in sorted(nums.items())])


def case_lit(text, res, expect):
    if expect is None:
        e = "None"
    elif expect == "raised":
        e = "(Some Raised)"
    else:
        e = "(Some (Returned %s))" % cpdump(expect)
    return "{| c_text := %s; c_nums := %s; c_expect := %s; c_obs := %s |}" % (
        cstr(text), cnums(res["nums"]), e, cobs_dump(res))


def world_lit(vocab, case_lits):
    return "{| w_vocab := %s; w_cases := %s |}" % (cvocab(vocab), clist(case_lits))


# ------------------------------------------------------------------------------------------------ names
# Names that a tolerant comparison would confuse: every name the problem parser COMPARES (the domain name) or LOOKS UP
# (type names in :objects, object / constant names as arguments, predicate and function names) is replaced by near
# misses of itself; and half of the generated domains use names that contain '-' and '_' and share prefixes, so that
# a near miss of one declared name is often ANOTHER declared name (of a different type / signature).
DOMAIN_NAMES = ["dom", "fuel-transport", "fuel_transport", "a-b_c", "a_b-c", "d-1", "d_1", "blocks-world_v2", "x",
                "dom-2", "dom_2", "dom2", "multi_agent-rovers"]
NAME_STEMS = {"type": ["loc", "veh", "place"], "const": ["depot", "hub"], "pred": ["at", "has", "link"],
              "func": ["fuel", "dist", "cost"], "object": ["tr", "ob", "pkg"]}
NAME_PARTS = ["a", "b", "lvl", "x1", "2", "to"]


def confusable_names(rng, stems, n):
    """n distinct names over one or two stems that share prefixes and differ in their separators / by one part:
    s, s-u, s_u, su, s-u-v, s_u_v, s-u_v, s_u-v, s-uv, s-u-, ..."""
    out = []
    for s in rng.sample(stems, min(2, len(stems))):
        u, v = rng.sample(NAME_PARTS, 2)
        out += [s, s + "-" + u, s + "_" + u, s + u, s + "-" + u + "-" + v, s + "_" + u + "_" + v, s + "-" + u + "_" + v,
                s + "_" + u + "-" + v, s + "-" + u + v, s + "_" + u + v, s + "-" + v, s + "_" + v]
    out = sorted(set(out))
    rng.shuffle(out)
    assert len(out) >= n, (stems, n)
    return out[:n]


def near_misses(rng, name):
    """[(variation kind, variant)]: lower-case names different from [name] that differ from it the way a forgiving
    comparison might overlook.  One variant per kind and position class; positions are drawn from rng."""
    out, seen = [], {name}

    def add(kind, v):
        if v and v not in seen and v != "-":
            seen.add(v)
            out.append((kind, v))
    seps = [i for i, ch in enumerate(name) if ch in "-_"]
    swap = {"-": "_", "_": "-"}
    if seps:
        i = rng.choice(seps)
        add("separator-swapped-one", name[:i] + swap[name[i]] + name[i + 1:])
        add("separator-swapped-all", "".join(swap.get(ch, ch) for ch in name))
        i = rng.choice(seps)
        add("separator-dropped", name[:i] + name[i + 1:])
        add("separator-doubled", name[:i] + name[i] + name[i:])
        add("prefix-up-to-separator", name[:seps[-1]])
        add("first-part-dropped", name[seps[0] + 1:])
    inner = [i for i in range(1, len(name)) if name[i] not in "-_" and name[i - 1] not in "-_"]
    if inner:
        i = rng.choice(inner)
        add("separator-inserted", name[:i] + rng.choice("-_") + name[i:])
    add("prefix", name[:-1])
    add("extension-letter", name + rng.choice(["x", "s", "1", name[-1]]))
    add("extension-part", name + rng.choice("-_") + rng.choice(["x", "1", "b"]))
    i = rng.randrange(len(name))
    add("char-doubled", name[:i] + name[i] + name[i:])
    if len(name) > 1:
        i = rng.randrange(len(name) - 1)
        add("char-dropped", name[:i] + name[i + 1:])
    add("leading-separator", rng.choice("-_") + name)
    add("trailing-separator", name + rng.choice("-_"))
    return out


def case_variants(rng, name):
    """[(kind, variant)]: spellings of [name] in another letter case (the tokenizer lower-cases: they ARE the name)"""
    out, seen = [], {name}
    letters = [i for i, ch in enumerate(name) if ch.isalpha()]
    cands = [("upper", name.upper()), ("capitalised", name.capitalize())]
    if letters:
        i = rng.choice(letters)
        cands.append(("one-letter", name[:i] + name[i].upper() + name[i + 1:]))
    for k, v in cands:
        if v not in seen and v.lower() == name:
            seen.add(v)
            out.append((k, v))
    return out


def rename_world(w, m):
    """the world with every type / constant / predicate / function name replaced according to m (token-wise; the
    generated names of the namespaces are pairwise distinct)"""
    def r(x):
        return m.get(x, x)

    def rt(t):
        return r(t) if isinstance(t, str) else [rt(x) for x in t]
    w2 = G.World()
    w2.types = {r(c): r(p) for c, p in w.types.items()}
    w2.type_lines = [([r(c) for c in cs], (r(p) if p is not None else None)) for cs, p in w.type_lines]
    w2.consts = [(r(n), r(t)) for n, t in w.consts]
    w2.preds = [(r(n), [(p, rt(t)) for p, t in ps]) for n, ps in w.preds]
    w2.funcs = [(r(n), [(p, rt(t)) for p, t in ps]) for n, ps in w.funcs]
    w2.actions = []
    for a in w.actions:
        a2 = dict(a)
        a2["params"] = [(p, rt(t)) for p, t in a["params"]]
        a2["pre"], a2["eff"] = rt(a["pre"]), rt(a["eff"])
        w2.actions.append(a2)
    w2.oof, w2.oof_kind, w2.features = w.oof, w.oof_kind, set(w.features)
    return w2


def confuse_world(rng, w):
    """gives the world names with '-' and '_' that share prefixes; objects of its problems are named through w.objmap"""
    m = {}
    for ns, names in (("type", list(w.types)), ("const", [n for n, _ in w.consts]), ("pred", [n for n, _ in w.preds]),
                      ("func", [n for n, _ in w.funcs])):
        for old, new in zip(names, confusable_names(rng, NAME_STEMS[ns], len(names))):
            m[old] = new
    w2 = rename_world(w, m)
    w2.objmap = dict(zip(["o%d" % i for i in range(8)], confusable_names(rng, NAME_STEMS["object"], 8)))
    w2.dname = rng.choice([n for n in DOMAIN_NAMES if "-" in n or "_" in n])
    w2.confusable = True
    return w2


def domain_name(w):
    return getattr(w, "dname", "dom")


# ------------------------------------------------------------------------------------------------ generation
def gen_domain(rng, confusable=None):
    """a pddlgen world with some wider signatures (binary / ternary functions and a ternary predicate), so that
    repeated arguments and mixed-type signatures occur; confusable (default: every second world): its names contain
    '-' and '_' and share prefixes, and its domain name is one of DOMAIN_NAMES"""
    w = G.gen_world(rng, max_actions=1, max_types=4)
    ts = w.all_types()
    for i in range(rng.randint(1, 2)):
        ar = rng.choice([2, 2, 3])
        w.funcs.append(("g%d" % i, [("?b%d" % k, rng.choice(ts)) for k in range(ar)]))
    if rng.random() < 0.5:
        w.preds.append(("r3", [("?c%d" % k, rng.choice(ts)) for k in range(3)]))
    if rng.random() < 0.5 and not any(len(ps) == 0 for _, ps in w.funcs):
        w.funcs.append(("h", []))
    if confusable is None:
        confusable = rng.random() < 0.5
    if confusable:
        return confuse_world(rng, w)
    if rng.random() < 0.3:
        w.dname = rng.choice(DOMAIN_NAMES)
    return w


def universe(w, objs):
    return list(objs) + list(w.consts)


def pools_for(w, objs, params):
    uni = universe(w, objs)
    return [[o for o, t in uni if w.is_sub(t, pt)] for _, pt in params]


def pick_args(rng, w, objs, params, want_repeat=False, forbid_repeat=False):
    pools = pools_for(w, objs, params)
    if not all(pools):
        return None
    for _ in range(8):
        args = [rng.choice(p) for p in pools]
        rep = len(set(args)) < len(args)
        if want_repeat and not rep:
            continue
        if forbid_repeat and rep:
            continue
        return args
    return None


def gen_nexp(rng, w, objs, depth, allow_repeat):
    r = rng.random()
    if depth > 0 and r < 0.35:
        op = rng.choice(["+", "-", "*", "/"])
        return [op, gen_nexp(rng, w, objs, depth - 1, allow_repeat), gen_nexp(rng, w, objs, depth - 1, allow_repeat)]
    if r < 0.7 and w.funcs:
        f, ps = rng.choice(w.funcs)
        args = pick_args(rng, w, objs, ps, forbid_repeat=not allow_repeat)
        if args is not None:
            return [f] + args
    return rng.choice(GOAL_NUMERALS)


def twin_numerals(rng):
    """two numerals that a rounded / formatted comparison would take for one: equal up to the 4th decimal, rounding to
    the same 4 decimals from both sides, differing by 1e-7, two spellings of one value, or literally the same"""
    base = rng.choice(["0.9999", "2.5", "7", "0.1", "-3", "100.0625", "0", "12.34"])
    whole, _, frac = base.partition(".")
    stem = whole + "." + (frac + "0000")[:4]
    kind = rng.choice(["fifth-decimal", "fifth-decimal", "round-to-same", "tiny-difference", "two-spellings", "identical"])
    if kind == "fifth-decimal":
        a, b = rng.sample(["1", "2", "3", "4"], 2)
        return kind, stem + a, stem + b
    if kind == "round-to-same":
        return kind, stem + "4", stem[:-1] + str(int(stem[-1]) - 1) + "6" if stem[-1] != "0" else stem + "3"
    if kind == "tiny-difference":
        return kind, base, stem + "0001"
    if kind == "two-spellings":
        return kind, base, (stem + "0") if "." in base else base + ".0"
    return kind, base, base


def gen_problem(rng, w, d07=False):
    """a valid problem description; d07: fluents may have repeated arguments (finding class D07)"""
    om = getattr(w, "objmap", {})
    objs = [(om.get(n, n), t) for n, t in G.gen_objects(rng, w, n=rng.randint(1, 4))]
    style = rng.choice(["typed", "typed", "grouped", "untyped-tail", "private", "mixed"])
    shadow = None
    if w.consts and rng.random() < 0.15:
        # an object named like a domain constant (of another type): the constant's type decides ({**objects, **constants})
        cn, ct = rng.choice(w.consts)
        others = [t for t in w.all_types() if t != ct]
        if others:
            shadow = (cn, rng.choice(others))
    if style in ("untyped-tail", "mixed"):
        objs = [o for o in objs if o[1] != "object"] + [o for o in objs if o[1] == "object"]
    declared = list(objs)
    if shadow:
        declared.insert(rng.randint(0, len(declared)), shadow)
        if style in ("untyped-tail", "mixed"):
            declared = [o for o in declared if o[1] != "object"] + [o for o in declared if o[1] == "object"]
    init = []
    atoms = G.ground_atoms(w, objs, w.preds)
    rng.shuffle(atoms)
    for p, args in atoms[:rng.randint(0, 6)]:
        init.append(["fact", p, args])
    if atoms and rng.random() < 0.3:
        p, args = rng.choice(atoms)
        init.append(["fact", p, list(args)])                      # listed twice: one fact
    for f, ps in w.funcs:
        for _ in range(rng.randint(0, 2)):
            args = pick_args(rng, w, objs, ps, want_repeat=d07 and len(ps) >= 2 and rng.random() < 0.7,
                             forbid_repeat=not d07)
            if args is not None:
                init.append(["fluent", f, args, rng.choice(NUMERALS)])
    rng.shuffle(init)
    goal = []
    for p, args in atoms[:rng.randint(0, 3)] if rng.random() < 0.8 else []:
        goal.append(["lit", p, args])
    if atoms and rng.random() < 0.5:
        p, args = rng.choice(atoms)
        goal.append(["lit", p, list(args)])
    for _ in range(rng.choice([0, 0, 1, 2])):
        fl = None
        if w.funcs:
            f, ps = rng.choice(w.funcs)
            args = pick_args(rng, w, objs, ps, want_repeat=d07 and len(ps) >= 2 and rng.random() < 0.5,
                             forbid_repeat=not d07)
            if args is not None:
                fl = [f] + args
        if fl is None:
            continue
        rhs = gen_nexp(rng, w, objs, 2, d07)
        cmp_ = rng.choice(CMPS)
        goal.append(["num", [cmp_, fl, rhs] if rng.random() < 0.75 or not isinstance(rhs, list) else [cmp_, rhs, fl]])
    twins = None
    if w.funcs and rng.random() < 0.3:
        # two numeric goals over the same expression whose constants are nearly (or exactly) the same: both are goals
        f, ps = rng.choice(w.funcs)
        args = pick_args(rng, w, objs, ps, forbid_repeat=True)
        if args is not None:
            twins, a, b = twin_numerals(rng)
            cmp_ = rng.choice(CMPS)
            goal.append(["num", [cmp_, [f] + args, a]])
            goal.append(["num", [cmp_, [f] + args, b]] if rng.random() < 0.8 else ["num", [cmp_, b, [f] + args]])
    rng.shuffle(goal)
    return {"name": "prob%d" % rng.randint(0, 99), "domain": domain_name(w), "twins": twins, "objects": declared, "arg_objects": objs, "style": style,
            "init": init, "goal": goal, "shadow": bool(shadow)}


def objects_tokens(rng_style, objs):
    """renders the object list in the chosen style; returns (tokens, objects in the order they get declared)"""
    style = rng_style
    if not objs:
        return [], []
    if style == "typed":
        toks = []
        for n, t in objs:
            toks += [n, "-", t]
        return toks, list(objs)
    groups = []
    for n, t in objs:
        if groups and groups[-1][1] == t:
            groups[-1][0].append(n)
        else:
            groups.append(([n], t))
    if style == "grouped":
        toks = []
        for ns, t in groups:
            toks += ns + ["-", t]
        return toks, list(objs)
    if style in ("untyped-tail", "mixed"):
        toks = []
        for i, (ns, t) in enumerate(groups):
            if t == "object" and i == len(groups) - 1:
                toks += ns                                 # trailing names without a type
            elif style == "mixed" and len(ns) == 1:
                toks += [ns[0], "-", t]
            else:
                toks += ns + ["-", t]
        return toks, list(objs)
    if style == "private":
        k = max(1, len(groups) // 2)
        toks = []
        for ns, t in groups[:-k]:
            toks += ns + ["-", t]
        priv = [":private"]
        for ns, t in groups[-k:]:
            priv += ns + ["-", t]
        toks.append(priv)
        return toks, list(objs)
    raise ValueError(style)


def problem_tree(desc):
    otoks, _ = objects_tokens(desc["style"], desc["objects"])
    if desc.get("object_tokens") is not None:
        otoks = desc["object_tokens"]                      # an object section written in another way (object_section_cases)
    init = []
    for it in desc["init"]:
        if it[0] == "fact":
            init.append([it[1]] + it[2])
        else:
            init.append(["=", [it[1]] + it[2], it[3]])
    goal = []
    for g in desc["goal"]:
        goal.append([g[1]] + g[2] if g[0] == "lit" else g[1])
    tree = ["define", ["problem", desc["name"]], [":domain", desc["domain"]]]
    if otoks or not desc.get("omit_objects"):
        tree.append([":objects"] + otoks)
    tree += [[":init"] + init, [":goal", ["and"] + goal]]
    if desc.get("metric"):
        tree.append([":metric", "minimize", ["total-cost"]])
    return tree


def nexp_dump(t):
    if isinstance(t, str):
        return ["num", float(t).hex()]
    if t[0] in ("+", "-", "*", "/") or t[0] in CMPS:
        return ["op", t[0], nexp_dump(t[1]), nexp_dump(t[2])]
    return ["fl", t[0], list(t[1:])]


def expected_dump(desc):
    facts, seen = [], set()
    for it in desc["init"]:
        if it[0] == "fact" and (it[1], tuple(it[2])) not in seen:
            seen.add((it[1], tuple(it[2])))
            facts.append([it[1], list(it[2])])
    fl = {}
    for it in desc["init"]:
        if it[0] == "fluent":
            fl[(it[1], tuple(it[2]))] = float(it[3].lower()).hex()
    return {"name": desc["name"], "objects": [[n, t] for n, t in desc["objects"]], "facts": facts,
            "fluents": [[f, list(a), v] for (f, a), v in fl.items()],
            "goal": [[g[1], list(g[2])] for g in desc["goal"] if g[0] == "lit"],
            "goal_num": [nexp_dump(g[1]) for g in desc["goal"] if g[0] == "num"]}


def has_repeat_fluent(desc):
    def tree_rep(t):
        if isinstance(t, str):
            return False
        if t[0] in ("+", "-", "*", "/") or t[0] in CMPS:
            return tree_rep(t[1]) or tree_rep(t[2])
        return len(set(t[1:])) < len(t[1:])
    return any(it[0] == "fluent" and len(set(it[2])) < len(it[2]) for it in desc["init"]) or \
        any(g[0] == "num" and tree_rep(g[1]) for g in desc["goal"])


# ------------------------------------------------------------------------------------------------ corruptions
def copy_desc(d):
    return json.loads(json.dumps(d))


def wrong_typed_name(rng, w, objs, ptype):
    """an object / constant whose type does not conform to ptype, if there is one"""
    bad = [o for o, t in universe(w, objs) if not w.is_sub(t, ptype)]
    return rng.choice(bad) if bad else None


def fluent_leaves(t, path=()):
    """paths of the fluent applications inside a numeric goal tree"""
    if isinstance(t, str):
        return []
    if t[0] in ("+", "-", "*", "/") or t[0] in CMPS:
        return fluent_leaves(t[1], path + (1,)) + fluent_leaves(t[2], path + (2,))
    return [path]


def tree_get(t, path):
    for i in path:
        t = t[i]
    return t


def corruptions(rng, w, desc):
    """every single-point corruption of a valid problem description: (kind, corrupted description, finding class)"""
    out = []
    objs = [tuple(o) for o in desc.get("arg_objects", desc["objects"])]
    sigs = {"fact": dict(w.preds), "lit": dict(w.preds), "fluent": dict(w.funcs)}

    def add(kind, d, klass=None):
        out.append((kind, d, klass))
    d = copy_desc(desc)
    d["domain"] = "zz-other-domain"
    add("domain-name", d)
    if desc["objects"]:
        d = copy_desc(desc)
        i = rng.randrange(len(d["objects"]))
        d["objects"][i][1] = "zz-undeclared-type"
        d["style"] = "typed"
        add("object-type-undeclared", d)

    def item_corruptions(section, idx, item):
        kind_tag = item[0]
        sig = sigs[kind_tag][item[1]]
        name_i, args_i = 1, 2
        d = copy_desc(desc)
        d[section][idx][name_i] = "zz-undeclared"
        add(kind_tag + "-name", d)
        d = copy_desc(desc)
        extra = rng.choice(universe(w, objs))[0] if universe(w, objs) else "zz"
        d[section][idx][args_i] = list(item[args_i]) + [extra]
        add(kind_tag + "-arity+1", d)
        if item[args_i]:
            d = copy_desc(desc)
            d[section][idx][args_i] = list(item[args_i])[:-1]
            add(kind_tag + "-arity-1", d)
            j = rng.randrange(len(item[args_i]))
            d = copy_desc(desc)
            d[section][idx][args_i][j] = "zz-undeclared-object"
            add(kind_tag + "-object-undeclared", d)
            cands = [(k, wrong_typed_name(rng, w, objs, sig[k][1])) for k in range(len(sig))]
            cands = [(k, n) for k, n in cands if n is not None]
            if cands:
                k, n = rng.choice(cands)
                d = copy_desc(desc)
                d[section][idx][args_i][k] = n
                add(kind_tag + "-object-type", d)
        if kind_tag == "fluent":
            d = copy_desc(desc)
            d[section][idx][3] = rng.choice(["abc", "1.2.3", "--1", "1e"])
            add("fluent-value-not-a-number", d)

    for idx, item in enumerate(desc["init"]):
        item_corruptions("init", idx, item)
    for idx, g in enumerate(desc["goal"]):
        if g[0] == "lit":
            item_corruptions("goal", idx, g)
        else:
            for path in fluent_leaves(g[1]):
                leaf = tree_get(g[1], path)
                sig = dict(w.funcs)[leaf[0]]

                def with_leaf(new_leaf):
                    d = copy_desc(desc)
                    t = d["goal"][idx][1]
                    for i in path[:-1]:
                        t = t[i]
                    t[path[-1]] = new_leaf
                    return d
                add("goalnum-name", with_leaf(["zz-undeclared"] + leaf[1:]))
                extra = rng.choice(universe(w, objs))[0] if universe(w, objs) else "zz"
                add("goalnum-arity+1", with_leaf(leaf + [extra]))
                if len(leaf) > 1:
                    add("goalnum-arity-1", with_leaf(leaf[:-1]))
                    j = rng.randrange(1, len(leaf))
                    add("goalnum-object-undeclared", with_leaf(leaf[:j] + ["zz-undeclared-object"] + leaf[j + 1:]), "D19d")
                    cands = [(k, wrong_typed_name(rng, w, objs, sig[k][1])) for k in range(len(sig))]
                    cands = [(k, n) for k, n in cands if n is not None and n not in leaf[1:]]
                    if cands:
                        k, n = rng.choice(cands)
                        add("goalnum-object-type", with_leaf(leaf[:k + 1] + [n] + leaf[k + 2:]), "D19d")
    return out


# ------------------------------------------------------------------------------------------------ near misses
NUMERIC_OPERATORS = ["+", "-", "*", "/"]


def name_sites(w, desc):
    """every place where the problem text uses a name that the parser compares or looks up:
    (site kind, the name, the names that are declared there, setter(description copy, new name), names to avoid,
    finding class a not-ok verdict would belong to)"""
    sites = []
    goal_class = "D19d" if any(g[0] == "num" for g in desc["goal"]) else None

    def setter(*path):
        def put(d, v):
            t = d
            for k in path[:-1]:
                t = t[k]
            t[path[-1]] = v
        return put
    sites.append(("domain", desc["domain"], {domain_name(w)}, setter("domain"), (), None))
    types = set(w.all_types())
    for i, (_, t) in enumerate(desc["objects"]):
        def put_type(d, v, i=i):
            d["objects"][i][1] = v
            d["style"] = "typed"
        sites.append(("object-type", t, types, put_type, (), goal_class))
    names = {n for n, _ in desc["objects"]} | {n for n, _ in w.consts}
    preds, funcs = {n for n, _ in w.preds}, {n for n, _ in w.funcs}
    for idx, it in enumerate(desc["init"]):
        if it[0] == "fact":
            sites.append(("fact-name", it[1], preds | {"="}, setter("init", idx, 1), (), None))
            for j, a in enumerate(it[2]):
                sites.append(("fact-object", a, names, setter("init", idx, 2, j), (), None))
        else:
            sites.append(("fluent-name", it[1], funcs, setter("init", idx, 1), (), None))
            for j, a in enumerate(it[2]):
                sites.append(("fluent-object", a, names, setter("init", idx, 2, j), tuple(it[2]), None))
    for idx, g in enumerate(desc["goal"]):
        if g[0] == "lit":
            sites.append(("lit-name", g[1], preds | set(CMPS), setter("goal", idx, 1), (), None))
            for j, a in enumerate(g[2]):
                sites.append(("lit-object", a, names, setter("goal", idx, 2, j), (), None))
        else:
            for path in fluent_leaves(g[1]):
                leaf = tree_get(g[1], path)
                sites.append(("goalnum-name", leaf[0], funcs | set(NUMERIC_OPERATORS) | set(CMPS),
                              setter("goal", idx, 1, *path, 0), (), "D19d"))
                for j in range(1, len(leaf)):
                    sites.append(("goalnum-object", leaf[j], names, setter("goal", idx, 1, *path, j), tuple(leaf[1:]), "D19d"))
    return sites


def near_miss_cases(rng, w, desc, n_domain, n_other, n_positive, covered):
    """near misses of every name the text uses.  A variant that is not declared in its place must be REJECTED; a variant
    that happens to be another declared name is judged by the spec alone (expect None); a spelling in another letter
    case must be ACCEPTED with the same result (expected: what the unchanged description says).
    Sampled: n_domain variants of the domain name, n_other of the other sites, n_positive case variants, always taking
    the (site kind, variation) combinations that the run has covered least so far (covered: the run's counter)."""
    neg, pos = {}, {}
    for site, name, declared, put, avoid, klass in name_sites(w, desc):
        for vkind, v in near_misses(rng, name):
            if v in avoid:
                continue                                   # would repeat an argument of a fluent: class D07
            d = copy_desc(desc)
            put(d, v)
            collides = v in declared
            neg.setdefault((site, vkind), []).append(
                ("nearmiss-%s-%s-%s" % (site, vkind, "is-another-declared-name" if collides else "undeclared"), d,
                 None if collides else "raised", klass))
        for vkind, v in case_variants(rng, name):
            d = copy_desc(desc)
            put(d, v)
            pos.setdefault((site, "case-" + vkind), []).append(("casevariant-%s-%s" % (site, vkind), d, "same", None))

    def take(pool, keys, n):
        out = []
        keys = [k for k in keys if pool[k]]
        while keys and n > 0:
            keys.sort(key=lambda k: (covered.get(k, 0), rng.random()))
            k = keys[0]
            out.append(pool[k].pop(rng.randrange(len(pool[k]))))
            covered[k] = covered.get(k, 0) + 1
            n -= 1
            if not pool[k]:
                keys.remove(k)
        return out
    # separators exchanged ('-' <-> '_') is the most plausible tolerance: two such variants at the other sites first
    return (take(neg, [k for k in neg if k[0] == "domain"], n_domain)
            + take(neg, [k for k in neg if k[0] != "domain" and k[1].startswith("separator-swapped")], 2)
            + take(neg, [k for k in neg if k[0] != "domain"], n_other)
            + take(pos, list(pos), n_positive))


# ------------------------------------------------------------------------------------------------ the run
def build_generated(rng, tier):
    """returns list of worlds: {domain_text, cases: [{text, expect, kind, klass, nontrivial, desc}]}"""
    n_worlds = 50 if tier == "quick" else 250
    worlds = []
    covered = {}                                           # (site kind, variation) -> near-miss cases so far
    for wi in range(n_worlds):
        w = gen_domain(rng)
        dtext = G.render(w.domain_tree(domain_name(w)), rng, noise=False)
        cases = []
        for pi in range(2 if tier == "quick" else 3):
            d07 = rng.random() < 0.3
            desc = gen_problem(rng, w, d07=d07)
            if rng.random() < 0.15:
                desc["metric"] = True
            if not desc["objects"] and rng.random() < 0.5:
                desc["omit_objects"] = True
            text = G.render(problem_tree(desc), rng, noise=rng.random() < 0.3)
            rep = has_repeat_fluent(desc)
            cases.append({"text": text, "expect": expected_dump(desc), "kind": "valid-" + desc["style"] + ("-shadowed-constant" if desc.get("shadow") else "")
                          + ("-twin-numeric-goals-" + desc["twins"] if desc.get("twins") else ""),
                          "klass": "D07" if rep else None, "nontrivial": len(desc["init"]) + len(desc["goal"]) >= 2,
                          "desc": desc})
            if rep:
                continue                                   # corruptions are taken from D07-free problems
            cors = corruptions(rng, w, desc)
            if tier == "quick" and len(cors) > 14:
                keep = cors[:2] + rng.sample(cors[2:], 12)
                cors = keep
            for kind, cd, klass in cors:
                ctext = G.render(problem_tree(cd), rng, noise=False)
                cases.append({"text": ctext, "expect": "raised", "kind": "corrupt-" + kind, "klass": klass,
                              "nontrivial": True, "desc": cd})
            n_dom, n_other, n_pos = (3, 7, 2) if tier == "quick" else (5, 10, 2)
            for kind, cd, expect, klass in near_miss_cases(rng, w, desc, n_dom, n_other, n_pos, covered):
                ctext = G.render(problem_tree(cd), rng, noise=False)
                cases.append({"text": ctext, "expect": expected_dump(desc) if expect == "same" else expect, "kind": kind,
                              "klass": klass, "nontrivial": True, "desc": cd})
        cases += boundary_cases(rng, w, 10 if tier == "quick" else 40)
        worlds.append({"domain_text": dtext, "cases": cases, "source": "generated"})
    return worlds


def object_section_worlds(seed, tier):
    """generated domains with valid problems whose object section is written outside the grammar (own random stream)"""
    rng = random.Random(seed * 7919 + 131)
    worlds = []
    for _ in range(5 if tier == "quick" else 40):
        w = gen_domain(rng)
        cases = []
        for _ in range(2):
            desc = gen_problem(rng, w, d07=False)
            if not desc["objects"] or desc.get("shadow"):
                continue
            desc["objects"] = [list(o) for o in desc["arg_objects"]]
            cases += object_section_cases(rng, w, desc)
        if cases:
            worlds.append({"domain_text": G.render(w.domain_tree(domain_name(w)), rng, noise=False), "cases": cases, "source": "generated"})
    return worlds


def boundary_cases(rng, w, cap):
    """the accept/reject boundary of the type check: one object per type (plus the constants), and single-item
    problems over EVERY argument tuple of every predicate / function (sampled down to cap per world); accepted iff
    every argument's type is a subtype of the parameter's"""
    import itertools
    objs = [("b%s" % t.replace("object", "obj"), t) for t in w.all_types()]
    uni = objs + list(w.consts)
    items = []
    for kind, decls in (("fact", w.preds), ("fluent", w.funcs)):
        for n, ps in decls:
            for combo in itertools.product(uni, repeat=len(ps)):
                if kind == "fluent" and len(set(c[0] for c in combo)) < len(combo):
                    continue                                   # repeated fluent arguments: class D07, exercised elsewhere
                ok = all(w.is_sub(ct, pt) for (_, ct), (_, pt) in zip(combo, ps))
                items.append((kind, n, [c[0] for c in combo], ok))
    if len(items) > cap:
        items = rng.sample(items, cap)
    out = []
    for kind, n, args, ok in items:
        in_goal = rng.random() < 0.35
        desc = {"name": "bnd", "domain": domain_name(w), "objects": objs, "style": "typed", "init": [], "goal": []}
        if kind == "fact":
            if in_goal:
                desc["goal"].append(["lit", n, args])
            else:
                desc["init"].append(["fact", n, args])
        else:
            if in_goal:
                desc["goal"].append(["num", [rng.choice(CMPS), [n] + args, rng.choice(GOAL_NUMERALS)]])
            else:
                desc["init"].append(["fluent", n, args, rng.choice(NUMERALS)])
        numeric_goal = kind == "fluent" and in_goal
        text = G.render(problem_tree(desc), rng, noise=False)
        out.append({"text": text, "expect": expected_dump(desc) if (ok or numeric_goal) else "raised",
                    "kind": "type-boundary-%s-%s%s" % (kind, "goal-" if in_goal else "", "conforming" if ok else "foreign-type"),
                    "klass": "D19d" if (numeric_goal and not ok) else None, "nontrivial": True, "desc": desc})
    return out


# ------------------------------------------------------------------------------------------------ object sections outside the grammar
# The parser accepts object lists that declare a name more than once (dict semantics: the first position, the LAST type)
# and lists nested to any depth, with any head, in any place (each is a typed list of its own whose declarations take
# effect where the list stands; names pending before it stay pending).  Spec/ProblemObjects.v says what such a section
# means and Corr.C05 judges these texts by their normal form; the a-priori expectation below is computed here,
# independently, from the declaration order (object_decls) and Python's own dict.
LIST_HEADS = [":private", ":private", ":private", ":shared", "group"]


def object_decls(toks):
    """(the declarations (name, type) a nested token list makes, in the order in which they take effect; the types written
    after a dash - also after a dash that closes no name); None when a dash is not followed by a type name"""
    out, types, pending, i = [], [], [], 0
    while i < len(toks):
        t = toks[i]
        if isinstance(t, list):
            sub = object_decls(t[1:])
            if sub is None:
                return None
            out += sub[0]
            types += sub[1]
            i += 1
        elif t == "-":
            if i + 1 >= len(toks) or isinstance(toks[i + 1], list):
                return None
            out += [(n, toks[i + 1]) for n in pending]
            types.append(toks[i + 1])
            pending = []
            i += 2
        else:
            pending.append(t)
            i += 1
    return out + [(n, "object") for n in pending], types


def nested_object_tokens(rng, objs, depth):
    """a token list that declares objs with lists nested up to depth: a whole group inside a list, the names of a group
    pending across a list that holds the next groups, trailing names without a type inside a list, an empty list"""
    groups = []
    for n, t in objs:
        if groups and groups[-1][1] == t and rng.random() < 0.7:
            groups[-1][0].append(n)
        else:
            groups.append(([n], t))
    toks, i = [], 0
    while i < len(groups):
        ns, t = groups[i]
        r = rng.random()
        last = i == len(groups) - 1
        if depth > 0 and r < 0.35 and not last:
            k = rng.randint(1, min(2, len(groups) - i - 1))
            inner = [(n, g[1]) for g in groups[i + 1:i + 1 + k] for n in g[0]]
            cut = rng.randint(0, len(ns))
            toks += ns[:cut] + [[rng.choice(LIST_HEADS)] + nested_object_tokens(rng, inner, depth - 1)] + ns[cut:] + ["-", t]
            i += 1 + k
        elif depth > 0 and r < 0.65:
            toks.append([rng.choice(LIST_HEADS)] + nested_object_tokens(rng, [(n, t) for n in ns], depth - 1))
            i += 1
        else:
            toks += ns if (t == "object" and last and rng.random() < 0.6) else ns + ["-", t]
            i += 1
        if depth > 0 and rng.random() < 0.1:
            toks.append([rng.choice(LIST_HEADS)])                 # a list that declares nothing
    return toks


def expect_with_declarations(w, desc, decls):
    """what parsing desc must give when its object section makes the declarations decls: 'raised' if a type is not declared
    or some init / goal item is ill typed under the resulting table, else the dump with the table in dict order"""
    if decls is None:
        return "raised"
    decls, written = decls
    types = set(w.all_types())
    if any(t not in types for t in written):
        return "raised"
    table = {}
    for n, t in decls:
        table[n] = t
    env = dict(table)
    env.update(dict(w.consts))                                   # a constant shadows an object of the same name
    sigs = {"fact": dict(w.preds), "lit": dict(w.preds), "fluent": dict(w.funcs)}

    def ok(kind, name, args):
        ps = sigs[kind][name]
        return len(args) == len(ps) and all(a in env and w.is_sub(env[a], pt) for a, (_, pt) in zip(args, ps))

    def leaves_ok(t):
        if isinstance(t, str):
            return True
        if t[0] in ("+", "-", "*", "/") or t[0] in CMPS:
            return leaves_ok(t[1]) and leaves_ok(t[2])
        return ok("fluent", t[0], t[1:])
    for it in desc["init"]:
        if not ok(it[0], it[1], it[2]):
            return "raised"
    for g in desc["goal"]:
        if not (ok("lit", g[1], g[2]) if g[0] == "lit" else leaves_ok(g[1])):
            return "raised"
    d = expected_dump(desc)
    d["objects"] = [[n, t] for n, t in table.items()]
    return d


def object_section_cases(rng, w, desc, n_each=1):
    """variants of a valid (D07-free) problem whose object section is outside the grammar of the spec"""
    objs = [tuple(o) for o in desc["objects"]]
    if not objs:
        return []
    out = []
    types = w.all_types()

    def flat(decls):
        toks = []
        for n, t in decls:
            toks += [n, "-", t]
        return toks

    def add(kind, toks):
        d = copy_desc(desc)
        d["object_tokens"] = toks
        exp = expect_with_declarations(w, desc, object_decls(toks))
        out.append({"text": G.render(problem_tree(d), rng, noise=False), "expect": exp,
                    "kind": "objects-%s-%s" % (kind, "rejected" if exp == "raised" else "accepted"), "klass": None,
                    "nontrivial": True, "desc": d})
    for _ in range(n_each):
        i = rng.randrange(len(objs))
        n, t = objs[i]
        others = [x for x in types if x != t]
        # declared again with the same type, somewhere later
        j = rng.randint(i + 1, len(objs))
        add("redeclared-same-type", flat(objs[:j] + [(n, t)] + objs[j:]))
        if others:
            t2 = rng.choice(others)
            # first another type, the real one later: the last declaration counts, the first position stays
            add("redeclared-real-type-last", flat(objs[:i] + [(n, t2)] + objs[i + 1:] + [(n, t)]))
            # the real type first, another one later: every item over the object is judged with the later type
            add("redeclared-other-type-last", flat(objs + [(n, t2)]))
            # ... the same inside one group and across a nested list
            add("redeclared-in-nested-list", flat(objs[:i + 1]) + [[":private", n, "-", t2] + flat(objs[i + 1:])])
            add("redeclared-nested-first", [[":private", n, "-", t2]] + flat(objs))
        # a superseded declaration with an undeclared type: rejected although the table would be fine
        add("redeclared-superseded-type-undeclared", flat(objs[:i] + [(n, "zz-undeclared-type")] + objs[i:]))
        add("redeclared-in-one-group", [n, n, "-", t] + flat(objs[:i] + objs[i + 1:]))
        # nested lists
        add("nested-lists", nested_object_tokens(rng, objs, 3))
        add("nested-lists", nested_object_tokens(rng, rng.sample(objs, len(objs)), 2))
        add("nested-list-with-trailing-names", [[":private"] + [x for x, _ in objs]] if all(tt == "object" for _, tt in objs)
            else flat([o for o in objs if o[1] != "object"]) + [[":private"] + [x for x, tt in objs if tt == "object"] + ["extra-untyped"]])
        add("dash-without-names", ["-", t] + flat(objs))
        add("dash-without-names-undeclared-type", flat(objs) + ["-", "zz-undeclared-type"])
        add("nested-dash-without-type", flat(objs) + [[":private", "lonely", "-"]])
    return out


# ------------------------------------------------------------------------------------------------ several repeated arguments
# Initial fluents that repeat TWO OR THREE different arguments (functions of arity 4-6).  PDDLFunction keeps the repeated
# arguments in the dict repeating_variables and state_representation re-expands them in THAT dict's order, so the order in
# which the parser enters them matters: it is the order of first occurrence (collections.Counter), never the iteration
# order of a set of strings (which depends on PYTHONHASHSEED).  Each of these problems is therefore run under several
# hash seeds.  canon_args / safe_fluents mirror Model/ProblemObs.v canon / safe_repeats; they only choose the arrangement
# to generate and the finding id a 'k' verdict is attributed to - the verdict itself is computed in Coq.
WIDE_SHAPES = {4: [(2, 2), (2, 2), (2, 2), (3, 1), (2, 1, 1)],
               5: [(2, 2, 1), (2, 2, 1), (3, 2), (3, 2), (2, 1, 1, 1), (4, 1)],
               6: [(2, 2, 2), (2, 2, 2), (3, 2, 1), (2, 2, 1, 1), (3, 3), (4, 2)]}
PLAIN_OBJECT_NAMES = ["o0", "o1", "o2", "o3", "o4", "o5", "n1", "n2", "n3", "n4", "a", "b", "x", "y", "site", "silo", "gate-1",
                      "gate_1", "k9", "zz", "m", "w", "q7", "unit", "dock"]


def canon_args(args):
    """what state_representation prints for a fluent read with these arguments: the repeated names first (in the order
    of their first occurrence, each as often as it occurs), then the others"""
    first = list(dict.fromkeys(args))
    rep = [a for a in first if args.count(a) > 1]
    return [a for a in rep for _ in range(args.count(a))] + [a for a in first if a not in rep]


def safe_fluents(fluents):
    """[(f, args)]: every fluent is written the way the library prints it and two fluents of one function with the same
    distinct arguments (in the same order) are the same fluent"""
    keys = {}
    for f, a in fluents:
        if canon_args(list(a)) != list(a):
            return False
        if keys.setdefault((f, tuple(dict.fromkeys(a))), tuple(a)) != tuple(a):
            return False
    return True


def arrangements(shape):
    """all distinct arrangements of the multiset with shape[i] copies of symbol i"""
    import itertools
    base = [i for i, m in enumerate(shape) for _ in range(m)]
    return sorted(set(itertools.permutations(base)))


def shape_name(shape):
    return "x".join(str(m) for m in shape)


def canonical_wide_args(rng, objs, shape):
    """an arrangement inside safe_repeats: groups of repeated objects first, then the single ones"""
    mults = list(shape)
    rng.shuffle(mults)
    mults = [m for m in mults if m > 1] + [m for m in mults if m == 1]
    return [o for o, m in zip(objs, mults) for _ in range(m)]


def multi_repeat_desc(rng, w, wide, pool, declared, mode, name, fixed=None):
    """a valid problem whose :init holds fluents of the wide functions; mode 'canonical': inside safe_repeats;
    'interleaved': arbitrary arrangements (mostly outside); fixed: [(function, args)] to use instead of drawn ones"""
    init = []
    atoms = G.ground_atoms(w, declared, w.preds)
    rng.shuffle(atoms)
    for p, args in atoms[:rng.randint(0, 3)]:
        init.append(["fact", p, args])
    narrow = [(f, ps) for f, ps in w.funcs if (f, ps) not in wide]
    for f, ps in narrow:
        if rng.random() < 0.5:
            args = pick_args(rng, w, declared, ps, forbid_repeat=True)
            if args is not None:
                init.append(["fluent", f, args, rng.choice(NUMERALS)])
    chosen = []
    if fixed is not None:
        chosen = [(f, list(a)) for f, a in fixed]
    else:
        for _ in range(rng.randint(2, 4) if mode == "canonical" else rng.randint(1, 3)):
            f, ps = rng.choice(wide)
            shape = rng.choice([sh for sh in WIDE_SHAPES[len(ps)] if len(sh) <= len(pool)])
            objs = rng.sample(pool, len(shape))
            if mode == "canonical":
                args = canonical_wide_args(rng, objs, shape)
                if not safe_fluents(chosen + [(f, args)]):
                    continue
            else:
                base = [o for o, m in zip(objs, shape) for _ in range(m)]
                for _ in range(4):
                    rng.shuffle(base)
                    if canon_args(base) != base:
                        break
                args = list(base)
            chosen.append((f, args))
    for f, args in chosen:
        init.append(["fluent", f, args, rng.choice(NUMERALS)])
    if mode == "canonical" and chosen and rng.random() < 0.3:
        f, args = rng.choice(chosen)
        init.append(["fluent", f, list(args), rng.choice(NUMERALS)])       # assigned twice: the last value counts
    rng.shuffle(init)
    goal = []
    for p, args in atoms[:rng.randint(0, 2)]:
        goal.append(["lit", p, args])
    if w.funcs and rng.random() < 0.5:
        f, ps = rng.choice(w.funcs)
        args = pick_args(rng, w, declared, ps, forbid_repeat=True)
        if args is not None:
            goal.append(["num", [rng.choice(CMPS), [f] + args, rng.choice(GOAL_NUMERALS)]])
    return {"name": name, "domain": domain_name(w), "twins": None, "objects": [list(o) for o in declared],
            "arg_objects": [list(o) for o in declared], "style": rng.choice(["typed", "grouped"]), "init": init, "goal": goal,
            "shadow": False}


def multi_repeat_case(rng, desc, kind):
    fl = [(it[1], it[2]) for it in desc["init"] if it[0] == "fluent"]
    safe = safe_fluents(fl)
    n_multi = sum(1 for _, a in fl if sum(1 for x in set(a) if a.count(x) > 1) >= 2)
    return {"text": G.render(problem_tree(desc), rng, noise=False), "expect": expected_dump(desc),
            "kind": "several-repeats-%s-%s" % (kind, "safe" if safe else "collapsing"), "klass": None if safe else "D07",
            "nontrivial": True, "desc": desc, "fluents_repeating_two_or_more_arguments": n_multi}


def multi_repeat_world(rng, tier, enumerate_shape=False):
    """a generated domain with two functions of arity 4-6 whose parameters all admit the objects of one type, and problems
    over them: canonical (inside safe_repeats), interleaved, and - enumerate_shape - every arrangement of one shape"""
    w = gen_domain(rng)
    ts = w.all_types()
    base = rng.choice(ts)
    ups = w.ancestors(base)
    downs = [t for t in ts if w.is_sub(t, base)]
    wide = []
    for ar in [4, rng.choice([5, 6])]:
        ps = [("?w%d" % k, rng.choice(ups)) for k in range(ar)]
        w.funcs.append(("wf%d" % ar, ps))
        wide.append(w.funcs[-1])
    names = list(w.objmap.values()) if getattr(w, "objmap", None) else rng.sample(PLAIN_OBJECT_NAMES, 8)
    rng.shuffle(names)
    n_pool = rng.randint(3, 5)
    pool_objs = [(names[i], rng.choice(downs)) for i in range(n_pool)]
    declared = pool_objs + [(names[n_pool + i], rng.choice(ts)) for i in range(rng.randint(0, 2))]
    rng.shuffle(declared)
    pool = [n for n, _ in pool_objs] + [n for n, t in w.consts if t in downs]
    cases = []
    modes = ["canonical", "canonical", "interleaved", "interleaved"] if tier == "quick" else \
        ["canonical", "canonical", "canonical", "interleaved", "interleaved", "interleaved"]
    for i, mode in enumerate(modes):
        cases.append(multi_repeat_case(rng, multi_repeat_desc(rng, w, wide, pool, declared, mode, "rep%d" % i), mode))
    if enumerate_shape:
        f, ps = rng.choice(wide)
        shape = rng.choice([sh for sh in WIDE_SHAPES[len(ps)] if len(sh) <= len(pool) and sum(1 for m in sh if m > 1) >= 2])
        objs = rng.sample(pool, len(shape))
        arr = arrangements(shape)
        if tier == "quick" and len(arr) > 8:
            arr = rng.sample(arr, 8)
        for j, a in enumerate(arr):
            d = multi_repeat_desc(rng, w, wide, pool, declared, "interleaved", "enum%d" % j, fixed=[(f, [objs[k] for k in a])])
            cases.append(multi_repeat_case(rng, d, "every-arrangement-of-" + shape_name(shape)))
    return {"domain_text": G.render(w.domain_tree(domain_name(w)), rng, noise=False), "cases": cases, "source": "generated"}


WIDE_DOMAIN = ("(define (domain grid) (:requirements :typing :fluents) (:types site - object hub - site) (:constants main - hub) "
               "(:predicates (joined ?a - site ?b - site)) "
               "(:functions (cap4 ?a - site ?b - site ?c - site ?d - site) (cap5 ?a - site ?b - site ?c - site ?d - site ?e - site) "
               "(cap6 ?a - object ?b - object ?c - object ?d - site ?e - object ?f - object) (load ?a - site)) "
               "(:action join :parameters (?a - site ?b - site) :precondition (and (joined ?b ?a)) :effect (and (joined ?a ?b))))")


def wide_hand_world():
    """all six arrangements of two objects twice each (one problem each), problems with several fluents in the printed
    form over different pairs / triples of objects (inside safe_repeats), and interleavings of three repeated objects"""
    declared = [["s1", "site"], ["s2", "site"], ["s3", "site"], ["hub-a", "hub"], ["hub_a", "hub"]]

    def D(name, fluents, facts=()):
        init = [["fact", "joined", list(a)] for a in facts]
        init += [["fluent", f, list(a), v] for f, a, v in fluents]
        return {"name": name, "domain": "grid", "twins": None, "objects": declared, "arg_objects": declared, "style": "grouped",
                "init": init, "goal": [["lit", "joined", ["s1", "s1"]], ["num", [">=", ["load", "s2"], "2"]]], "shadow": False}
    descs = []
    for j, a in enumerate(arrangements((2, 2))):
        descs.append(("two-by-two-arrangement-%d" % j, D("arr%d" % j, [("load", ["s1"], "3"), ("cap4", [["s1", "s2"][k] for k in a], "1.5")],
                                                         [("s1", "s2")])))
    descs.append(("printed-forms-of-several-pairs", D("pairs", [
        ("cap4", ["s1", "s1", "s2", "s2"], "1.5"), ("cap4", ["s2", "s2", "s1", "s1"], "2.5"), ("cap4", ["s3", "s3", "hub-a", "hub-a"], "3.5"),
        ("cap4", ["hub_a", "hub_a", "s3", "s3"], "4.5"), ("cap4", ["main", "main", "s1", "s1"], "5.5"), ("load", ["s1"], "0"),
        ("cap4", ["hub-a", "hub-a", "hub_a", "hub_a"], "6.5"), ("cap4", ["s2", "s2", "s3", "s3"], "7.5")], [("s2", "s2")])))
    descs.append(("printed-forms-of-arity-5-and-6", D("wide", [
        ("cap5", ["s1", "s1", "s2", "s2", "s3"], "1"), ("cap5", ["s2", "s2", "s2", "s1", "s1"], "2"),
        ("cap5", ["hub-a", "hub-a", "s3", "s3", "s3"], "3"), ("cap6", ["s1", "s1", "s2", "s2", "s3", "s3"], "4"),
        ("cap6", ["s3", "s3", "s3", "s2", "s2", "s1"], "5"), ("cap6", ["main", "main", "hub_a", "hub_a", "s1", "s2"], "6"),
        ("cap6", ["s2", "s2", "s2", "s2", "s1", "s1"], "7")])))
    descs.append(("three-objects-interleaved", D("inter", [("cap6", ["s1", "s2", "s3", "s1", "s2", "s3"], "1"),
                                                            ("cap5", ["s3", "s1", "s1", "s2", "s2"], "2")])))
    descs.append(("printed-form-and-its-interleaving", D("both", [("cap4", ["s1", "s1", "s2", "s2"], "1"),
                                                                   ("cap4", ["s1", "s2", "s1", "s2"], "2")])))
    rng = random.Random(0)
    return {"domain_text": WIDE_DOMAIN, "source": "hand",
            "cases": [multi_repeat_case(rng, d, "hand-" + k) for k, d in descs]}


def hash_seeds(seed, tier):
    """the PYTHONHASHSEEDs under which every problem of multi_repeat_worlds is run"""
    return [(seed * 13 + 7 * k) % 4000 + (1 if k else 0) for k in range(3 if tier == "quick" else 6)]


def multi_repeat_worlds(seed, tier):
    """worlds with fluents repeating two or three different arguments; generated from their own random stream"""
    rng = random.Random(seed * 7919 + 77)
    n = 5 if tier == "quick" else 16
    return [wide_hand_world()] + [multi_repeat_world(rng, tier, enumerate_shape=(i % 3 == 0)) for i in range(n)]


def under_hash_seeds(worlds, seeds):
    """one copy of every world per hash seed (the 'hashseed' key selects the interpreter it is run in)"""
    out = []
    for hs in seeds:
        for w in worlds:
            w2 = dict(w)
            w2["hashseed"] = hs
            w2["cases"] = [dict(c) for c in w["cases"]]
            out.append(w2)
    return out


HAND_DOMAIN = ("(define (domain dom) (:requirements :typing :fluents) (:types t0 - object t1 - t0 t2) (:constants c0 - t1) "
               "(:predicates (p0 ?a - t0) (p1 ?a - t0 ?b - t0) (z) (q ?a - t2)) "
               "(:functions (f0 ?a - t0) (f2 ?a - t0 ?b - t0) (k3 ?a - t0 ?b - t0 ?c - t2) (g3 ?a - object ?b - object ?c - object) (h)) "
               "(:action a0 :parameters (?x - t0) :precondition (and (p0 ?x)) :effect (and (z))))")


def hand_world():
    """hand-written cases: the recorded deviations of DESIGN.md D19 (a, b, c repaired by the proposed fixes; d open),
    D07, and quirks of the section loop"""
    def P(objs, init, goal, name="pr", dom="dom"):
        return "(define (problem %s) (:domain %s) (:objects %s) (:init %s) (:goal (and %s)))" % (name, dom, objs, init, goal)
    cs = []

    def add(text, expect, kind, klass=None, witness_of=None):
        cs.append({"text": text, "expect": expect, "kind": kind, "klass": klass, "nontrivial": True, "witness_of": witness_of})
    O = "o0 o1 - t1 o2 - t2 o3 o4"
    objs = [["o0", "t1"], ["o1", "t1"], ["o2", "t2"], ["o3", "object"], ["o4", "object"]]
    add(P(O, "(p0 o0)", "(p0 o1)"),
        {"name": "pr", "objects": objs, "facts": [["p0", ["o0"]]], "fluents": [], "goal": [["p0", ["o1"]]], "goal_num": []},
        "D19a-trailing-untyped-objects")
    add(P(O, "(= (g3 o3 o4 o3) 1)", ""),
        {"name": "pr", "objects": objs, "facts": [], "fluents": [["g3", ["o3", "o4", "o3"], (1.0).hex()]], "goal": [], "goal_num": []},
        "D07-partial-repeat-reordered", "D07", "D07")
    add(P(O, "(= (g3 o3 o3 o4) 1) (= (g3 o3 o4 o4) 2)", ""),
        {"name": "pr", "objects": objs, "facts": [],
         "fluents": [["g3", ["o3", "o3", "o4"], (1.0).hex()], ["g3", ["o3", "o4", "o4"], (2.0).hex()]], "goal": [], "goal_num": []},
        "D07-key-collision", "D07")
    add(P(O, "(= (f2 o0 o0) 5)", ""),
        {"name": "pr", "objects": objs, "facts": [], "fluents": [["f2", ["o0", "o0"], (5.0).hex()]], "goal": [], "goal_num": []},
        "D07-full-repeat-ok", "D07")
    add(P(O, "(= (k3 o0 o0 o2) 5)", ""),
        {"name": "pr", "objects": objs, "facts": [], "fluents": [["k3", ["o0", "o0", "o2"], (5.0).hex()]], "goal": [], "goal_num": []},
        "D19c-valid-fluent-with-repeat", "D07")
    add(P(O, "(= (k3 o0 o0 o0) 5)", ""), "raised", "D19c-ill-typed-fluent-with-repeat", "D07")
    add(P(O, "", "(>= (f0) 1)"), "raised", "D19b-goal-fluent-arity-0")
    add(P(O, "", "(>= (f0 o0 o1) 1)"), "raised", "D19b-goal-fluent-arity+1")
    add(P(O, "", "(>= (+ (f2 o0) 1) 1)"), "raised", "D19b-goal-fluent-arity-nested")
    add(P(O, "", "(< (f0 zz) (h))"), "raised", "D19d-goal-fluent-undeclared-object", "D19d", "D19d")
    add(P(O, "", "(= (f0 o2) 1)"), "raised", "D19d-goal-fluent-ill-typed", "D19d")
    add(P(O, "", "(= (f2 o0 o0) 1)"),
        {"name": "pr", "objects": objs, "facts": [], "fluents": [], "goal": [],
         "goal_num": [["op", "=", ["fl", "f2", ["o0", "o0"]], ["num", (1.0).hex()]]]},
        "D07-goal-repeat-collapsed", "D07")
    add(P(O, "(p1 o0 o0) (p1 o0 c0) (z) (z)", "(z) (p1 c0 c0)"),
        {"name": "pr", "objects": objs, "facts": [["p1", ["o0", "o0"]], ["p1", ["o0", "c0"]], ["z", []]], "fluents": [],
         "goal": [["z", []], ["p1", ["c0", "c0"]]], "goal_num": []},
        "facts-repeated-arguments-constants-zero-arity")
    add(P(O, "(= (h) 1) (= (h) 2.5)", "(> (h) 1e22) (<= (- (h) 0.5) (* 2 (f0 c0)))"),
        {"name": "pr", "objects": objs, "facts": [], "fluents": [["h", [], (2.5).hex()]], "goal": [],
         "goal_num": [["op", ">", ["fl", "h", []], ["num", (1e22).hex()]],
                      ["op", "<=", ["op", "-", ["fl", "h", []], ["num", (0.5).hex()]],
                       ["op", "*", ["num", (2.0).hex()], ["fl", "f0", ["c0"]]]]]},
        "fluent-assigned-twice-last-wins")
    # an object named like the constant c0 (: t1): the constant's type decides
    add("(define (problem pr) (:domain dom) (:objects c0 - t2 o0 - t1) (:init (= (f0 c0) 1) (p0 c0)) (:goal (and (p0 c0) (>= (f0 c0) 1))))",
        {"name": "pr", "objects": [["c0", "t2"], ["o0", "t1"]], "facts": [["p0", ["c0"]]], "fluents": [["f0", ["c0"], (1.0).hex()]],
         "goal": [["p0", ["c0"]]], "goal_num": [["op", ">=", ["fl", "f0", ["c0"]], ["num", (1.0).hex()]]]},
        "object-named-like-a-constant-accepted")
    add("(define (problem pr) (:domain dom) (:objects c0 - t2 o0 - t1) (:init (q c0)) (:goal (and)))", "raised",
        "object-named-like-a-constant-fact-rejected")
    add("(define (problem pr) (:domain dom) (:objects c0 - t2 o0 - t1) (:init (= (k3 o0 o0 c0) 1)) (:goal (and)))", "raised",
        "object-named-like-a-constant-fluent-rejected", "D07")
    # outside the grammar of the spec (judged by the a-priori expectation only)
    add("(define (problem pr) (:domain dom) (:init (z)) (:goal (and)))",
        {"name": "pr", "objects": [], "facts": [["z", []]], "fluents": [], "goal": [], "goal_num": []}, "no-objects-section")
    add("(define (problem pr) (:domain dom) (:objects o0 - t1) (:init (z)) (:goal (p0 o0)))", "raised", "goal-without-and")
    add("(define (problem pr) (:domain dom) (:objects o0 - t1) (:init (p0 o0)) (:goal (and (not (p0 o0)))))", "raised", "negative-goal")
    add("(define (problem pr) (:domain dom) (:init (p0 o0)) (:objects o0 - t1) (:goal (and)))", "raised", "init-before-objects")
    add("(define (problem pr) (:domain dom) (:objects o0 - t1 (:private o5 - t2 (:private o6 - t0))) (:init (q o5) (p0 o6)) (:goal (and)))",
        {"name": "pr", "objects": [["o0", "t1"], ["o5", "t2"], ["o6", "t0"]], "facts": [["q", ["o5"]], ["p0", ["o6"]]],
         "fluents": [], "goal": [], "goal_num": []}, "nested-private")
    add("(define (problem pr) (:domain dom) (:objects o0 - t1 o0 - t2) (:init (q o0)) (:goal (and)))",
        {"name": "pr", "objects": [["o0", "t2"]], "facts": [["q", ["o0"]]], "fluents": [], "goal": [], "goal_num": []},
        "object-declared-twice-last-type")
    add("(define (problem pr) (:domain dom) (:objects o0 -) (:init) (:goal (and)))", "raised", "dash-without-type")
    add("(problem pr)", "raised", "no-define")
    add("(define (problem pr) (:domain dom) (:objects) (:init z) (:goal (and z)))",
        {"name": "pr", "objects": [], "facts": [["z", []]], "fluents": [], "goal": [["z", []]], "goal_num": []},
        "bare-token-zero-arity-atom")
    return {"domain_text": HAND_DOMAIN, "cases": cs, "source": "hand"}


def sequence_world():
    """one Domain object, three problems one after the other in one process: plain, one whose :init has a fluent with a
    repeated argument in the MIDDLE of other fluents, plain again.  Every fluent of every problem (also those listed
    before the repeated one, and those of the problem parsed afterwards) and every fluent leaf of the numeric goals is
    dumped through state_representation, i.e. through signature AND repeating_variables: a repeated argument that
    leaks from one PDDLFunction into another (shared repeating_variables dict) shows as foreign arguments."""
    O = "o0 o1 - t1 o2 - t2 o3 o4"
    objs = [["o0", "t1"], ["o1", "t1"], ["o2", "t2"], ["o3", "object"], ["o4", "object"]]

    def P(name, init, goal):
        return "(define (problem %s) (:domain dom) (:objects %s) (:init %s) (:goal (and %s)))" % (name, O, init, goal)

    def plain(name, a, b, c):
        return {"text": P(name, "(p0 o0) (= (f0 o0) %s) (= (f2 o0 o1) %s) (= (h) %s)" % (a, b, c), "(p0 o1) (>= (f0 o1) 1) (< (h) 3)"),
                "expect": {"name": name, "objects": objs, "facts": [["p0", ["o0"]]],
                           "fluents": [["f0", ["o0"], float(a).hex()], ["f2", ["o0", "o1"], float(b).hex()], ["h", [], float(c).hex()]],
                           "goal": [["p0", ["o1"]]],
                           "goal_num": [["op", ">=", ["fl", "f0", ["o1"]], ["num", (1.0).hex()]],
                                        ["op", "<", ["fl", "h", []], ["num", (3.0).hex()]]]},
                "kind": "sequence-plain-problem-" + name, "klass": None, "nontrivial": True}
    mid = {"text": P("middle", "(= (f0 o0) 7) (= (f2 o0 o1) 4.5) (= (f2 o1 o1) 0) (= (g3 o3 o3 o4) 6) (= (f2 o1 o0) 4.5) (= (f0 o1) 2) (= (h) 0)",
                     "(>= (f0 o0) 1) (< (+ (h) (f2 o0 o1)) 3)"),
           "expect": {"name": "middle", "objects": objs, "facts": [],
                      "fluents": [["f0", ["o0"], (7.0).hex()], ["f2", ["o0", "o1"], (4.5).hex()], ["f2", ["o1", "o1"], (0.0).hex()],
                                  ["g3", ["o3", "o3", "o4"], (6.0).hex()], ["f2", ["o1", "o0"], (4.5).hex()],
                                  ["f0", ["o1"], (2.0).hex()], ["h", [], (0.0).hex()]],
                      "goal": [],
                      "goal_num": [["op", ">=", ["fl", "f0", ["o0"]], ["num", (1.0).hex()]],
                                   ["op", "<", ["op", "+", ["fl", "h", []], ["fl", "f2", ["o0", "o1"]]], ["num", (3.0).hex()]]]},
           "kind": "sequence-repeated-argument-fluent-in-the-middle", "klass": "D07", "nontrivial": True}
    return {"domain_text": HAND_DOMAIN, "cases": [plain("before", "1e1", "-2", "0.5"), mid, plain("after", "3", "0.25", "-1")],
            "source": "hand"}


def same_path_world():
    """one Domain object and ONE file path for five problems in one process: a long text, a short one, one of exactly the
    same size as the short one with other content, one with empty sections, the long one again with other values.  A
    reader that keeps anything per path (or per path and size), or a writer that leaves the tail of a longer file, shows
    as a result that belongs to an earlier problem.  (C09 runs the same texts with one ProblemExporter object and one
    export path.)"""
    O = "o0 o1 - t1 o2 - t2 o3 o4"

    def P(name, init, goal, objs=O):
        return "(define (problem %s) (:domain dom) (:objects %s) (:init %s) (:goal (and %s)))" % (name, objs, init, goal)

    def long_(a, b, c):
        return P("long", "(p0 o0) (p1 o0 o1) (z) (q o2) (= (f0 o0) %s) (= (f2 o0 o1) %s) (= (f2 o1 o1) 0.1) (= (g3 o3 o4 c0) 7) (= (h) %s)" % (a, b, c),
                 "(p0 o1) (p1 o1 o0) (>= (f0 o1) 1) (< (+ (h) (f2 o0 o1)) 3)")
    texts = [("long-text", long_("2.5", "-3", "1e3")),
             ("short-text", P("shrt", "(p0 o0) (= (f0 o0) 1)", "(p0 o1)")),
             ("same-size-other-content", P("shrt", "(p0 o1) (= (f0 o1) 2)", "(p0 o0)")),
             ("empty-sections", P("none", "", "", objs="")),
             ("long-text-other-values", long_("0.5", "42", "-1"))]
    assert len(texts[1][1]) == len(texts[2][1])
    return {"domain_text": HAND_DOMAIN, "source": "hand", "same_path": True, "reuse": True,
            "cases": [{"text": t, "expect": None, "kind": "same-path-" + k, "klass": None, "nontrivial": True} for k, t in texts]}


def finding_worlds():
    out = []
    for f in load_findings(PROP):
        w = f.get("witness") or {}
        if "domain_text" not in w:
            continue
        out.append({"domain_text": w["domain_text"], "source": "finding",
                    "cases": [{"text": w["problem_text"], "expect": w.get("expect"), "kind": "finding-witness-" + f["id"],
                               "klass": f["id"] if f.get("status") == "open" else None, "nontrivial": True,
                               "witness_of": f["id"] if f.get("status") == "open" else None}]})
    return out


def fixture_worlds(tier):
    fx = run_impl([{"op": "c05.fixtures"}], nproc=1)[0]
    worlds = {}
    n_skipped = 0
    for p in fx["pairs"]:
        if p["domain"] is None:
            continue
        if tier == "quick" and p["size"] > 2100:
            n_skipped += 1
            continue
        worlds.setdefault(p["domain"], []).append(p)
    out = []
    for dpath, ps in worlds.items():
        out.append({"domain_path": dpath, "source": "fixture",
                    "cases": [{"path": p["problem"], "expect": None, "kind": "fixture", "klass": None,
                               "nontrivial": True, "rel": p["rel"]} for p in ps]})
    return out, len(fx["pairs"]), n_skipped


def run_grouped(worlds, jobs, hashseed):
    """runs job i in an interpreter started with PYTHONHASHSEED = worlds[i]["hashseed"] (default: hashseed)"""
    groups = {}
    for i, w in enumerate(worlds):
        groups.setdefault(w.get("hashseed", hashseed), []).append(i)
    results = [None] * len(jobs)
    for hs, idx in groups.items():
        for i, r in zip(idx, run_impl([jobs[i] for i in idx], hashseed=hs)):
            results[i] = r
    return results


def run_worlds(worlds, hashseed=0):
    jobs = []
    for w in worlds:
        job = {"op": "c05.world", "problems": [({"path": c["path"]} if "path" in c else c["text"]) for c in w["cases"]]}
        if "domain_path" in w:
            job["domain_path"] = w["domain_path"]
        else:
            job["domain_text"] = w["domain_text"]
        if w.get("same_path"):
            job["same_path"] = True
        jobs.append(job)
    return run_grouped(worlds, jobs, hashseed)


KEYWORDS = ["and", "or", "not", "forall", "exists", "imply", "when", "=", "<=", ">=", "<", ">", "+", "-", "*", "/",
            "assign", "increase", "decrease", "scale-up", "scale-down", "either"]
OPERATORS = ["=", "!=", "<=", ">=", ">", "<", "+", "-", "/", "*", "increase", "decrease", "assign"]


def hypotheses_report(results):
    """the hypotheses of the theorems (dom_ok, num_ok), checked on the vocabularies and numeral tables of this run"""
    rep = {"domains": 0, "domains_violating_dom_ok": [], "numeral_tables": 0, "numeral_tables_violating_num_ok": 0}
    for res in results:
        if "vocab" not in res:
            continue
        v = res["vocab"]
        rep["domains"] += 1
        cn = [c[0] for c in v["consts"]]
        bad = [f[0] for f in v["funcs"] if f[0] in KEYWORDS]
        if len(set(cn)) != len(cn) or bad:
            rep["domains_violating_dom_ok"].append({"name": v["name"], "keyword_functions": bad})
        for r in res["results"]:
            rep["numeral_tables"] += 1
            if any(k in OPERATORS for k in r.get("nums", {})):
                rep["numeral_tables_violating_num_ok"] += 1
    return rep


def run(args):
    rep = Report(PROP, args.tier, args.seed)
    standard_proof_part(rep, PROP)
    rng = random.Random(args.seed * 7919 + 5)
    n_fixture_total = n_fixture_skipped = 0
    if args.replay:
        data = json.load(open(args.replay))
        worlds = [dict(data["input"]["world"])]
        before = worlds[0].pop("parsed_before_in_the_same_process", [])
        worlds[0]["cases"] = [{"text": t, "expect": None, "kind": "parsed-before", "klass": k, "nontrivial": False}
                              for t, k in before] + worlds[0]["cases"]
    else:
        worlds = finding_worlds() + [sequence_world(), same_path_world(), hand_world()] + build_generated(rng, args.tier)
        worlds += under_hash_seeds(multi_repeat_worlds(args.seed, args.tier), hash_seeds(args.seed, args.tier))
        worlds += object_section_worlds(args.seed, args.tier)
        fw, n_fixture_total, n_fixture_skipped = fixture_worlds(args.tier)
        worlds += fw
    results = run_worlds(worlds, hashseed=args.seed % 7)
    cases, lits, units, origin = [], [], [], []
    dist = {}
    raised_classes, sizes = {}, {"objects": 0, "facts": 0, "fluents": 0, "goal_literals": 0, "goal_numeric": 0,
                                 "problems_with_repeated_fluent_argument": 0}
    outcomes = {"returned": 0, "raised": 0}
    domain_failures = []
    for w, res in zip(worlds, results):
        if "vocab" not in res:
            domain_failures.append({"world": w.get("domain_path") or w["domain_text"][:200], "raised": res.get("domain_raised")})
            continue
        clits = []
        for c, r in zip(w["cases"], res["results"]):
            text = r.get("text", c.get("text"))
            clits.append(case_lit(text, r, c["expect"]))
            dist[c["kind"]] = dist.get(c["kind"], 0) + 1
            outcomes["returned" if "dump" in r else "raised"] += 1
            if "dump" in r:
                d = r["dump"]
                sizes["objects"] += len(d["objects"]); sizes["facts"] += len(d["facts"]); sizes["fluents"] += len(d["fluents"])
                sizes["goal_literals"] += len(d["goal"]); sizes["goal_numeric"] += len(d["goal_num"])
            else:
                raised_classes[r.get("raised", "?")] = raised_classes.get(r.get("raised", "?"), 0) + 1
            if c.get("klass") == "D07":
                sizes["problems_with_repeated_fluent_argument"] += 1
            single = dict(w)
            single["cases"] = [c]
            origin.append((w, len(clits) - 1))
            cases.append({"lit": world_lit(res["vocab"], [clits[-1]]),
                          "input": {"world": single, "implementation": {k: v for k, v in r.items() if k != "text"}},
                          "nontrivial": c["nontrivial"], "witness_of": c.get("witness_of"), "klass": c.get("klass")})
        # one literal per world, cut into pieces that keep shards small
        piece, size = [], 0
        for cl in clits:
            if piece and size + len(cl) > 60_000:
                lits.append(world_lit(res["vocab"], piece))
                units.append(len(piece))
                piece, size = [], 0
            piece.append(cl)
            size += len(cl)
        if piece:
            lits.append(world_lit(res["vocab"], piece))
            units.append(len(piece))
    verdicts, info = run_case_shards(PROP, CORR, lits, shard_size=6, units=units, max_bytes=110_000, header_extra=HEADER)
    decide(rep, PROP, CORR, cases, verdicts, info, explain_expr="explain %s", header_extra=HEADER)
    # a case may depend on what the same process parsed before it (shared mutable state in the library): the replay
    # file of a failing case also names the problems parsed before it against the same Domain object
    for path, _ in rep.violations:
        try:
            data = json.load(open(path))
            w, pos = origin[data["case_index"]]
        except Exception:  # noqa
            continue
        if pos > 0 and "world" in data.get("input", {}):
            data["input"]["world"]["parsed_before_in_the_same_process"] = [
                [c.get("text") or open(c["path"]).read(), c.get("klass")] for c in w["cases"][:pos]]
            open(path, "w").write(json.dumps(data, indent=1, default=str))
    n_changed = 0
    for w, res in zip(worlds, results):
        if "domain_changed" in res and n_changed < 3:
            n_changed += 1
            k = res["domain_changed"]["after_problem_index"]
            p = write_replay(PROP, "domain_changed_%d" % len(rep.violations), {
                "kind": "input", "why": "parsing a problem changed how the Domain object presents its functions "
                                        "(str / state_representation / repeating_variables of domain.functions)",
                "input": {"world": dict({kk: vv for kk, vv in w.items() if kk in ("domain_text", "domain_path", "source")},
                                        cases=[{kk: vv for kk, vv in c.items() if kk != "desc"} for c in w["cases"][:max(k, 0) + 1]]),
                          "implementation": res["domain_changed"]}})
            rep.violation(p, True)
    if domain_failures:
        p = write_replay(PROP, "domain_failures", {"kind": "correspondence", "why": "a domain of the run did not parse",
                                                   "domains": domain_failures[:5]})
        rep.violation(p, False)
    cov = rep.coverage
    cov["input_distribution"] = dict(sorted(dist.items()))
    cov["outcomes"] = outcomes
    cov["raised_exception_classes"] = dict(sorted(raised_classes.items()))
    cov["sizes_total_of_accepted_problems"] = sizes
    cov["worlds"] = {"generated": sum(1 for w in worlds if w["source"] == "generated"),
                     "fixture_domains": sum(1 for w in worlds if w["source"] == "fixture"),
                     "fixture_problems": sum(len(w["cases"]) for w in worlds if w["source"] == "fixture"),
                     "fixture_problems_shipped": n_fixture_total, "fixture_problems_left_to_thorough_tier": n_fixture_skipped}
    cov["theorem_hypotheses_checked"] = hypotheses_report(results)
    cov["python_hash_seeds"] = {"default": args.seed % 7, "several_repeats_worlds": sorted({w["hashseed"] for w in worlds if "hashseed" in w})}
    cov["exhaustive"] = False
    cov["rule"] = ("problems generated over pddlgen domains widened with binary/ternary functions (object list typed one by one / "
                   "grouped / trailing untyped / (:private ...) / mixed; arguments from objects of subtypes and domain constants; "
                   "repeated arguments; zero-arity atoms; numerals int/decimal/negative/exponent/.5/5./+4; numeric goals of depth <= 2; "
                   "pairs of numeric goals over one expression whose constants agree up to the 4th decimal / differ by 1e-8 / are two "
                   "spellings of one value / are identical). Every second domain has type / constant / predicate / function / object "
                   "names that contain '-' and '_' and share prefixes (loc-a, loc_a, loca, loc-a-b, loc_a-b ...) and a domain name with "
                   "separators (a-b_c, fuel_transport ...). EVERY single-point corruption of each D07-free valid problem by an UNRELATED "
                   "name (domain name, object type, and per init fact / fluent / goal literal / goal fluent: name, arity+1, arity-1, "
                   "undeclared object, ill-typed object, non-numeral value; sub-sampled to 14 per problem in the quick tier) and by a NEAR "
                   "MISS of every name the parser compares or looks up (sites: domain name, object type, fact / fluent / goal-literal / "
                   "goal-fluent name and each of their arguments; variations: separator swapped at one place / everywhere, dropped, "
                   "doubled, inserted, prefix, prefix up to a separator, first part dropped, one-letter and one-part extension, doubled "
                   "and dropped character, leading and trailing separator): a near miss that is not declared must be rejected, one that "
                   "is another declared name is judged by the spec, a spelling in another letter case must be accepted with the same "
                   "result (the tokenizer lower-cases); sampled per problem - quick: 3 domain-name + 2 separator-swap + 7 other + 2 case "
                   "variants, thorough 5 + 2 + 10 + 2 - always the (site, variation) pairs the run has covered least. "
                   "The type-check boundary (one object per type and the constants, single-item problems "
                   "over every argument tuple of every predicate / function, sampled to 10 (quick) / 40 (thorough) per domain; accepted iff "
                   "every argument conforms), hand-written deviation witnesses, a three-problem sequence against one Domain object (plain, "
                   "a fluent with a repeated argument between other fluents, plain again), shipped problem files each against its domain "
                   "(quick: files <= 2100 bytes). Every fluent of every problem and every fluent leaf of a numeric goal is dumped through "
                   "state_representation (signature + repeating_variables); all problems of a domain are parsed in one process against one "
                   "Domain object, whose functions must present themselves the same way afterwards. "
                   "Initial fluents that repeat TWO OR THREE different arguments (functions of arity 4-6 added to generated domains, and a hand "
                   "domain): written the way the library prints them (inside safe_repeats), in arbitrary interleavings, and every arrangement "
                   "of one shape (2x2, 2x2x1, 3x2, 2x2x2 ...), each problem parsed under several PYTHONHASHSEEDs (quick 3, thorough 6: the order of "
                   "repeating_variables must be the order of first occurrence under every seed). Five problems written one after the other to ONE "
                   "file path (long, short, same size with other content, empty sections, long again). Object sections outside the grammar of the "
                   "spec: a name declared again (same type, real type last, other type last, inside one group, inside / before a nested list, with an "
                   "undeclared superseded type), lists nested to depth 3 with any head (a group inside a list, names pending across a list, "
                   "trailing untyped names inside a list, empty lists), a dash that closes no name, a dash without a type - judged by the normal "
                   "form of the section (Spec/ProblemObjects.v) AND by an expectation computed independently in the generator. "
                   "Non-trivial: >= 2 init/goal items or any corruption; distinct by input hash.")
    cov["samples"] = [{"kind": c["input"]["world"]["cases"][0]["kind"],
                       "text": (c["input"]["world"]["cases"][0].get("text") or c["input"]["world"]["cases"][0].get("path"))[:400]}
                      for c in (cases[:2] + cases[len(cases) // 2:len(cases) // 2 + 2] + cases[-1:])]
    cov["explanation"] = ("theorems C05_* (Props/C05.v) proved for all problem token trees of the grammar on the model; model (cfg_fixed) tied "
                          "to the implementation by the cases above; spec oracle = Spec/Problem.v read_problem + wf_sproblem + pdump_equiv")
    rep.assumptions = ["ASCII input", "float(token) of CPython is supplied as a table with every case (not modelled)",
                       "the vocabulary of the domain is taken from the implementation's parsed Domain object"]
    return rep.finish()
