"""C10 — a serialized trajectory parses back to the same states and actions."""
import itertools
import json
import math
import random
import time
from pathlib import Path

from ..common import (REPO, Report, cbool, chex, clist, cobs, cstr, decide, load_findings, run_case_shards, run_impl,
                      standard_proof_part, write_replay)
from .. import pddlgen as G
from .c14 import (VALUE_POOL, DOMAIN as DOM14, PRED_SIGS, FUNC_SIGS, ACTIONS, EMPTY_DUMP, cpairs, fhex, hexlit, unhex,
                  vars_of)

PROP = "C10"
HEADER = ("From Coq Require Import PrimFloat.\nFrom Verif Require Import Model.Domain Model.State Model.Trajectory Spec.Pddl Corr.C10.\n")


# ---------------------------------------------------------------- generation
def world_case(rng, mode):
    """a pddlgen world with a random-walk plan"""
    w = G.gen_world(rng, max_actions=3)
    objs = G.gen_objects(rng, w, n=rng.randint(2, 4))
    st = G.gen_state(rng, w, objs, density=rng.choice([0.0, 0.2, 0.5, 0.8]))
    if rng.random() < 0.15:
        st = {"facts": [], "fluents": []}                      # an empty first state
    elif rng.random() < 0.3:
        # negative and fractional values outside the dyadic grid
        st["fluents"] = [(f, a, rng.choice([-0.1, 1 / 3, -2.75, 1e-05, 123456.789, 0.30000000000000004, -7.0])) for f, a, _ in st["fluents"]]
    cands = []
    for a in w.actions:
        cands += [[a["name"], args] for args in G.calls_for(rng, w, objs, a, limit=8)]
    return {"kind": "world-" + mode, "mode": mode, "domain_text": G.render(w.domain_tree("dom")),
            "problem_text": G.problem_text(w, objs, st, domain="dom"),
            "walk": {"seed": rng.randint(0, 10 ** 9), "steps": rng.choice([1, 1, 2, 3, 4, 6]), "agents": rng.randint(1, 3),
                     "cands": cands},
            "allow_invalid": rng.random() < 0.3, "features": sorted(w.features)}


def dom14_case(rng, mode, repeats):
    objs = [("o%d" % i, rng.choice(["a", "b", "a"])) for i in range(rng.randint(1, 3))]
    if rng.random() < 0.4:
        objs.append(("u0", "c"))
    names_a = [n for n, t in objs if t in ("a", "b")]
    names_c = [n for n, t in objs if t == "c"]
    dens = rng.choice([0.0, 0.3, 0.6, 1.0])
    items = []
    for p, sig in PRED_SIGS.items():
        for combo in itertools.product(*[names_a if t == "a" else names_c for _, t in sig]):
            if rng.random() < dens:
                items.append("(%s)" % " ".join([p] + list(combo)))
    for f, sig in FUNC_SIGS.items():
        for combo in itertools.product(*[names_a for _ in sig]):
            if len(set(combo)) < len(combo) and not repeats:
                continue
            if rng.random() < max(dens, 0.4):
                items.append("(= (%s) %s)" % (" ".join([f] + list(combo)), repr(rng.choice(VALUE_POOL[:16]))))
    if repeats:
        o = rng.choice(names_a)     # the diagonal entry is always there
        if not any(i.startswith("(= (g %s %s)" % (o, o)) for i in items):
            items.append("(= (g %s %s) %s)" % (o, o, repr(rng.choice(VALUE_POOL[:12]))))
    rng.shuffle(items)
    ptxt = "(define (problem prob) (:domain dom14) (:objects %s) (:init %s) (:goal (and)))" % (
        " ".join("%s - %s" % (n, t) for n, t in objs), " ".join(items))
    cands = []
    for name, ar in ACTIONS.items():
        for combo in itertools.product(names_a, repeat=ar):
            if len(set(combo)) < len(combo) and not repeats:
                continue
            cands.append([name, list(combo)])
    return {"kind": "dom14-%s%s" % (mode, "-repeats" if repeats else ""), "mode": mode, "domain_text": DOM14,
            "problem_text": ptxt,
            "walk": {"seed": rng.randint(0, 10 ** 9), "steps": rng.choice([1, 2, 3, 5]), "agents": rng.randint(1, 3), "cands": cands},
            "allow_invalid": rng.random() < 0.3, "features": ["dom14"]}


def exhaustive_inputs(tier):
    """EVERY plan up to a length over the fixed domain, two objects, two first states (one of them empty);
    thorough: also every joint action of two agents (nop included) as a one-step plan"""
    objs = "o0 - a o1 - b"
    names = ["o0", "o1"]
    calls = [["mv", [x, y]] for x in names for y in names] + [["setf", [x]] for x in names] + [["tog", []]]
    inits = ["(p o0) (z) (q o1 o0) (= (f o0) 1.0) (= (g o0 o1) -2.5) (= (h) 0.5)", ""]
    out = []
    for init in inits:
        ptxt = "(define (problem prob) (:domain dom14) (:objects %s) (:init %s) (:goal (and)))" % (objs, init)
        for k in range(1, (1 if tier == "quick" else 2) + 1):
            for plan in itertools.product(calls, repeat=k):
                out.append({"kind": "exhaustive-single", "mode": "single", "domain_text": DOM14, "problem_text": ptxt,
                            "plan": [list(c) for c in plan], "allow_invalid": False, "features": ["dom14"]})
        if tier != "quick":
            members = calls + [["nop", []]]
            for joint in itertools.product(members, repeat=2):
                out.append({"kind": "exhaustive-joint", "mode": "joint", "domain_text": DOM14, "problem_text": ptxt,
                            "plan": [[list(c) for c in joint]], "allow_invalid": False, "features": ["dom14"]})
    return out


T = REPO / "tests"
SHIPPED = [
    {"name": "test_numeric_trajectory (depot, numeric)", "domain": "lisp_parsers_tests/depot_numeric.pddl",
     "problem": "lisp_parsers_tests/pfile2.pddl", "trajectory": "lisp_parsers_tests/test_numeric_trajectory", "agents": None},
    {"name": "pfile10_10.trajectory (farmland)", "domain": "lisp_parsers_tests/farmland.pddl",
     "problem": "lisp_parsers_tests/pfile10_10.pddl", "trajectory": "lisp_parsers_tests/pfile10_10.trajectory", "agents": None},
    {"name": "miconic_pfile_1-0.trajectory", "domain": "models_tests/domain_miconic.pddl",
     "problem": "models_tests/miconic_pfile_1-0.pddl", "trajectory": "models_tests/miconic_pfile_1-0.trajectory", "agents": None},
    {"name": "starcraft_trajectory.trajectory (joint, no problem)", "domain": "lisp_parsers_tests/starcraft_domain.pddl",
     "problem": None, "trajectory": "lisp_parsers_tests/starcraft_trajectory.trajectory",
     "agents": ["agent0", "agent1", "agent2", "agent3", "agent4"]},
    {"name": "test_joint_trajectory_with_potential_bug (depot, joint)", "domain": "lisp_parsers_tests/Depots.pddl",
     "problem": "lisp_parsers_tests/pfile1_depot.pddl", "trajectory": "lisp_parsers_tests/test_joint_trajectory_with_potential_bug",
     "agents": ["depot0", "distributor0", "distributor1", "distributor2", "distributor3", "truck0", "truck1", "truck2", "truck3"]},
    {"name": "ma_logistics_trajectory.trajectory (joint)", "domain": "lisp_parsers_tests/logistics_combined_domain.pddl",
     "problem": "lisp_parsers_tests/pfile_probLOGISTICS-14-0.pddl", "trajectory": "lisp_parsers_tests/ma_logistics_trajectory.trajectory",
     "agents": ["apn1", "apn2", "tru1", "tru2", "tru3", "tru4", "tru5"]},
    {"name": "ma_woodworking_trajectory.trajectory (joint)", "domain": "lisp_parsers_tests/woodworking_combined_domain.pddl",
     "problem": "lisp_parsers_tests/woodworking_combined_problem.pddl", "trajectory": "lisp_parsers_tests/ma_woodworking_trajectory.trajectory",
     "agents": None},   # filled from the test suite's constant at run time
]


def build_inputs(rng, tier):
    inputs = []
    for f in load_findings(PROP):
        w = f.get("witness") or {}
        if "domain_text" in w:
            inputs.append(dict(w, kind="witness:" + f["id"], witness_of=f["id"] if f["status"] == "open" else None))
    n = {"quick": 40, "thorough": 350}[tier]
    for _ in range(n):
        inputs.append(world_case(rng, "single"))
    for _ in range(n // 2):
        inputs.append(world_case(rng, "joint"))
    for _ in range(n // 2):
        inputs.append(dom14_case(rng, rng.choice(["single", "joint"]), repeats=False))
    for _ in range(max(4, n // 10)):
        inputs.append(dom14_case(rng, rng.choice(["single", "joint"]), repeats=True))
    inputs += exhaustive_inputs(tier)
    # process-level sequences: an unrelated round trip with repeated-argument fluents (or none, for contrast) happens in
    # the same process BEFORE an ordinary trajectory is built, exported and parsed back
    for k in range(max(6, n // 8)):
        main = rng.choice([lambda: world_case(rng, "single"), lambda: world_case(rng, "joint"),
                           lambda: dom14_case(rng, rng.choice(["single", "joint"]), repeats=False)])()
        noise = [dom14_case(rng, rng.choice(["single", "joint"]), repeats=(k % 5 != 4)) for _ in range(rng.randint(1, 2))]
        if k % 2 == 0:
            # every file of the job goes to the same path again and again (a scratch file re-exported); the earlier
            # contents are other worlds as often as the fixed domain
            noise.append(world_case(rng, rng.choice(["single", "joint"])))
        inputs.append(dict(main, kind="after-noise:" + main["kind"], noise=noise, main=main, same_paths=(k % 2 == 0)))
    # observe - mutate - observe (wave 3): the triplet list -- the exporter's own, or one made from the components of the
    # Observation parsed from its file -- is exported and parsed back, then one of its states is changed in place through
    # the public attributes and the SAME list is exported and parsed back again, 2-4 times
    for k in range(max(8, n // 6)):
        main = [lambda: world_case(rng, "single"), lambda: world_case(rng, "joint"),
                lambda: dom14_case(rng, rng.choice(["single", "joint"]), repeats=False)][k % 3]()
        via = "observation" if k % 2 else "triplets"
        inputs.append(dict(main, kind="omo:%s:%s" % (via, main["kind"]), main=main,
                           omo={"muts": rng.randint(2, 4), "mut_seed": rng.randint(0, 10 ** 9), "via": via,
                                # every fourth job: a fluent is set to a zero and then to the OTHER zero (equal numbers, different values)
                                "script": ["set-zero", "flip-zero"] if k % 4 == 2 else []}))
    # the empty plan
    e = dom14_case(rng, "single", repeats=False)
    e.update(kind="empty-plan", plan=[])
    inputs.append(e)
    for s in SHIPPED:
        inputs.append({"kind": "shipped", "shipped": s})
    return inputs


def job_of(inp):
    if "omo" in inp:
        return dict(inp["omo"], op="c10.omo", main=job_of(inp["main"]))
    if "noise" in inp:
        return {"op": "c10.after_noise", "noise": [job_of(n) for n in inp["noise"]], "main": job_of(inp["main"]),
                "same_paths": bool(inp.get("same_paths"))}
    if inp["kind"] == "shipped":
        s = inp["shipped"]
        agents = s["agents"]
        if "woodworking" in s["trajectory"] and agents is None:
            agents = ["glazer0", "grinder0", "highspeed-saw0", "immersion-varnisher0", "planer0", "saw0", "spray-varnisher0"]
        return {"op": "c10.shipped", "domain": str(T / s["domain"]), "problem": str(T / s["problem"]) if s["problem"] else None,
                "trajectory": str(T / s["trajectory"]), "agents": agents}
    j = {"op": "c10.trajectory", "domain_text": inp["domain_text"], "problem_text": inp["problem_text"], "mode": inp["mode"],
         "allow_invalid": inp.get("allow_invalid", False)}
    if inp.get("plan") is not None:
        j["plan"] = inp["plan"]
    else:
        j["walk"] = inp["walk"]
    return j


# ---------------------------------------------------------------- Coq literals
class Lit:
    """literal builder sharing signature lists through let-bindings"""

    def __init__(self):
        self.sigs = {}

    def sig(self, pairs):
        key = json.dumps(pairs)
        if key not in self.sigs:
            self.sigs[key] = ("sg%d" % len(self.sigs), cpairs(pairs))
        return self.sigs[key][0]

    def gp(self, g):
        if [p for p, _ in g["sig"]] == [p for p, _ in g["map"]] and g["pos"]:
            return "F %s %s %s" % (cstr(g["name"]), self.sig(g["sig"]), clist([cstr(o) for _, o in g["map"]]))
        return "{| gp_name := %s; gp_sig := %s; gp_map := %s; gp_pos := %s |}" % (
            cstr(g["name"]), cpairs(g["sig"]), cpairs(g["map"]), cbool(g["pos"]))

    def pf(self, f):
        if not f.get("is_float", True):      # a Python int where a float is expected (never seen on a parser / effect route)
            return "{| pf_name := %s; pf_sig := %s; pf_val := %s; pf_rep := %s; pf_int := true |}" % (
                cstr(f["name"]), cpairs(f["sig"]), hexlit(f["val"]), cpairs(f["rep"], lambda k: "%d%%nat" % k))
        return "N %s %s %s %s" % (cstr(f["name"]), self.sig(f["sig"]), hexlit(f["val"]),
                                   cpairs(f["rep"], lambda k: "%d%%nat" % k))

    def mstate(self, d):
        preds = clist(["(%s, %s)" % (cstr(k), clist([self.gp(g) for g in grp])) for k, grp in d["preds"]])
        fl = clist(["(%s, %s)" % (cstr(k), self.pf(f)) for k, f in d["fluents"]])
        return "{| st_init := %s; st_preds := %s; st_fluents := %s |}" % (cbool(d["init"]), preds, fl)

    def wrap(self, body):
        lets = "".join("let %s := %s in " % (n, v) for n, v in self.sigs.values())
        return "(%s%s)" % (lets, body)


def ccall(c):
    return "(%s, %s)" % (cstr(c[0]), clist([cstr(a) for a in c[1]]))


def cact(act, joint):
    if joint:
        return "AJoint %s" % clist([ccall(c) for c in act])
    return "ASingle %s" % ccall(act[0])


def cobs_val(r, render):
    return "(Returned %s)" % render(r["value"]) if r and "value" in r else "Raised"


def coresult(r):
    if r is None:
        return "None"
    if "value" not in r:
        return "(Some Raised)"
    v = r["value"]
    steps = clist(["{| os_calls := %s; os_prev := %s; os_next := %s; os_eq_prev := %s; os_eq_next := %s; os_chain := %s |}" % (
        clist([ccall(c) for c in s["calls"]]), cobs_val(s["prev"], cstr), cobs_val(s["next"], cstr),
        cobs_val(s["eq_prev"], cbool), cobs_val(s["eq_next"], cbool), cobs_val(s["chain"], cbool)) for s in v["steps"]])
    return "(Some (Returned {| or_objects := %s; or_steps := %s |}))" % (cpairs(v["objects"]), steps)


def texts_of(res):
    out = []
    if "value" in res.get("export", {}):
        out.append(res["export"]["value"])
    if res.get("source"):
        out.append(res["source"])
    for k in ("with", "deduced"):
        if res.get(k) and "value" in res[k]:
            for s in res[k]["value"]["steps"]:
                for q in ("prev", "next"):
                    if "value" in s[q]:
                        out.append(s[q]["value"])
    return out


def values_of(res):
    vals = set()
    for d in [res.get("first", EMPTY_DUMP)] + [s["post"] for s in res.get("steps", [])]:
        for _, f in d["fluents"]:
            vals.add(f["val"])
    return vals


_FLUENT = None


def text_has_repeat(text):
    """a '(= (f a b a) v)' item with a repeated argument somewhere in a problem / state / trajectory text"""
    import re
    global _FLUENT
    if _FLUENT is None:
        _FLUENT = re.compile(r"\(=\s*\(([^()]*)\)")
    for m in _FLUENT.finditer(text):
        args = m.group(1).split()[1:]
        if len(set(args)) < len(args):
            return True
    return False


def may_repeat(inp, res):
    """INPUT-side part of finding D07's class: can this input lead to a ground fluent with a repeated argument?
    Conservative and syntactic: the first state's text has one; the domain writes a term such as (f c c) / (f ?x ?x);
    a call of the plan repeats an argument; a call names a constant that the domain pairs with a variable inside a
    function term; the domain quantifies (forall) and has a function term with two variables (the quantified variable
    ranges over the call's own arguments).  Shipped files: their own text."""
    import re
    if inp["kind"] == "shipped":
        return text_has_repeat(res.get("source") or "")
    if text_has_repeat(inp["problem_text"]):
        return True
    consts = {n for n, _ in res.get("vocab", {}).get("consts", [])}
    terms = []
    for fname, _ in res.get("vocab", {}).get("funcs", []):
        for m in re.finditer(r"\(%s((?:\s+[^()\s]+)*)\s*\)" % re.escape(fname), inp.get("domain_text", "")):
            terms.append(m.group(1).split())
    if any(len(set(t)) < len(t) for t in terms):
        return True
    if "(forall" in inp.get("domain_text", "") and any(len({a for a in t if a.startswith("?")}) >= 2 for t in terms):
        return True
    risky = {c for t in terms for c in t if c in consts and any(a.startswith("?") for a in t)}
    for step in res.get("plan") or []:
        calls = step if step and isinstance(step[0], list) else [step]
        for c in calls:
            args = c[1]
            if len(set(args)) < len(args) or any(a in risky for a in args):
                return True
    return False


def case_literal(res, ff, may_rep=True):
    L = Lit()
    joint = res.get("agents") is not None
    v = res["vocab"]
    dom = "vocab %s %s %s %s" % (cpairs(v["types"]), cpairs(v["consts"]),
                                 clist(["(%s, %s)" % (cstr(n), cpairs(sg)) for n, sg in v["preds"]]),
                                 clist(["(%s, %s)" % (cstr(n), cpairs(sg)) for n, sg in v["funcs"]]))
    toks = set()
    for t in texts_of(res):
        toks |= set(t.replace("(", " ").replace(")", " ").split())
    nums = clist(["(%s, %s)" % (cstr(t), hexlit(ff["nums"][t])) for t in sorted(toks) if t in ff["nums"]])
    reprs = clist(["(%s, %s)" % (hexlit(h), cstr(ff["reprs"][h][0])) for h in sorted(values_of(res))])
    first = L.mstate(res.get("first", EMPTY_DUMP))
    steps = clist(["(%s, %s)" % (cact(s["act"], joint), L.mstate(s["post"])) for s in res.get("steps", [])])
    agents = "(Some %s)" % clist([cstr(a) for a in res["agents"]]) if joint else "None"
    with_ = coresult(res.get("with"))
    ded = coresult(res.get("deduced") or {"raised": "NotRun"})[len("(Some "):-1]
    body = ("{| c_dom := %s; c_nums := %s; c_repr := %s; c_objs := %s; c_agents := %s; c_first := %s; c_steps := %s; "
            "c_export := %s; c_source := %s; c_with := %s; c_deduced := %s; c_strict := %s; c_may_repeat := %s |}") % (
        dom, nums, reprs, cpairs(res["objects"]), agents, first, steps, cobs_val(res.get("export"), cstr),
        "(Some %s)" % cstr(res["source"]) if res.get("source") else "None", with_, ded,
        cobs_val(res.get("strict"), lambda n: "%d%%nat" % n), cbool(may_rep))
    return L.wrap(body)


def dump_has_repeat(d, vocab=None):
    """D07: a fluent with a repeated argument, or one an effect has already collapsed (fewer arguments than declared)"""
    arity = {n: len(sg) for n, sg in (vocab or {}).get("funcs", [])}
    for _, f in d["fluents"]:
        vs = vars_of(f["sig"], f["rep"])
        if f["name"] in arity:
            if len(vs) < arity[f["name"]] or (len(vs) == arity[f["name"]] and len(set(vs)) < len(vs)):
                return True         # (never MORE arguments than declared: D07 drops arguments, it does not invent them)
        elif len(set(vs)) < len(vs):
            return True
    return False


def run_coqchk(rep, prop):
    """thorough tier: the independent checker re-checks the compiled property file and everything it depends on"""
    import subprocess
    from ..common import COQ
    t0 = time.time()
    r = subprocess.run("ulimit -s unlimited 2>/dev/null; timeout 900 coqchk -silent -o -Q %s Verif Verif.Props.%s" % (COQ, prop),
                       shell=True, capture_output=True, text=True)
    out = r.stdout + r.stderr
    ok = r.returncode == 0 and "type-in-type: <none>" in out and "unsafe (co)fixpoints: <none>" in out \
        and "positivity is assumed: <none>" in out
    rep.coverage["coqchk"] = {"ok": ok, "seconds": round(time.time() - t0, 1),
                              "cmd": "coqchk -silent -o -Q coq Verif Verif.Props.%s" % prop}
    rep.coverage["obligations"] = rep.coverage.get("obligations", 0) + 1
    rep.coverage["discharged"] = rep.coverage.get("discharged", 0) + (1 if ok else 0)
    if not ok:
        p = write_replay(prop, "coqchk_failed", {"kind": "proof-obligation", "what": "coqchk rejected the compiled library",
                                                  "out": (r.stdout + r.stderr)[-3000:]})
        rep.violation(p, False)


# ---------------------------------------------------------------- run
def run(args):
    rep = Report(PROP, args.tier, args.seed)
    phases = {}
    t_ = time.time()
    standard_proof_part(rep, PROP)
    phases["proofs"] = round(time.time() - t_, 1)
    t_ = time.time()
    rng = random.Random(args.seed * 7919 + 10)
    if args.replay:
        data = json.load(open(args.replay))
        inputs = [data["input"]["case"]]
    else:
        inputs = build_inputs(rng, args.tier)
    hashseed = args.seed % 5
    # Order inside a worker process is part of the input (process-level state of the library), so it is controlled:
    # inputs with repeated-argument fluents (the D07 area) never share a process with ordinary inputs, and every
    # after-noise sequence is one job in a process of its own; a replay in a fresh process is the same experiment.
    from ..common import NCPU
    seq = [i for i, x in enumerate(inputs) if "noise" in x or "omo" in x]
    apart = [i for i, x in enumerate(inputs) if "noise" not in x and "omo" not in x and (x["kind"].endswith("-repeats") or x["kind"].startswith("witness"))]
    plain = [i for i in range(len(inputs)) if i not in seq and i not in apart]
    results = [None] * len(inputs)
    for idxs in (plain, apart):
        for i, r in zip(idxs, run_impl([job_of(inputs[i]) for i in idxs], hashseed=hashseed)):
            results[i] = r
    for a in range(0, len(seq), NCPU):
        batch = seq[a:a + NCPU]
        for i, r in zip(batch, run_impl([job_of(inputs[i]) for i in batch], hashseed=hashseed, nproc=len(batch))):
            results[i] = r
    # an observe-mutate-observe job is judged moment by moment: each moment is an ordinary case (dump, export, parse back)
    omo_stats = {"jobs": 0, "moments": 0, "mutations": {}, "via": {}, "states_played_by_two_objects": 0, "mutation_raised": 0}
    inputs2, results2 = [], []
    for inp, r in zip(inputs, results):
        if "omo" in inp and "moments" in r:
            omo_stats["jobs"] += 1
            omo_stats["via"][inp["omo"]["via"]] = omo_stats["via"].get(inp["omo"]["via"], 0) + 1
            for ap in r["applied"]:
                omo_stats["mutations"][ap["mut"]["kind"]] = omo_stats["mutations"].get(ap["mut"]["kind"], 0) + 1
                omo_stats["states_played_by_two_objects"] += 1 if ap["objects"] > 1 else 0
                omo_stats["mutation_raised"] += sum(1 for d in ap["done"] if "value" not in d)
            for m, mo in enumerate(r["moments"]):
                omo_stats["moments"] += 1
                inputs2.append(dict(inp, moment=m, applied=r["applied"][:m]))
                results2.append(mo)
        else:
            inputs2.append(inp)
            results2.append(r)
    inputs, results = inputs2, results2
    # float facts
    vals, toks = set(), set()
    for r in results:
        if "vocab" not in r:
            continue
        vals |= values_of(r)
        for t in texts_of(r):
            toks |= set(t.replace("(", " ").replace(")", " ").split())
    ff = run_impl([{"op": "c14.float_facts", "values": sorted(vals), "texts": sorted(toks)}], nproc=1)[0]
    for h, (r_, back) in ff["reprs"].items():
        ff["nums"].setdefault(r_, back)
    cases, lits = [], []
    stats = {"kinds": {}, "steps": {}, "joint": 0, "single": 0, "nop_entries": 0, "states": 0, "empty_states": 0, "facts": 0,
             "zero_arity_facts": 0, "fluents": 0, "negative_values": 0, "fractional_values": 0, "repeated_argument_fluents": 0,
             "repeated_argument_facts": 0, "refused_steps_or_unchanged": 0, "export_raised": 0, "parse_with_raised": 0,
             "parse_deduced_raised": 0, "harness_errors": 0, "literal_bytes_max": 0}
    for inp, r in zip(inputs, results):
        stats["kinds"][inp["kind"]] = stats["kinds"].get(inp["kind"], 0) + 1
        if "vocab" not in r:
            # the driver itself failed (domain/problem did not parse, exporter raised before any triplet): not a case of the property
            stats["harness_errors"] += 1
            p = None
            if inp.get("moment", 0) > 0:
                p = write_replay(PROP, "omo_failed_%d" % len(cases), {"kind": "input", "why": "after an in-place change of one of its states the trajectory could no longer be dumped / exported", "input": {"case": inp}, "result": r})
                rep.violation(p, True)
            elif inp["kind"] == "shipped" or inp["kind"].startswith("witness"):
                p = write_replay(PROP, "driver_failed_%d" % len(cases), {"kind": "correspondence", "why": "the implementation driver failed on a fixture", "input": {"case": inp}, "result": r})
                rep.violation(p, False)
            continue
        dumps = [r.get("first", EMPTY_DUMP)] + [s["post"] for s in r.get("steps", [])]
        n = len(r.get("steps", []))
        stats["steps"][str(min(n, 10))] = stats["steps"].get(str(min(n, 10)), 0) + 1
        joint = r.get("agents") is not None
        stats["joint" if joint else "single"] += 1
        for s in r.get("steps", []):
            stats["nop_entries"] += sum(1 for c in s["act"] if c[0] == "nop")
        rept = False
        for i, d in enumerate(dumps):
            stats["states"] += 1
            nf = sum(len(g) for _, g in d["preds"])
            stats["facts"] += nf
            stats["fluents"] += len(d["fluents"])
            stats["empty_states"] += 1 if nf == 0 and not d["fluents"] else 0
            for _, grp in d["preds"]:
                for g in grp:
                    stats["zero_arity_facts"] += 1 if not g["map"] else 0
                    objs = [o for _, o in g["map"]]
                    stats["repeated_argument_facts"] += 1 if len(set(objs)) < len(objs) else 0
            for _, f in d["fluents"]:
                x = unhex(f["val"])
                stats["negative_values"] += 1 if x < 0 else 0
                stats["fractional_values"] += 1 if math.isfinite(x) and x != int(x) else 0
            if dump_has_repeat(d, r.get("vocab")):
                stats["repeated_argument_fluents"] += 1
                rept = True
            if i > 0 and json.dumps(d, sort_keys=True) == json.dumps(dict(dumps[i - 1], init=d["init"]), sort_keys=True):
                stats["refused_steps_or_unchanged"] += 1
        stats["export_raised"] += 1 if "value" not in r.get("export", {}) else 0
        stats["parse_with_raised"] += 1 if r.get("with") and "value" not in r["with"] else 0
        stats["parse_deduced_raised"] += 1 if r.get("deduced") and "value" not in r["deduced"] else 0
        if r.get("file_same") is False or r.get("chain") is False:
            p = write_replay(PROP, "file_or_chain_%d" % len(cases), {"kind": "input", "why": "export_to_file wrote another text than export(), or the exporter's triplets are not a chain",
                                                                     "input": {"case": inp}, "file_same": r.get("file_same"), "chain": r.get("chain")})
            rep.violation(p, True)
        main_inp = inp.get("main", inp)
        may_rep = may_repeat(main_inp, r)
        stats["may_repeat_inputs"] = stats.get("may_repeat_inputs", 0) + (1 if may_rep else 0)
        lit = case_literal(r, ff, may_rep)
        stats["literal_bytes_max"] = max(stats["literal_bytes_max"], len(lit))
        lits.append(lit)
        klass = "D07" if (rept and may_rep) else ("D56" if n == 0 else None)
        small = {k: v for k, v in r.items() if k not in ("source",)}
        cases.append({"lit": lit, "input": {"case": inp, "implementation": small if len(lit) < 60000 else {"plan": r.get("plan"), "export": "(omitted: large)"}},
                      "nontrivial": n >= 1 and any(d["preds"] or d["fluents"] for d in dumps),
                      "witness_of": inp.get("witness_of"), "klass": klass})
    phases["implementation"] = round(time.time() - t_, 1)
    t_ = time.time()
    verdicts, info = run_case_shards(PROP, "Corr.C10", lits, shard_size=12, header_extra=HEADER, max_bytes=140_000)
    decide(rep, PROP, "Corr.C10", cases, verdicts, info, explain_expr="explain %s", header_extra=HEADER)
    bad_repr = [h for h, r_ in ff["reprs"].items() if r_[1] != h]
    if bad_repr:
        p = write_replay(PROP, "repr_roundtrip", {"kind": "correspondence", "why": "float(repr(x)) != x", "values": bad_repr})
        rep.violation(p, False)
    phases["coq_cases"] = round(time.time() - t_, 1)
    cov = rep.coverage
    cov["phase_seconds"] = phases
    stats["observe_mutate_observe"] = omo_stats
    cov["input_distribution"] = stats
    cov["hash_seed"] = hashseed
    n_ex = sum(1 for i in inputs if i["kind"].startswith("exhaustive"))
    cov["exhaustive"] = n_ex > 0
    cov["exhaustive_scope"] = ("%d cases: every single-agent plan of length <= %d (and, thorough, every two-agent joint action incl. nop as a one-step plan) "
                               "over the fixed domain's 7 ground calls with 2 objects, from a non-empty and from an empty first state; "
                               "everything else is sampled" % (n_ex, 1 if args.tier == "quick" else 2))
    cov["float_repr_roundtrip_checked_on"] = len(ff["reprs"])
    cov["rule"] = ("(domain, problem, plan) triples: pddlgen worlds (typed domains with and/or/forall/when/numeric effects, 2-4 objects, random first states incl. "
                   "empty ones, values on and off the dyadic grid) and a fixed domain with fluents of arity 0-2 and facts of arity 0-2 (values incl. -0.0, 1e22, "
                   "0.1, inf, subnormal), with and without repeated arguments; plans are random walks of 1-6 steps preferring applicable calls (refused steps "
                   "and allow_invalid_actions occur), single-agent through TrajectoryExporter.parse_plan/export/export_to_file and joint (1-3 agents, nop entries) "
                   "through MultiAgentTrajectoryExporter; the empty plan; the 7 trajectory files shipped under /repo/tests (read, re-exported, re-read).  The file is "
                   "parsed back by the real TrajectoryParser with the problem's objects and with deduced objects.  OBSERVE-MUTATE-OBSERVE: a triplet list (the "
                   "exporter's own, or one made from the components of the Observation parsed from its file) is exported and parsed back, then one of its states is "
                   "changed in place through the public attributes (type-correct fact added / discarded, group deleted, set_value incl. the other zero and one ulp, fluent "
                   "put / deleted, fact and fluent objects re-mapped to other objects, dicts rebuilt) and the SAME list is dumped, exported and parsed back again, 2-4 times; "
                   "every moment is judged as a case of its own.  Non-trivial: at least one step and a non-empty "
                   "state; distinct by input hash.")
    cov["samples"] = [{"kind": c["input"]["case"]["kind"], "plan": c["input"]["implementation"].get("plan"),
                       "export": str(c["input"]["implementation"].get("export"))[:400]} for c in cases[:3]]
    rep.assumptions = ["float(repr(x)) == x re-checked on every value of this run (%d values)" % len(ff["reprs"]),
                       "ASCII names without blanks or parentheses", "the vocabulary (types, constants, predicate and function signatures) of the parsed domain is dumped from the implementation and handed to the model (domain parsing itself is C01's subject)",
                       "joint trajectories are parsed with as many executing agents as the joint actions have members"]
    if args.tier == "thorough" and not args.replay:
        run_coqchk(rep, PROP)
    return rep.finish()
