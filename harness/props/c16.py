"""C16 — a joint action acts like its members applied one after another, in any order."""
import itertools
import json
import random

from ..common import (REPO, Report, cbool, chex, clist, cstr, decide, load_findings, run_case_shards, run_impl,
                      standard_proof_part)
from .. import pddlgen as G
from .. import c16_seq as SEQ
from .c04 import StateTable

PROP = "C16"
CORR = "Corr.C16"
HEADER = "From Coq Require Import PrimFloat.\nFrom Verif Require Import Spec.Pddl Model.Plan.\n"
NOP = ["nop", []]

# joint plans shipped with the repository (tests/multi_agent_tests/consts.py)
FIXTURES = [
    ("woodworking", "combined_domain.pddl", "combined_problem.pddl", "woodworking_plan.solution"),
    ("woodworking-short", "combined_domain.pddl", "combined_problem.pddl", "woodworking_short_plan.solution"),
    ("depots", "Depots.pddl", "pfile1_depot.pddl", "pfile1_depots.solution"),
    ("logistics", "logistics_combined_domain.pddl", "logistics_combined_problem.pddl", "logistics_concurrent_plan.solution"),
    ("satellite", "satellite_numeric_multi_agent/metricSat.pddl", "satellite_numeric_multi_agent/pfile010.pddl",
     "satellite_numeric_multi_agent/pfile010.solution"),
]
FIXTURE_DIR = "tests/multi_agent_tests"


# ------------------------------------------------------------------------------------------------ generation
def member_text(m):
    return "(%s %s)" % (m[0], " ".join(m[1]))


def render_joint(rng, members, style=None):
    style = style or rng.choice(["tight", "tight", "spaced", "loose"])
    sep = {"tight": ",", "spaced": ", ", "loose": " , "}[style]
    body = sep.join(member_text(m) for m in members)
    if style == "loose":
        body = body.replace(" ", "  ", 1)
    return "[" + body + "]" + rng.choice(["\n", "\n", "", " \n"])


def with_nops(rng, members, k):
    out = [list(m) for m in members]
    for _ in range(k):
        out.insert(rng.randint(0, len(out)), list(NOP))
    return out


def family_runs(rng, base, inapplicable, tier):
    """the direct calls made for one family of members"""
    runs = []
    k = len(base)
    perms = list(itertools.permutations(range(k)))
    for p in perms:                                            # every permutation of the members
        runs.append({"members": [base[i] for i in p], "allow": False, "tag": "perm"})
    for pos in range(k + 1):                                   # one nop at every position
        ms = [list(m) for m in base]
        ms.insert(pos, list(NOP))
        runs.append({"members": ms, "allow": False, "tag": "nop-at-%d" % pos})
    for _ in range(2):                                         # a random permutation with several nops
        p = rng.choice(perms)
        runs.append({"members": with_nops(rng, [base[i] for i in p], rng.randint(1, 3)), "allow": rng.random() < 0.3,
                     "tag": "perm+nops"})
    runs.append({"members": [list(m) for m in base], "allow": True, "tag": "allow"})
    return runs


def refusal_runs(rng, base, bad):
    """some member inapplicable: at every position, both allow values"""
    runs = []
    for pos in range(len(base) + 1):
        ms = [list(m) for m in base]
        ms.insert(pos, list(bad))
        for allow in (False, True):
            runs.append({"members": ms, "allow": allow, "tag": "inapplicable-at-%d" % pos})
        if rng.random() < 0.5:
            runs.append({"members": with_nops(rng, ms, 1), "allow": False, "tag": "inapplicable+nop"})
    return runs


MALFORMED = ["upper-action", "unknown-action", "blank-group", "empty-line", "odd-name", "no-brackets"]


def malformed_line(rng, calls, kind):
    m = rng.choice(calls)
    if kind == "upper-action":
        return "[(%s %s),(nop )]\n" % (m[0].upper(), " ".join(m[1]))
    if kind == "unknown-action":
        return "[(zz-unknown %s),(nop )]\n" % " ".join(m[1])
    if kind == "blank-group":
        return "[( ),%s]\n" % member_text(m)
    if kind == "empty-line":
        return "\n"
    if kind == "odd-name":
        return "[(%s.x %s),%s]\n" % (m[0], " ".join(m[1]), member_text(m))
    if kind == "no-brackets":
        return "%s %s\n" % (member_text(m), member_text(list(NOP)))
    raise ValueError(kind)


# ---- a syntactic approximation of Spec.Joint's footprints on the generator's token trees; used ONLY to select
# ---- families that are likely to be non-interfering (the verdicts come from the spec inside Coq)
def _nexp_fluents(n, env, out):
    if isinstance(n, list):
        if n[0] in ("+", "-", "*", "/") and len(n) == 3:
            _nexp_fluents(n[1], env, out)
            _nexp_fluents(n[2], env, out)
        else:
            out.add((n[0], tuple(env.get(a, a) for a in n[1:])))


def _form_reads(f, env, names, ra, rf):
    if not isinstance(f, list) or not f:
        return
    h = f[0]
    if h in ("and", "or"):
        for x in f[1:]:
            _form_reads(x, env, names, ra, rf)
    elif h == "not":
        _form_reads(f[1], env, names, ra, rf)
    elif h == "forall":
        for o in names:
            _form_reads(f[2], dict(env, **{f[1][0]: o}), names, ra, rf)
    elif h in ("<=", ">=", "<", ">") or (h == "=" and (isinstance(f[1], list) or isinstance(f[2], list))):
        _nexp_fluents(f[1], env, rf)
        _nexp_fluents(f[2], env, rf)
    elif h == "=":
        pass
    else:
        ra.add((h, tuple(env.get(a, a) for a in f[1:])))


def _prims(res, env, fp):
    items = res[1:] if res and res[0] == "and" else [res]
    for it in items:
        if it[0] == "not":
            fp["del"].add((it[1][0], tuple(env.get(a, a) for a in it[1][1:])))
        elif it[0] in ("assign", "increase", "decrease"):
            tgt = (it[1][0], tuple(env.get(a, a) for a in it[1][1:]))
            fp["set"].add(tgt)
            if it[0] != "assign":
                fp["rf"].add(tgt)
            _nexp_fluents(it[2], env, fp["rf"])
        else:
            fp["add"].add((it[0], tuple(env.get(a, a) for a in it[1:])))


def footprint(action, args, names):
    env = {p: a for (p, _), a in zip(action["params"], args)}
    fp = {"ra": set(), "rf": set(), "add": set(), "del": set(), "set": set()}
    _form_reads(action["pre"], env, names, fp["ra"], fp["rf"])
    for it in action["eff"][1:]:
        if it[0] == "when":
            _form_reads(it[1], env, names, fp["ra"], fp["rf"])
            _prims(it[2], env, fp)
        elif it[0] == "forall":
            for o in names:
                e2 = dict(env, **{it[1][0]: o})
                _form_reads(it[2][1], e2, names, fp["ra"], fp["rf"])
                _prims(it[2][2], e2, fp)
        else:
            _prims(it, env, fp)
    return fp


def disturbs(a, b):
    return bool((a["add"] | a["del"]) & b["ra"] or a["add"] & b["del"] or a["set"] & (b["rf"] | b["set"]))


def likely_independent(fps):
    return all(not disturbs(x, y) and not disturbs(y, x) for i, x in enumerate(fps) for y in fps[i + 1:])


def pick_independent(rng, pool, fp_of, k):
    """greedy: a random order of the pool, keep a call when it does not (syntactically) interfere with those kept"""
    order = list(pool)
    rng.shuffle(order)
    kept = []
    for c in order:
        if len(kept) == k:
            break
        if likely_independent([fp_of(x) for x in kept] + [fp_of(c)]) and (c not in kept or likely_independent([fp_of(c), fp_of(c)])):
            kept.append(c)
    return kept


def gen_worlds(rng, n):
    worlds = []
    tries = 0
    while len(worlds) < n and tries < 4 * n:
        tries += 1
        w = G.gen_world(rng, max_actions=4)
        objs = G.gen_objects(rng, w, n=rng.randint(3, 5))
        calls = []
        for a in w.actions:
            for args in G.calls_for(rng, w, objs, a, limit=30):
                calls.append([a["name"], list(args)])
        if len(calls) < 2:
            continue
        st = G.gen_state(rng, w, objs)
        names = [o for o, _ in objs] + [c for c, _ in w.consts]
        acts = {a["name"]: a for a in w.actions}
        fps = {json.dumps(c): footprint(acts[c[0]], c[1], names) for c in calls}
        worlds.append({"fps": fps, "domain_text": G.render(w.domain_tree("dom"), rng, True),
                       "problem_text": G.problem_text(w, objs, st, domain="dom"),
                       "objects": [list(o) for o in objs], "init": st, "calls": calls, "features": sorted(w.features)})
    return worlds


def build_cases(rng, worlds, probes, tier):
    cases = []
    for wd, pr in zip(worlds, probes):
        app = pr.get("applicable")
        if app is None:
            continue
        good = [c for c, a in zip(wd["calls"], app) if a is True]
        bad = [c for c, a in zip(wd["calls"], app) if a is False]
        base_of = {k: v for k, v in wd.items() if k not in ("calls", "fps")}
        fp_of = lambda c: wd["fps"][json.dumps(c)]
        n_fam = 2 if tier == "quick" else 3
        for _ in range(n_fam):
            k = rng.choice([1, 2, 2, 3, 3, 4, 4])
            pool = good if (len(good) >= k and rng.random() < 0.85) else wd["calls"]
            if len(pool) < k:
                k = len(pool)
            r = rng.random()
            if r < 0.6:
                base = pick_independent(rng, pool, fp_of, k)     # likely non-interfering (judged by the spec in Coq)
                if not base:
                    base = rng.sample(pool, k)
            elif r < 0.9:
                base = rng.sample(pool, k)
            else:
                base = [rng.choice(pool) for _ in range(k)]      # a member may occur twice
            runs = family_runs(rng, base, bad, tier)
            # a joint plan for the exporter: the family's joint action (with nops) first, then random joint actions
            lines = [render_joint(rng, with_nops(rng, base, rng.randint(0, 2)))]
            if rng.random() < 0.12:                                    # nobody acts in the first step
                lines.insert(0, render_joint(rng, [list(NOP) for _ in range(rng.randint(1, 3))]))
            for _ in range(rng.choice([0, 1, 1, 2])):
                kk = rng.randint(0, 3)
                nxt = pick_independent(rng, good or wd["calls"], fp_of, kk) if rng.random() < 0.7 else \
                    [rng.choice(good or wd["calls"]) for _ in range(kk)]
                lines.append(render_joint(rng, with_nops(rng, nxt, rng.randint(0, 2))))
            cases.append(dict(base_of, kind="family-%d" % len(base), base=base, runs=runs, lines=lines,
                              allow=rng.random() < 0.15, exporter_allow=rng.random() < 0.15, strict=True))
        if bad and good:
            k = rng.choice([0, 1, 2, 3])
            base = rng.sample(good, min(k, len(good)))
            b = rng.choice(bad)
            runs = refusal_runs(rng, base, b)
            ms = [list(m) for m in base]
            ms.insert(rng.randint(0, len(ms)), list(b))
            lines = [render_joint(rng, with_nops(rng, [rng.choice(good)], 1)), render_joint(rng, with_nops(rng, ms, 1))]
            if rng.random() < 0.5:
                lines = lines[1:]
            cases.append(dict(base_of, kind="refusal-%d" % (len(base) + 1), base=ms, runs=runs, lines=lines,
                              allow=rng.random() < 0.3, exporter_allow=rng.random() < 0.3, strict=True))
        # enabling pairs: an inapplicable member whose reads are written by an applicable one placed before / after it.
        # Refusal is decided in the state the joint action is applied in, so both orders must be refused.
        pairs = [(g, b) for g in good for b in bad
                 if (fp_of(g)["add"] | fp_of(g)["del"]) & fp_of(b)["ra"] or fp_of(g)["set"] & fp_of(b)["rf"]]
        rng.shuffle(pairs)
        for g, b in pairs[:2]:
            runs = [{"members": [g, b], "allow": False, "tag": "enabler-before"},
                    {"members": [b, g], "allow": False, "tag": "enabler-after"},
                    {"members": [g, list(NOP), b], "allow": False, "tag": "enabler-before"},
                    {"members": [g, b], "allow": True, "tag": "enabler-allowed"}]
            cases.append(dict(base_of, kind="refusal-enabler", base=[g, b], runs=runs,
                              lines=[render_joint(rng, with_nops(rng, [g, b], 1))], allow=False, exporter_allow=False,
                              strict=True))
        if rng.random() < 0.5:
            kind = rng.choice(MALFORMED)
            lines = [render_joint(rng, with_nops(rng, [rng.choice(wd["calls"])], 1)) for _ in range(rng.randint(0, 1))]
            lines.insert(rng.randint(0, len(lines)), malformed_line(rng, wd["calls"], kind))
            cases.append(dict(base_of, kind="malformed:" + kind, base=[], runs=[], lines=lines, allow=False,
                              exporter_allow=False, strict=False))
    return cases


def build_sequences(rng, n):
    """process-level sequences (harness/c16_seq.py): worlds with several problems, probed, then the call sequences"""
    sworlds = SEQ.gen_seq_worlds(rng, n, footprint)
    jobs, owner = [], []
    for i, sw in enumerate(sworlds):
        for c in sw["contexts"]:
            jobs.append({"op": "c16.probe", "domain_text": sw["domains"][c["domain"]], "problem_text": c["problem_text"],
                         "calls": sw["calls"]})
            owner.append(i)
    probes = run_impl(jobs)
    out = []
    for i, sw in enumerate(sworlds):
        q = SEQ.build_sequence(rng, sw, [p for p, o in zip(probes, owner) if o == i], (render_joint, with_nops, pick_independent))
        if q and q["steps"]:
            out.append(q)
    return out


def fixture_cases(tier):
    out = []
    for name, dom, prob, plan in FIXTURES:
        out.append({"kind": "fixture:" + name, "domain_path": str(REPO / FIXTURE_DIR / dom),
                    "problem_path": str(REPO / FIXTURE_DIR / prob), "plan_path": str(REPO / FIXTURE_DIR / plan),
                    "max_lines": {"quick": 4, "thorough": 0}[tier], "base": [], "runs": [], "allow": False,
                    "exporter_allow": False, "strict": True, "features": ["fixture"]})
    return out


def corpus_cases():
    out = []
    for f in load_findings(PROP):
        w = f.get("witness")
        if w and "domain_text" in w and ("runs" in w or "lines" in w):
            c = dict(w, kind="corpus:" + f["id"], features=["corpus"], witness_of=f["id"] if f.get("status") == "open" else None)
            c.setdefault("base", [])
            c.setdefault("runs", [])
            c.setdefault("lines", [])
            c.setdefault("allow", False)
            c.setdefault("exporter_allow", False)
            c.setdefault("strict", True)
            out.append(c)
    return out


# ------------------------------------------------------------------------------------------------ literals
def job_of(c):
    j = {"op": "c16.joint", "allow": c["allow"], "exporter_allow": c["exporter_allow"],
         "runs": [{"members": r["members"], "allow": r["allow"]} for r in c["runs"]]}
    for k in ("domain_text", "problem_text", "lines", "domain_path", "problem_path", "plan_path", "max_lines"):
        if k in c:
            j[k] = c[k]
    return j


def ccall(m):
    return "(%s, %s)" % (cstr(m[0]), clist([cstr(a) for a in m[1]]))


def case_literal(c, res, eps_hex):
    dtext = c.get("domain_text") or open(c["domain_path"]).read()
    nums = clist(["(%s, %s)" % (cstr(k), chex(float.fromhex(v))) for k, v in sorted(res["nums"].items())])
    objs = res.get("objects") if "domain_path" in c else c["objects"]
    init = res.get("init") if "domain_path" in c else c["init"]
    if objs is None or init is None or "runs" not in res:
        return None
    init = {"facts": [[p, list(a)] for p, a in init["facts"]], "fluents": [[f, list(a), v] for f, a, v in init["fluents"]]}
    states = [init] + [r["value"] for r in res["runs"] if "value" in r]
    for st in res.get("steps") or []:
        states += [st["pre"], st["post"]]
    tab = StateTable(states)
    init_ref = tab.ref(init)
    runs = []
    for r, o in zip(c["runs"], res["runs"]):
        ob = "(JRet %s)" % tab.mstate(o["value"]) if "value" in o else ("JRefused" if "refused" in o else "JRaised")
        runs.append("{| r_members := %s; r_allow := %s; r_obs := %s; r_intact := %s |}" % (
            clist([ccall(m) for m in r["members"]]), cbool(r["allow"]), ob, cbool(o.get("intact", True))))
    if "steps" in res:
        trace = "(Returned %s)" % clist([
            "{| js_pre := %s; js_ops := %s; js_post := %s |}" % (tab.mstate(s["pre"]), clist([cstr(o) for o in s["ops"]]), tab.mstate(s["post"]))
            for s in res["steps"]])
    else:
        trace = "Raised"
    export = "(Returned %s)" % cstr(res["export"]) if "export" in res else "Raised"
    lines = res.get("lines", c.get("lines", []))
    return ("(%s{| j_text := %s; j_nums := %s; j_eps := %s; j_objs := %s; j_state := %s; j_base := %s; j_runs := %s; "
            "j_plan := %s; j_allow := %s; j_exporter_allow := %s; j_strict := %s; j_trace := %s; j_export := %s; j_intact := %s |})") % (
        "".join(tab.defs), cstr(dtext), nums, chex(float.fromhex(eps_hex)),
        clist(["(%s, %s)" % (cstr(n), cstr(t)) for n, t in objs]), init_ref, clist([ccall(m) for m in c["base"]]),
        clist(runs), clist([cstr(l) for l in lines]), cbool(c["allow"]), cbool(c["exporter_allow"]), cbool(c["strict"]),
        trace, export, cbool(res.get("plan_intact", True)))


CLASS_NAMES = {"n": "non_interfering_all_applicable(judged)", "r": "refusal(judged)", "i": "interfering(not judged)",
               "f": "inapplicable_but_allowed(not judged)", "c": "inconsistent_effects(skipped)", "x": "unreadable(not judged)",
               "m": "malformed_plan(model only)"}


def lex_part(rep, args, rng):
    """the joint-action reader alone, exhaustively on a small scope: EVERY text of length <= N over
    { ( ) a blank , - ? . [ } plus random longer ones; model (one-pass scanner for the regular expression) vs re.finditer"""
    import itertools
    from ..common import write_replay
    alphabet = ["(", ")", "a", " ", ",", "-", "?", ".", "["]
    maxlen = {"quick": 3, "thorough": 4}[args.tier]
    texts = ["".join(t) for n in range(maxlen + 1) for t in itertools.product(alphabet, repeat=n)]
    n_exh = len(texts)
    for _ in range({"quick": 300, "thorough": 3000}[args.tier]):
        texts.append("".join(rng.choice(alphabet + ["(", ")", "nop", "b1", "+", "_", "\t", "]", "X"]) for _ in range(rng.randint(maxlen + 1, 14))))
    chunks = [texts[i:i + 400] for i in range(0, len(texts), 400)]
    res = [r for out in run_impl([{"op": "c16.lex", "texts": ch} for ch in chunks]) for r in out]
    lits = []
    for t, r in zip(texts, res):
        ob = "(Returned %s)" % clist([ccall(m) for m in r["members"]]) if "members" in r else "Raised"
        lits.append("{| y_text := %s; y_obs := %s |}" % (cstr(t), ob))
    verdicts, info = run_case_shards(PROP + "/lex", CORR, lits, shard_size=2500, run_fn="Corr.C16.run_jlex", max_bytes=100_000)
    cov = rep.coverage
    cov["obligations"] = cov.get("obligations", 0) + info["shards"]
    cov["discharged"] = cov.get("discharged", 0) + info["shards"] - len(info["shard_errors"])
    bad = [i for i, ch in enumerate(verdicts) if ch != "."]
    cov["lexical_scope"] = {"alphabet": alphabet, "max_length_exhaustive": maxlen, "texts_exhaustive": n_exh,
                            "texts_random_longer": len(texts) - n_exh, "returned": sum(1 for r in res if "members" in r),
                            "with_members": sum(1 for r in res if r.get("members")),
                            "raised": sum(1 for r in res if "raised" in r), "disagreements": len(bad), "shards": info["shards"]}
    cov["evaluations"] = cov.get("evaluations", 0) + len(texts)
    cov["traces_validated_against_impl"] = cov.get("traces_validated_against_impl", 0) + len(texts) - len(bad)
    for i in bad[:3]:
        rep.violation(write_replay(PROP, "lex_%05d" % i, {"kind": "correspondence", "why": "joint-action reader: implementation "
                      "differs from the model's scanner on this text (text layer only; no spec judgement)",
                      "input": {"text": texts[i]}, "implementation": res[i], "verdict": verdicts[i]}), False)


def run(args):
    rep = Report(PROP, args.tier, args.seed)
    standard_proof_part(rep, PROP)
    rng = random.Random(args.seed * 7919 + 16)
    cfg = run_impl([{"op": "core.numeric_config"}], nproc=1)[0]
    seqs = []
    if args.replay:
        data = json.load(open(args.replay))
        if "sequence" in data["input"]:
            cases, seqs = [], [data["input"]["sequence"]]
        else:
            cases = [data["input"]["case"]]
    else:
        worlds = gen_worlds(rng, {"quick": 44, "thorough": 180}[args.tier])
        probes = run_impl([{"op": "c16.probe", "domain_text": w["domain_text"], "problem_text": w["problem_text"],
                            "calls": w["calls"]} for w in worlds])
        cases = corpus_cases() + fixture_cases(args.tier) + build_cases(rng, worlds, probes, args.tier)
        seqs = build_sequences(rng, {"quick": 26, "thorough": 60}[args.tier])
    hashseeds = [0] if args.tier == "quick" else [0, 1]
    all_cases, all_verdicts, seq_units = [], "", []
    info_total = {"shards": 0, "shard_errors": [], "cmd": ""}
    dist = {"cases": 0, "by_kind": {}, "direct_runs": 0, "run_tags": {}, "run_classes": {}, "plan_classes": {},
            "members_per_run": {}, "nops_per_run": {}, "family_sizes_judged_all_permutations": {}, "allow": {"false": 0, "true": 0},
            "direct_returned": 0, "direct_refused": 0, "direct_other_error": 0, "plan_lines": {}, "plans_raised": 0,
            "regex_as_modelled": None, "features": {}, "not_intact": 0,
            "sequences": {"jobs": 0, "steps": 0, "steps_by_kind": {}, "step_tags": {}, "step_classes": {}, "blocks": {},
                          "problems_per_domain_object": {}, "with_second_domain_same_name": 0, "steps_per_job": {},
                          "refused_steps": 0, "judged_steps_after_a_refusal": 0, "judged_steps_after_an_allowed_plan": 0,
                          "plans_via_rewritten_file": 0, "steps_on_a_returned_state_object": 0}}
    for hs in hashseeds:
        results = run_impl([job_of(c) for c in cases], hashseed=hs)
        # every sequence is ONE job in a worker process of its own (the order of the calls is the input)
        seq_results = []
        for i in range(0, len(seqs), 16):
            chunk = seqs[i:i + 16]
            seq_results += run_impl([SEQ.job_of(q) for q in chunk], hashseed=hs, nproc=len(chunk))
        lits, kept, units = [], [], []
        for c, res in zip(cases, results):
            if "raised" in res and "nums" not in res:
                res = {"nums": {}}
            lit = case_literal(c, res, cfg["epsilon"]) if "vocab" in res and "problem_raised" not in res else None
            if hs == hashseeds[0]:
                dist["cases"] += 1
                dist["by_kind"][c["kind"]] = dist["by_kind"].get(c["kind"], 0) + 1
                if res.get("regex_expected") is not None:
                    dist["regex_as_modelled"] = bool(res["regex_expected"]) and dist["regex_as_modelled"] is not False
            if lit is None:
                continue
            lits.append("(true, %s)" % lit)
            kept.append((c, res, True, None))
            units.append(2 * (len(c["runs"]) + 1))
        for q, qres in zip(seqs, seq_results):
            sd = dist["sequences"]
            if hs == hashseeds[0]:
                sd["jobs"] += 1
                if qres.get("regex_expected") is not None:
                    dist["regex_as_modelled"] = bool(qres["regex_expected"]) and dist["regex_as_modelled"] is not False
                if "steps_out" not in qres:
                    sd["jobs_failed"] = sd.get("jobs_failed", 0) + 1
                    sd.setdefault("failures", []).append(str(qres)[:200])
                for b in q.get("blocks", []):
                    sd["blocks"][b] = sd["blocks"].get(b, 0) + 1
                npd = str(len([p for p in q["problems"] if p["domain"] == 0]))
                sd["problems_per_domain_object"][npd] = sd["problems_per_domain_object"].get(npd, 0) + 1
                sd["with_second_domain_same_name"] += 1 if len(q["domains"]) > 1 else 0
                sd["steps_per_job"][str(len(q["steps"]))] = sd["steps_per_job"].get(str(len(q["steps"])), 0) + 1
            for c, res, with_plan, step in SEQ.expand(q, qres):
                lit = case_literal(c, res, cfg["epsilon"])
                if lit is None:
                    continue
                lits.append("(%s, %s)" % (cbool(with_plan), lit))
                kept.append((c, res, with_plan, (q, step, qres["steps_out"][step])))
                units.append(2 * (len(c["runs"]) + (1 if with_plan else 0)))
        both, info = run_case_shards(PROP, CORR, lits, shard_size=10, header_extra=HEADER, max_bytes=110_000,
                                     run_fn="Corr.C16.run2_sel", units=units)
        info_total["shards"] += info["shards"]
        info_total["shard_errors"] += info["shard_errors"]
        info_total["cmd"] = info["cmd"]
        pos = 0
        seq_hist = {}
        for (c, res, with_plan, seq), u in zip(kept, units):
            chunk = both[pos:pos + u]
            pos += u
            verd, klass = chunk[0::2], chunk[1::2]
            lit = case_literal(c, res, cfg["epsilon"])
            if seq is not None:
                q, step, o = seq
                st = q["steps"][step]
                k = klass[0]
                hist = seq_hist.setdefault(id(q), {"refused": False, "allowed": False})
                inp = {"sequence": q, "step": step, "unit": "plan" if with_plan else "run", "hashseed": hs, "class": k,
                       "the_step": st, "implementation": o}
                seq_units.append(({"lit": lit, "input": inp, "nontrivial": step >= 1 and k in "nr", "witness_of": None}, verd[0]))
                if hs == hashseeds[0]:
                    sd = dist["sequences"]
                    sd["steps"] += 1
                    sd["steps_by_kind"][st["kind"]] = sd["steps_by_kind"].get(st["kind"], 0) + 1
                    sd["step_tags"][st.get("tag", "?")] = sd["step_tags"].get(st.get("tag", "?"), 0) + 1
                    sd["step_classes"][CLASS_NAMES.get(k, k)] = sd["step_classes"].get(CLASS_NAMES.get(k, k), 0) + 1
                    if k == "x" and len(sd.setdefault("unreadable_samples", [])) < 3:
                        sd["unreadable_samples"].append({kk: st.get(kk) for kk in ("kind", "members", "lines", "line", "tag")})
                    sd["plans_via_rewritten_file"] += 1 if st.get("via") == "file" else 0
                    sd["steps_on_a_returned_state_object"] += 1 if st.get("state", "init") != "init" else 0
                    sd["judged_steps_after_a_refusal"] += 1 if hist["refused"] and k in "nr" else 0
                    sd["judged_steps_after_an_allowed_plan"] += 1 if hist["allowed"] and k in "nr" else 0
                    refused = "refused" in o.get("run", {}) or o.get("trace_raised", {}).get("raised") == "ValueError"
                    sd["refused_steps"] += 1 if refused else 0
                    dist["not_intact"] += 0 if o.get("run", o).get("intact", True) else 1
                    hist["refused"] = hist["refused"] or refused
                    hist["allowed"] = hist["allowed"] or (st["kind"] != "apply" and bool(st["allow"]))
                continue
            base_case = {k: v for k, v in c.items() if k not in ("witness_of", "runs", "calls")}
            for i, r in enumerate(c["runs"]):
                inp = {"case": dict(base_case, runs=[r], lines=[]), "unit": "run", "hashseed": hs, "class": klass[i],
                       "implementation": res["runs"][i]}
                nontriv = len([m for m in r["members"] if m[0] != "nop"]) >= 2 and klass[i] in "nr"
                all_cases.append({"lit": lit, "input": inp, "nontrivial": nontriv, "witness_of": c.get("witness_of")})
                all_verdicts += verd[i]
            inp = {"case": dict(base_case, runs=[]), "unit": "plan", "hashseed": hs, "class": klass[-1],
                   "implementation": {k: res.get(k) for k in ("steps", "trace_raised", "export", "export_raised", "plan_intact")}}
            all_cases.append({"lit": lit, "input": inp, "nontrivial": len(res.get("lines", [])) >= 1 and klass[-1] in "nrm",
                              "witness_of": c.get("witness_of")})
            all_verdicts += verd[-1]
            if hs == hashseeds[0]:
                for f in c.get("features", []):
                    dist["features"][f] = dist["features"].get(f, 0) + 1
                perm_ok = 0
                dist["not_intact"] += 0 if res.get("plan_intact", True) else 1
                for r, o, k in zip(c["runs"], res["runs"], klass):
                    dist["direct_runs"] += 1
                    dist["not_intact"] += 0 if o.get("intact", True) else 1
                    dist["run_tags"][r.get("tag", "?").split("-at-")[0]] = dist["run_tags"].get(r.get("tag", "?").split("-at-")[0], 0) + 1
                    dist["run_classes"][CLASS_NAMES.get(k, k)] = dist["run_classes"].get(CLASS_NAMES.get(k, k), 0) + 1
                    nm = len([m for m in r["members"] if m[0] != "nop"])
                    dist["members_per_run"][str(nm)] = dist["members_per_run"].get(str(nm), 0) + 1
                    nn = len(r["members"]) - nm
                    dist["nops_per_run"][str(nn)] = dist["nops_per_run"].get(str(nn), 0) + 1
                    dist["allow"]["true" if r["allow"] else "false"] += 1
                    dist["direct_returned" if "value" in o else "direct_refused" if "refused" in o else "direct_other_error"] += 1
                    if r.get("tag") == "perm" and k == "n":
                        perm_ok += 1
                if c["kind"].startswith("family") and perm_ok and perm_ok == len([r for r in c["runs"] if r.get("tag") == "perm"]):
                    key = str(len(c["base"]))
                    dist["family_sizes_judged_all_permutations"][key] = dist["family_sizes_judged_all_permutations"].get(key, 0) + 1
                if c["kind"].startswith("fixture"):
                    dist.setdefault("fixture_plan_classes", {})[c["kind"]] = CLASS_NAMES.get(klass[-1], klass[-1])
                dist["plan_classes"][CLASS_NAMES.get(klass[-1], klass[-1])] = dist["plan_classes"].get(CLASS_NAMES.get(klass[-1], klass[-1]), 0) + 1
                n = len(res.get("lines", []))
                dist["plan_lines"][str(n)] = dist["plan_lines"].get(str(n), 0) + 1
                dist["plans_raised"] += 1 if "trace_raised" in res else 0
    # sequence steps first: their replays re-run the whole job in a process of its own, so they reproduce whatever an
    # earlier call left behind (a plain case shares its worker process with other cases of the run)
    all_cases = [u for u, _ in seq_units] + all_cases
    all_verdicts = "".join(v for _, v in seq_units) + all_verdicts
    decide(rep, PROP, CORR, all_cases, all_verdicts, info_total, explain_expr="Corr.C16.explain %s", header_extra=HEADER,
           max_replays=5)
    if not args.replay:
        lex_part(rep, args, rng)
    cov = rep.coverage
    if dist["regex_as_modelled"] is False:
        from ..common import write_replay
        rep.violation(write_replay(PROP, "regex_changed", {"kind": "correspondence", "what": "JOINT_ACTION_REGEX is not the pattern Model/Joint.v scans for"}), False)
    cov["input_distribution"] = dist
    cov["hash_seeds"] = hashseeds
    cov["numeric_config"] = cfg
    cov["exhaustive"] = False
    cov["rule"] = (
        "generated typed domains with up to 4 actions (pddlgen, as C02/C03) over 3-5 objects and a random initial state; the implementation "
        "is first asked which type-correct calls are applicable there (input selection only). A family = 1-4 members drawn mostly from the "
        "applicable calls; its direct apply_actions runs: EVERY permutation of the members, one nop at every position, random permutations "
        "with 1-3 nops, and allow=True; a refusal family puts one inapplicable member at every position with both allow values. Every run is "
        "classified by the spec's own tests (all applicable, pairwise non-interfering, effects consistent): judged against the sequential "
        "composition in the family's BASE order when non-interfering (so all permutations must give one state), against 'ValueError' when a "
        "member is inapplicable and not allowed; interfering / forced runs are only compared with the model. Each family also yields a joint "
        "plan (1-3 lines, tight / spaced / loose separators, nops) run through MultiAgentTrajectoryExporter.parse_plan and export (text read "
        "back inside Coq), with the two allow switches; malformed lines (upper-case action, unknown action, blank group, empty line, no "
        "brackets); and the 5 joint plans shipped under tests/multi_agent_tests. Around every direct call the driver also observes that the "
        "state object passed in serializes as before (flag, facts, fluents) and that the answer is another object (r_intact / j_intact). "
        "PROCESS-LEVEL SEQUENCES (harness/c16_seq.py, op c16.sequence): one worker process per sequence, 8-22 calls on REUSED objects - "
        "one Domain object with 2-3 problems whose object sets differ (extra objects of quantified types; the same call texts in all), "
        "sometimes a second Domain parsed from a text with the same name and one effect literal flipped; exporter instances used for "
        "several plans with the per-call allow flag changing (F,T,F / T,F / ..., another exporter instance in between); refused joint "
        "actions followed by calls on the same state object and exporter; returned state objects handed to later calls twice; one "
        "plan-file path rewritten; idle joint actions alone / first in a plan / on the shared initial-state object. Each step is judged "
        "as a case of its own with the model and the spec evaluated on THAT call's inputs. Non-trivial: a judged run with >= 2 real "
        "members, a judged / malformed plan with >= 1 line, or a judged sequence step that is not the first; distinct by input hash.")
    def sample(c):
        i = c["input"]
        if "sequence" in i:
            return {"kind": "sequence", "step": i["step"], "of": len(i["sequence"]["steps"]), "the_step": i["the_step"],
                    "class": i["class"], "blocks": i["sequence"].get("blocks")}
        return {"kind": i["case"]["kind"], "unit": i["unit"], "class": i["class"], "runs": i["case"].get("runs"),
                "lines": i["case"].get("lines")}
    plain = [c for c in all_cases if "case" in c["input"]]
    seqc = [c for c in all_cases if "sequence" in c["input"]]
    cov["samples"] = [sample(c) for c in plain[:1] + plain[len(plain) // 2:len(plain) // 2 + 2] + plain[-1:] +
                      seqc[len(seqc) // 2:len(seqc) // 2 + 2]]
    rep.assumptions = ["ASCII text; joint plan lines in lower case (the joint reader does not fold case)",
                       "initial state and object table come from the library's ProblemParser (C05)",
                       "every member's simultaneous effects are consistent along the sequential run (else skipped by the spec's own test)",
                       "the model describes /repo after the proposed repairs D63-D66 (object table passed to joint execution, nop-only joint "
                       "actions, exporter flag, is_init of the returned state)"]
    return rep.finish()
