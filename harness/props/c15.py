"""C15 — sequential -> joint plan conversion keeps actions, agent order and outcome."""
import json
import random
import shutil

from ..common import (COQ, REPO, WORK, Report, coqc, cbool, chex, clist, cstr, decide, load_findings, run_case_shards, run_impl,
                      standard_proof_part, write_replay)
from ..core_common import catom, cstate
from .. import pddlgen as G

PROP = "C15"
HEADER_IMPORT = "From Coq Require Import PrimFloat.\nFrom Verif Require Import Spec.Pddl Spec.JointPlan.\n"
TESTS = "tests/multi_agent_tests/"
FINDING_OF_CLASS = {"a": "D25", "e": "D71", "p": "D70"}

# ---------------------------------------------------------------- generated multi-agent domains
DYADIC = [0.0, 0.5, 1.0, 2.0, 3.0, 4.0]
NUMERALS = ["0", "1", "2", "3", "0.5", "1.5"]


def gen_world(rng, numeric, n_agents, with_when=False, dense=False, deep=False):
    """a small typed multi-agent domain: the first parameter of every action is its agent.
    dense: one item, few predicates, the global fluent g always present, hardly any precondition — neighbouring
    actions of different agents are then often both applicable and often interfere
    deep: numeric expressions (assigned values, comparison operands of preconditions and of when-conditions) are
    trees of depth 2-3 most of the time; conditional effects may have a numeric comparison as (part of) their condition.
    With deep=False the random stream is consumed exactly as before the class was added."""
    w = G.World()
    w.types = {"agent": "object", "item": "object"}
    w.type_lines = [(["agent", "item"], "object")]
    bot = rng.random() < 0.3
    if bot:
        w.types["bot"] = "agent"
        w.type_lines = [(["bot"], "agent"), (["agent", "item"], "object")]
        rng.shuffle(w.type_lines)
    agents = [("a%d" % i, "bot" if bot and rng.random() < 0.5 else "agent") for i in range(1, n_agents + 1)]
    items = [("i%d" % i, "item") for i in range(1, (1 if dense else rng.randint(1, 3)) + 1)]
    if rng.random() < 0.2 and not dense:
        w.consts.append(("c0", "item"))
    for i in range(1 if dense else rng.randint(1, 2)):
        w.preds.append(("z%d" % i, []))
    for i in range(1 if dense else rng.randint(1, 2)):
        w.preds.append(("p%d" % i, [("?x", "item")]))
    if rng.random() < 0.6 and not dense:
        w.preds.append(("h0", [("?a", "agent")]))
    if rng.random() < 0.5 and not dense:
        w.preds.append(("at0", [("?a", "agent"), ("?x", "item")]))
    if numeric and dense:
        w.funcs = [("g", []), ("f", [("?a", "agent")])] + ([("v", [("?x", "item")])] if rng.random() < 0.4 else [])
    elif numeric:
        pool = [("g", []), ("f", [("?a", "agent")]), ("v", [("?x", "item")])]
        rng.shuffle(pool)
        w.funcs = pool[:rng.randint(1, 3)]
    if numeric and deep and rng.random() < 0.75:
        # a second global fluent: a nested value can then read one global that a neighbour assigns without the two
        # actions clashing on everything else
        w.funcs = w.funcs + [("h", [])]
    for k in range(rng.randint(3, 5)):
        extra = rng.choice([[], [("?x", "item")], [("?x", "item")], [("?x", "item"), ("?y", "item")], [("?b", "agent")],
                            [("?x", "item"), ("?b", "agent")]])
        params = [("?a", "agent")] + extra
        w.actions.append({"name": "act%d" % k, "params": params, "group": False,
                          "pre": gen_pre(rng, w, params, dense, deep), "eff": gen_eff(rng, w, params, with_when, deep)})
    if numeric:
        w.features.add("numeric")
    if deep:
        w.features.add("deep")
    if with_when:
        w.features.add("when")
    if dense:
        w.features.add("dense")
    return w, agents, items


def atoms_over(w, scope):
    out = []
    for n, ps in w.preds:
        pools = [[v for v, t in scope if w.is_sub(t, pt)] + [c for c, t in w.consts if w.is_sub(t, pt)] for _, pt in ps]
        if all(pools):
            import itertools
            for combo in itertools.product(*pools):
                if len(set(combo)) == len(combo):
                    out.append([n] + list(combo))
    return out


def fluents_over(w, scope):
    out = []
    for n, ps in w.funcs:
        pools = [[v for v, t in scope if w.is_sub(t, pt)] for _, pt in ps]
        if all(pools):
            import itertools
            for combo in itertools.product(*pools):
                if len(set(combo)) == len(combo):
                    out.append([n] + list(combo))
    return out


def gen_tree(rng, fl, depth):
    """an expression tree of exactly this depth (operators on the longest path); leaves: fluents and numerals"""
    if depth == 0:
        return rng.choice(fl) if rng.random() < 0.65 else rng.choice(NUMERALS)
    op = rng.choice(["+", "*", "-", "+"])
    a = gen_tree(rng, fl, depth - 1)
    # a product has a numeral as one factor: values stay far from overflow along a walk
    b = rng.choice(NUMERALS) if op == "*" else gen_tree(rng, fl, rng.randint(0, depth - 1))
    return [op] + ([a, b] if rng.random() < 0.5 else [b, a])


def gen_nexp(rng, w, scope, deep=False):
    fl = fluents_over(w, scope)
    if deep and fl and rng.random() < 0.75:
        return gen_tree(rng, fl, rng.choice([2, 2, 3]))
    r = rng.random()
    if fl and r < 0.4:
        return rng.choice(fl)
    if fl and r < 0.65:
        return [rng.choice(["+", "*", "-"]), rng.choice(fl), rng.choice(NUMERALS)]
    return rng.choice(NUMERALS)


def gen_pre(rng, w, params, dense=False, deep=False):
    items = []
    atoms = atoms_over(w, params)
    if dense and rng.random() < 0.6:
        return ["and"]
    for _ in range(rng.choice([0, 1, 1, 2])):
        if atoms:
            a = rng.choice(atoms)
            items.append(a if rng.random() < 0.7 else ["not", a])
    fl = fluents_over(w, params)
    if fl and rng.random() < 0.5:
        items.append([rng.choice([">=", "<=", ">", "<", ">="]), rng.choice(fl), gen_nexp(rng, w, params, deep)])
    return ["and"] + items


def gen_prims(rng, w, params, n, touched, written, deep=False):
    atoms = atoms_over(w, params)
    fl = fluents_over(w, params)
    prims = []
    for _ in range(n):
        if fl and rng.random() < 0.45:
            f = rng.choice(fl)
            if tuple(f) in written:
                continue
            written.add(tuple(f))
            prims.append([rng.choice(["assign", "increase", "decrease"]), f, gen_nexp(rng, w, params, deep)])
        elif atoms:
            a = rng.choice(atoms)
            if tuple(a) in touched:
                continue
            touched.add(tuple(a))
            prims.append(a if rng.random() < 0.55 else ["not", a])
    return prims


def gen_cmp(rng, w, params, deep):
    """a numeric comparison; either side may be the nested one"""
    fl = fluents_over(w, params)
    a, b = (rng.choice(fl) if rng.random() < 0.7 else rng.choice(NUMERALS)), gen_nexp(rng, w, params, deep)
    return [rng.choice([">=", "<=", ">", "<", ">="])] + ([a, b] if rng.random() < 0.6 else [b, a])


def gen_eff(rng, w, params, with_when, deep=False):
    touched, written = set(), set()
    prims = gen_prims(rng, w, params, rng.randint(1, 3), touched, written, deep)
    if not prims:
        prims = gen_prims(rng, w, params, 3, touched, written, deep)
    items = list(prims)
    if with_when and rng.random() < (0.7 if deep else 0.5):
        atoms = atoms_over(w, params)
        if atoms:
            c = rng.choice(atoms)
            cond = c if rng.random() < 0.6 else ["not", c]
            if deep and fluents_over(w, params):
                # a numeric when-condition (alone, or next to a literal)
                r = rng.random()
                if r < 0.5:
                    cond = gen_cmp(rng, w, params, deep)
                elif r < 0.8:
                    cond = ["and", cond, gen_cmp(rng, w, params, deep)]
            res = gen_prims(rng, w, params, rng.randint(1, 2), touched, written, deep)
            if res:
                items.append(["when", cond, res[0] if len(res) == 1 else ["and"] + res])
    return ["and"] + items


def render_plan(rng, plan, style):
    """the text of a plan file in one of several layouts"""
    lines = []
    for i, st in enumerate(plan):
        body = " ".join(st)
        if style == "shipped":                    # "0 : (drive d t a b)"
            lines.append("%d : (%s)" % (i, body))
        elif style == "bare":                     # "(switch_on i s)"
            lines.append("(%s)" % body)
        elif style == "colon":                    # "1: (unstack a1 a b)"
            lines.append("%d: (%s)" % (i + 1, body))
        elif style == "upper":
            lines.append("%d : (%s)" % (i, body.upper()))
        elif style == "spaced":
            lines.append("%d :  (  %s\t)  " % (i, "  ".join(st)))
        else:                                     # several steps on a line, time stamps
            lines.append("%.3f: (%s) [1.000]" % (i * 1.001, body))
    sep = "\n"
    if style == "oneline":
        sep = " "
    text = sep.join(lines)
    if rng.random() < 0.7:
        text += "\n"
    return text


STYLES = ["shipped", "shipped", "shipped", "bare", "colon", "upper", "spaced", "stamped", "oneline"]


def build_generated(rng, tier):
    """worlds with problem text; the plans are made afterwards by the real Operator (ops_c15.walk)"""
    n = {"quick": 50, "thorough": 600}[tier]
    worlds = []
    for k in range(n):
        numeric = rng.random() < 0.5
        n_agents = rng.choice([2, 3, 3, 4])
        w, agents, items = gen_world(rng, numeric, n_agents, with_when=rng.random() < 0.15, dense=rng.random() < 0.4)
        objs = agents + items
        st = G.gen_state(rng, w, objs, density=rng.choice([0.3, 0.5, 0.7]))
        st["fluents"] = [(f, a, rng.choice(DYADIC)) for f, a, _ in st["fluents"]]
        dtext = G.render(w.domain_tree("ma"), rng, False)
        ptext = G.problem_text(w, objs, st, domain="ma")
        names = [a for a, _ in agents]
        order = list(names)
        if rng.random() < 0.5:
            rng.shuffle(order)                    # the given agent order need not be the declaration order
        worlds.append({"domain_text": dtext, "problem_text": ptext, "agents": order, "features": sorted(w.features),
                       "steps": rng.choice([2, 4, 6, 6, 8, 10, 12]), "walk_seed": rng.randint(1, 10 ** 9),
                       "switch": rng.choice([0.5, 0.7, 0.9]), "style": rng.choice(STYLES),
                       "style_seed": rng.randint(1, 10 ** 9)})
    return worlds


# ---------------------------------------------------------------- process-level sequences
COMMENTS = ["; cost = 12 (unit cost)".replace("(", "").replace(")", ""), ";; found by planner x", "; plan length 7 - unit cost", ";"]


def decorate_plan(rng, text):
    """comment lines and trailing comments (without parentheses: nothing the scanner could take for a step), blank
    lines, sometimes everything in upper case"""
    out = []
    if rng.random() < 0.6:
        out.append(rng.choice(COMMENTS))
    for l in text.split("\n"):
        out.append(l + (rng.choice(["  ; step", " ;", "\t; ok"]) if l.strip() and rng.random() < 0.25 else ""))
        if rng.random() < 0.3:
            out.append(rng.choice(["", "   ", "; note: checked", "\t", ""]))
    text = "\n".join(out)
    if rng.random() < 0.3:
        text = text.upper()
    return text


def build_sequence_worlds(rng, n):
    """one domain, 2-3 problems over it (another initial state; an extra item)"""
    out = []
    for _ in range(n):
        numeric = rng.random() < 0.5
        w, agents, items = gen_world(rng, numeric, rng.choice([2, 3, 3, 4]), with_when=rng.random() < 0.15, dense=rng.random() < 0.5)
        extra = [("i%d" % (len(items) + 1), "item")]
        obj_sets = [agents + items, agents + items, agents + items + extra]
        if rng.random() < 0.4:
            obj_sets = obj_sets[:1] + obj_sets[2:]
        problems = []
        for k, objs in enumerate(obj_sets):
            st = G.gen_state(rng, w, objs, density=rng.choice([0.3, 0.5, 0.7]))
            st["fluents"] = [(f, a, rng.choice(DYADIC)) for f, a, _ in st["fluents"]]
            problems.append(G.problem_text(w, objs, st, name="prob%d" % k, domain="ma"))
        names = [a for a, _ in agents]
        out.append({"domain_text": G.render(w.domain_tree("ma"), rng, False), "problems": problems, "agents": names,
                    "features": sorted(w.features), "steps_n": [rng.choice([2, 4, 6, 8]) for _ in problems],
                    "walk_seeds": [rng.randint(1, 10 ** 9) for _ in problems], "switch": rng.choice([0.5, 0.7, 0.9])})
    return out


def build_sequences(rng, tier):
    """ONE PlanConverter / Domain object over several plans, problems, agent lists, both settings of the flag"""
    worlds = build_sequence_worlds(rng, {"quick": 14, "thorough": 70}[tier])
    jobs, owner = [], []
    for i, sw in enumerate(worlds):
        for k, pt in enumerate(sw["problems"]):
            jobs.append({"op": "c15.walk", "domain_text": sw["domain_text"], "problem_text": pt, "agents": sw["agents"],
                         "steps": sw["steps_n"][k], "seed": sw["walk_seeds"][k], "switch": sw["switch"]})
            owner.append((i, k))
    walks = run_impl(jobs)
    plans = {o: wk.get("plan") for o, wk in zip(owner, walks)}
    seqs = []
    for i, sw in enumerate(worlds):
        steps = []

        def step(k, plan, text, agents, flag, tag, style):
            steps.append({"kind": "sequence:" + tag, "problem": k, "domain_text": sw["domain_text"], "problem_text": sw["problems"][k],
                          "plan_text": text, "plan": [[t.lower() for t in st] for st in plan], "agents": list(agents), "flag": flag,
                          "features": sw["features"], "style": style})
        for k in range(len(sw["problems"])):
            plan = plans.get((i, k))
            if not plan:
                continue
            style = rng.choice(STYLES)
            text = render_plan(rng, plan, style)
            order = list(sw["agents"])
            flag = rng.random() < 0.5
            step(k, plan, text, order, flag, "plain", style)
            step(k, plan, text, order, not flag, "other-flag", style)
            shuffled = list(order)
            rng.shuffle(shuffled)
            if rng.random() < 0.5:
                shuffled = list(reversed(order))
            step(k, plan, decorate_plan(rng, render_plan(rng, plan, rng.choice(["shipped", "bare", "colon", "spaced", "stamped"]))),
                 shuffled, rng.random() < 0.5, "decorated", "decorated")
            others = [j for j in range(len(sw["problems"])) if j != k]
            if others and rng.random() < 0.6:
                # the same plan text against another problem of the same Domain object (valid there or not: the spec decides)
                step(rng.choice(others), plan, text, order, rng.random() < 0.5, "other-problem", style)
        if len(steps) < 3:
            continue
        rng.shuffle(steps)
        for _ in range(rng.randint(1, 2)):                      # an earlier call again, verbatim
            again = dict(rng.choice(steps))
            again["kind"] = "sequence:again"
            steps.append(again)
        seqs.append({"domain_text": sw["domain_text"], "problems": sw["problems"], "steps": steps})
    return seqs


def run_sequences(seqs, hashseeds):
    """every sequence is one job in a worker process of its own"""
    results = [None] * len(seqs)
    for hs in hashseeds:
        idx = [i for i in range(len(seqs)) if i % len(hashseeds) == hashseeds.index(hs)]
        for b in range(0, len(idx), 16):
            chunk = idx[b:b + 16]
            jobs = [{"op": "c15.sequence", "domain_text": seqs[i]["domain_text"], "problems": seqs[i]["problems"],
                     "steps": [{"problem": s["problem"], "plan_text": s["plan_text"], "agents": s["agents"], "flag": s["flag"]}
                               for s in seqs[i]["steps"]]} for i in chunk]
            for i, r in zip(chunk, run_impl(jobs, hashseed=hs, nproc=len(chunk))):
                results[i] = r
    return results


# ---------------------------------------------------------------- the plans shipped with the repository
SHIPPED = [
    ("sokoban", "sokoban_domain.pddl", "sokoban_problem.pddl", "sokoban_plan.txt", ["player-01", "player-02"]),
    ("sokoban-interacting", "sokoban_domain.pddl", "sokoban_problem_with_interacting_actions.pddl",
     "sokoban_plan_with_interacting_actions.txt", ["player-01", "player-02"]),
    ("woodworking", "combined_domain.pddl", "combined_problem.pddl", "woodworking_plan.txt",
     ["glazer0", "grinder0", "highspeed-saw0", "immersion-varnisher0", "planer0", "saw0", "spray-varnisher0"]),
    ("depots", "depots_domain.pddl", "depots_problem.pddl", "depots_plan.txt",
     ["depot0", "depot1", "depot2", "depot3", "distributor0", "distributor1", "distributor2", "distributor3",
      "driver0", "driver1", "driver2", "driver3"]),
    ("blocks", "blocks_socs_experiment/original_domain.pddl", "blocks_socs_experiment/original_problem_3.pddl",
     "blocks_socs_experiment/sol.txt", ["a1", "a2", "a3"]),
    ("satellite", "satellite_numeric_multi_agent/metricSat.pddl", "satellite_numeric_multi_agent/pfile010.pddl",
     "satellite_numeric_multi_agent/pfile010.solution", ["satellite0", "satellite1", "satellite2", "satellite3", "satellite4"]),
]


def plain_plan(text):
    """an independent reading of a plan file: one action per line, between the first '(' and the last ')'"""
    plan = []
    for line in text.splitlines():
        if "(" in line and ")" in line:
            body = line[line.index("(") + 1:line.rindex(")")]
            toks = body.lower().split()
            if toks:
                plan.append(toks)
    return plan


def shipped_inputs(tier):
    """thorough: every shipped plan with both settings of the flag; quick: one setting each (the one its repository test
    uses), both for the small woodworking and blocks plans"""
    out = []
    for name, d, p, pl, agents in SHIPPED:
        base = REPO / TESTS
        try:
            dt, pt, plt = (base / d).read_text(), (base / p).read_text(), (base / pl).read_text()
        except OSError:
            continue
        flags = (True, False) if tier == "thorough" or name in ("woodworking", "blocks") else \
            ((False,) if name == "sokoban-interacting" else (True,))
        for flag in flags:
            out.append({"kind": "shipped:" + name, "domain_text": dt, "problem_text": pt, "plan_text": plt,
                        "plan": plain_plan(plt), "agents": agents, "flag": flag, "features": ["shipped"]})
    return out


PAIR_WORLDS = []

RAW_PLANS = [
    "", "\n", "()", "( )", "(a1)", "(act0)", "(act0 zz)", "0 : (act0 a1", "act0 a1)", "((act0 a1))", "(act0 (a1))",
    "; cost = 2 (unit cost)\n(act0 a1)", "+(act0 a1):(act0 a2)", "0 :(act0 a1) 1 :(act1 a2)", "(act0 a1)(act0 a1)(act0 a1)",
    "(ACT0 A1)\n(Act1 a2 I1)", "(act0\na1)", "(act0 a1 ?x)", "(nop a1)\n(act0 a1)", "(act0 a1)\n(nop a2)", "(unknown a1)",
    "(unknown a1)\n(act0 a2)", "(act0 a2)\n(unknown a1)", "(act0 a1.5)", "(act0 a1) ; (act1 a2)",
]


# ---------------------------------------------------------------- Coq literals
def ccall(c):
    return "(%s, %s)" % (cstr(c[0]), clist([cstr(a) for a in c[1:]]))


def cobs_state(r):
    return "(Returned %s)" % cstate(r["value"]) if r and "value" in r else "Raised"


def case_lit(inp, res, eps_hex):
    nums = clist(["(%s, %s)" % (cstr(k), chex(float.fromhex(v))) for k, v in sorted(res.get("nums", {}).items())])
    objs = clist(["(%s, %s)" % (cstr(n), cstr(t)) for n, t in res.get("objects", [])])
    init = cstate(res["init"]) if "init" in res else "{| facts := []; fluents := [] |}"
    j = res.get("joint", {})
    if "value" in j:
        joint = "(Returned %s)" % clist([clist([ccall(a) for a in step]) for step in j["value"]])
        jtext = clist([cstr(t) for t in j["text"]])
    else:
        joint, jtext = "Raised", "[]"
    calls = "None" if inp.get("plan") is None else "(Some %s)" % clist([ccall(c) for c in inp["plan"]])
    return ("{| c_text := %s; c_nums := %s; c_eps := %s; c_objs := %s; c_init := %s; c_plan := %s; c_calls := %s; "
            "c_agents := %s; c_flag := %s; c_joint := %s; c_joint_text := %s; c_seq_final := %s; c_joint_final := %s; "
            "c_intact := %s |}") % (
        cstr(inp["domain_text"]), nums, chex(float.fromhex(eps_hex)), objs, init, cstr(inp["plan_text"]), calls,
        clist([cstr(a) for a in inp["agents"]]), cbool(inp["flag"]), joint, jtext,
        cobs_state(res.get("seq_final")), cobs_state(res.get("joint_final")), cbool(res.get("intact", True)))


def consts_header(k):
    return HEADER_IMPORT + "Definition impl_consts := {| k_regex := %s; k_nop := %s |}.\n" % (cstr(k["regex"]), cstr(k["nop"]))


WS = [9, 10, 11, 12, 13, 28, 29, 30, 31, 32]
DIGITS = list(range(48, 58))
WORD = DIGITS + list(range(65, 91)) + [95] + list(range(97, 123))


def facts_ok(f):
    return (f.get("digit") == DIGITS and f.get("word") == WORD and f.get("space") == WS and f.get("split") == WS
            and f.get("prefix") == sorted(DIGITS + [43, 32, 58]) and f.get("body") == sorted(WORD + WS + [43, 63, 45])
            and f.get("lower_changes") == list(range(65, 91)) and f.get("lower_ok") is True)


def executor(agents, c):
    return next((p for p in c[1:] if p in agents), None)


# ---------------------------------------------------------------- nested numeric expressions (depth 2-3)
def _leaf_depths(t, d, out):
    """(fluent, depth below the root of the expression) for every fluent leaf of an expression tree"""
    if isinstance(t, list) and t and t[0] in ("+", "-", "*", "/") and len(t) == 3:
        _leaf_depths(t[1], d + 1, out)
        _leaf_depths(t[2], d + 1, out)
    elif isinstance(t, list):
        out.append((tuple(t), d))
    return out


def effect_sets(action, args):
    """of one ground action, read off the generator's trees: W fluents assigned, S fluents read by assigned values / numeric
    when-conditions as the expression itself or a direct operand, D fluents read ONLY at depth >= 2, A / R atoms added /
    removed, C atoms read by when-conditions"""
    sub = {v: a for (v, _), a in zip(action["params"], args)}
    reads, out = [], {"W": set(), "A": set(), "R": set(), "C": set()}

    def g(f):
        return tuple(sub.get(x, x) for x in f)

    def cond(e):
        if e[0] in (">=", "<=", ">", "<", "="):
            for side in e[1:]:
                reads.extend((g(f), d + 1) for f, d in _leaf_depths(side, 0, []))
        elif e[0] in ("and", "not"):
            for x in e[1:]:
                cond(x)
        else:
            out["C"].add(g(e))

    def visit(e):
        if e[0] in ("assign", "increase", "decrease"):
            out["W"].add(g(e[1]))
            reads.extend((g(f), d) for f, d in _leaf_depths(e[2], 0, []))
        elif e[0] == "when":
            cond(e[1])
            visit(e[2])
        elif e[0] == "and":
            for x in e[1:]:
                visit(x)
        elif e[0] == "not":
            out["R"].add(g(e[1]))
        else:
            out["A"].add(g(e))
    visit(action["eff"])
    out["S"] = {f for f, d in reads if d <= 1}
    out["D"] = {f for f, d in reads if d >= 2} - out["S"]
    return out


def effect_reads_writes(action, args):
    x = effect_sets(action, args)
    return x["W"], x["D"]


def clean_deep_pairs(w, agents, items):
    """how many pairs of ground actions of different agents have: one assigns a fluent the other reads only at depth >= 2,
    and nothing else in common (no fluent assigned by both, no atom added by one and removed by the other, nothing read
    at depth <= 1 or by a when-condition that the other changes).  Used to pick the worlds whose two-action plans are
    enumerated: in a world drawn blindly nearly every such pair clashes on something else as well."""
    import itertools
    universe = agents + items + list(w.consts)
    ground = []
    for a in w.actions:
        pools = [[o for o, t in universe if w.is_sub(t, pt)] for _, pt in a["params"]]
        for combo in itertools.product(*pools):
            if len(set(combo)) == len(combo):
                ground.append((combo[0], effect_sets(a, combo)))
    n = 0
    for (e1, x), (e2, y) in itertools.combinations(ground, 2):
        if e1 == e2 or not ((x["D"] & y["W"]) or (y["D"] & x["W"])):
            continue
        if (x["W"] & y["W"]) or (x["A"] & y["R"]) or (x["R"] & y["A"]) or (x["S"] & y["W"]) or (y["S"] & x["W"]) \
                or (x["C"] & (y["A"] | y["R"])) or (y["C"] & (x["A"] | x["R"])):
            continue
        n += 1
    return n


def deep_rw_neighbours(actions, agents, plan):
    """neighbouring actions of different agents where one assigns a fluent that the other's effects read only at
    depth >= 2 (the class the depth-2/3 expressions were added for)"""
    n, apart = 0, 0
    info = [effect_reads_writes(actions[c[0]], c[1:]) for c in plan]
    for (c1, (w1, r1)), (c2, (w2, r2)) in zip(zip(plan, info), list(zip(plan, info))[1:]):
        e1, e2 = executor(agents, c1), executor(agents, c2)
        if e1 is not None and e2 is not None and e1 != e2 and ((w1 & r2) or (w2 & r1)):
            n += 1
            apart += 0 if set(c1[1:]) & set(c2[1:]) else 1       # groupable even with the shared-object constraint on
    return n, apart


DEEP_STATS = {}


def deep_inputs(rng, tier):
    """numeric worlds whose assigned values and numeric when-conditions are trees of depth 2-3 (a stream of random numbers of
    its own: the other inputs are what they were): random walks with both settings of the flag, and every valid two-action
    plan of a few dense worlds"""
    n, n_pair_worlds, cap = {"quick": (24, 3, 24), "thorough": (200, 6, 100)}[tier]
    worlds = []
    for k in range(n):
        w, agents, items = gen_world(rng, True, rng.choice([2, 3, 3, 4]), with_when=rng.random() < 0.5, dense=rng.random() < 0.7,
                                     deep=True)
        objs = agents + items
        st = G.gen_state(rng, w, objs, density=rng.choice([0.3, 0.5, 0.7]))
        st["fluents"] = [(f, a, rng.choice(DYADIC)) for f, a, _ in st["fluents"]]
        order = [a for a, _ in agents]
        if rng.random() < 0.5:
            rng.shuffle(order)
        worlds.append({"domain_text": G.render(w.domain_tree("ma"), rng, False), "problem_text": G.problem_text(w, objs, st, domain="ma"),
                       "agents": order, "features": sorted(w.features), "actions": {a["name"]: a for a in w.actions},
                       "steps": rng.choice([4, 6, 8, 10, 12]), "walk_seed": rng.randint(1, 10 ** 9), "switch": rng.choice([0.7, 0.9]),
                       "style": rng.choice(STYLES), "style_seed": rng.randint(1, 10 ** 9)})
    pair_worlds = []
    for k in range(n_pair_worlds):
        # the best of a few candidates: see clean_deep_pairs
        cands = [gen_world(rng, True, 2 + k % 2, with_when=(k % 2 == 1), dense=True, deep=True) for _ in range(8)]
        w, agents, items = max(cands, key=lambda c: clean_deep_pairs(*c))
        objs = agents + items
        st = G.gen_state(rng, w, objs, density=0.5)
        st["fluents"] = [(f, a, rng.choice(DYADIC)) for f, a, _ in st["fluents"]]
        pair_worlds.append({"domain_text": G.render(w.domain_tree("ma"), rng, False),
                            "problem_text": G.problem_text(w, objs, st, domain="ma"), "agents": [a for a, _ in agents],
                            "features": sorted(w.features), "actions": {a["name"]: a for a in w.actions}})
    res = run_impl([{"op": "c15.walk", "domain_text": w["domain_text"], "problem_text": w["problem_text"], "agents": w["agents"],
                     "steps": w["steps"], "seed": w["walk_seed"], "switch": w["switch"]} for w in worlds] +
                   [{"op": "c15.pairs", "domain_text": w["domain_text"], "problem_text": w["problem_text"], "agents": w["agents"],
                     "cap": cap, "seed": rng.randint(1, 10 ** 6)} for w in pair_worlds])
    inputs = []
    stats = {"worlds": len(worlds), "worlds_with_a_numeric_when_condition": 0, "walks": 0, "pair_worlds": [],
             "plans_with_neighbours_where_one_assigns_what_the_other_reads_only_at_depth_2_or_more": 0,
             "of_these_flag_true_and_the_two_actions_share_no_object": 0}
    for w, wk in zip(worlds, res[:len(worlds)]):
        if any(isinstance(e, list) and e and e[0] == "when" and any(op in json.dumps(e[1]) for op in ('">="', '"<="', '">"', '"<"'))
               for a in w["actions"].values() for e in a["eff"][1:]):
            stats["worlds_with_a_numeric_when_condition"] += 1
        if "plan" not in wk or len(wk["plan"]) < 2:
            continue
        plan = wk["plan"]
        text = render_plan(random.Random(w["style_seed"]), plan, w["style"])
        k, apart = deep_rw_neighbours(w["actions"], w["agents"], plan)
        stats["walks"] += 1
        stats["plans_with_neighbours_where_one_assigns_what_the_other_reads_only_at_depth_2_or_more"] += 2 if k else 0
        stats["of_these_flag_true_and_the_two_actions_share_no_object"] += 1 if apart else 0
        for flag in (True, False):
            inputs.append({"kind": "generated:numeric-deep", "domain_text": w["domain_text"], "problem_text": w["problem_text"],
                           "plan_text": text, "plan": [[t.lower() for t in st] for st in plan], "agents": w["agents"], "flag": flag,
                           "features": w["features"], "style": w["style"]})
    for w, pr in zip(pair_worlds, res[len(worlds):]):
        plans = pr.get("plans", [])
        hit = 0
        for plan in plans:
            k, _ = deep_rw_neighbours(w["actions"], w["agents"], plan)
            hit += 1 if k else 0
            text = "".join("%d : (%s)\n" % (i, " ".join(st)) for i, st in enumerate(plan))
            for order in (w["agents"], list(reversed(w["agents"]))):
                inputs.append({"kind": "pairs", "domain_text": w["domain_text"], "problem_text": w["problem_text"], "plan_text": text,
                               "plan": plan, "agents": order, "flag": False, "features": w["features"], "style": "shipped"})
        stats["pair_worlds"].append({"features": w["features"], "agents": w["agents"], "pairs_total": pr.get("total", 0),
                                     "pairs_used": len(plans), "pairs_one_assigns_what_the_other_reads_only_at_depth_2_or_more": hit})
    DEEP_STATS.clear()
    DEEP_STATS.update(stats)
    return inputs


# ---------------------------------------------------------------- the run
def build_inputs(rng, tier, deep_rng=None):
    inputs = []
    # witnesses of recorded findings first
    for f in load_findings(PROP):
        w = f.get("witness", {})
        if "domain_text" in w:
            inputs.append({"kind": "finding-witness:" + f["id"], "domain_text": w["domain_text"],
                           "problem_text": w["problem_text"], "plan_text": w["plan_text"], "plan": w["plan"],
                           "agents": w["agents"], "flag": w["flag"], "features": ["witness"],
                           "witness_of": f["id"] if f.get("status") == "open" else None})
    inputs += shipped_inputs(tier)
    worlds = build_generated(rng, tier)
    walks = run_impl([{"op": "c15.walk", "domain_text": w["domain_text"], "problem_text": w["problem_text"],
                       "agents": w["agents"], "steps": w["steps"], "seed": w["walk_seed"], "switch": w["switch"]}
                      for w in worlds])
    # small scope, enumerated: every valid two-action plan (different agents) of a few dense worlds, agent list in both
    # orders: the two actions are exactly what the interference test compares
    n_pair_worlds, cap = (1, 30) if tier == "quick" else (4, 150)
    pair_worlds = []
    for k in range(n_pair_worlds):
        w, agents, items = gen_world(rng, numeric=(k % 2 == 0), n_agents=2 + k % 2, with_when=(k % 3 == 2), dense=True)
        objs = agents + items
        st = G.gen_state(rng, w, objs, density=0.5)
        st["fluents"] = [(f, a, rng.choice(DYADIC)) for f, a, _ in st["fluents"]]
        pair_worlds.append({"domain_text": G.render(w.domain_tree("ma"), rng, False),
                            "problem_text": G.problem_text(w, objs, st, domain="ma"),
                            "agents": [a for a, _ in agents], "features": sorted(w.features)})
    pair_res = run_impl([{"op": "c15.pairs", "domain_text": w["domain_text"], "problem_text": w["problem_text"],
                          "agents": w["agents"], "cap": cap, "seed": rng.randint(1, 10 ** 6)} for w in pair_worlds], nproc=min(4, len(pair_worlds)))
    for w, pr in zip(pair_worlds, pair_res):
        w["pairs_total"], w["pairs_used"] = pr.get("total", 0), len(pr.get("plans", []))
        for plan in pr.get("plans", []):
            text = "".join("%d : (%s)\n" % (i, " ".join(st)) for i, st in enumerate(plan))
            for order in (w["agents"], list(reversed(w["agents"]))):
                inputs.append({"kind": "pairs", "domain_text": w["domain_text"], "problem_text": w["problem_text"],
                               "plan_text": text, "plan": plan, "agents": order, "flag": False, "features": w["features"],
                               "style": "shipped"})
    PAIR_WORLDS[:] = [{k: w[k] for k in ("features", "pairs_total", "pairs_used", "agents")} for w in pair_worlds]
    raw_world = None
    for w, wk in zip(worlds, walks):
        if "plan" not in wk:
            continue
        plan = wk["plan"]
        srng = random.Random(w["style_seed"])
        text = render_plan(srng, plan, w["style"])
        for flag in (True, False):
            inputs.append({"kind": "generated:" + ("numeric" if "numeric" in w["features"] else "strips"),
                           "domain_text": w["domain_text"], "problem_text": w["problem_text"], "plan_text": text,
                           "plan": [[t.lower() for t in st] for st in plan], "agents": w["agents"], "flag": flag,
                           "features": w["features"], "style": w["style"]})
        if raw_world is None and len(plan) >= 2:
            raw_world = w
    # raw plan texts on one generated world: the scanner and the error paths (model agreement only)
    if raw_world is not None:
        for t in RAW_PLANS:
            inputs.append({"kind": "raw", "domain_text": raw_world["domain_text"], "problem_text": raw_world["problem_text"],
                           "plan_text": t, "plan": None, "agents": raw_world["agents"], "flag": rng.random() < 0.5,
                           "features": ["raw"]})
        for _ in range(20 if tier == "quick" else 200):
            t = "".join(rng.choice(["(", ")", "(", ")", " ", "\n", "act0", "act1", "a1", "a2", "i1", ":", "0", "+", "-", "?", ".", "A1"])
                        for _ in range(rng.randint(1, 14)))
            inputs.append({"kind": "raw", "domain_text": raw_world["domain_text"], "problem_text": raw_world["problem_text"],
                           "plan_text": t, "plan": None, "agents": raw_world["agents"], "flag": rng.random() < 0.5,
                           "features": ["raw"]})
    if deep_rng is not None:
        inputs += deep_inputs(deep_rng, tier)
    return inputs


def nontrivial(inp, res):
    """a plan of at least 3 actions by at least 2 agents whose conversion has a step with two members or fewer steps
    than actions refused"""
    plan = inp.get("plan")
    if inp.get("kind") == "pairs":
        return True
    if not plan or len(plan) < 3:
        return False
    return len({executor(inp["agents"], c) for c in plan}) >= 2


def run(args):
    rep = Report(PROP, args.tier, args.seed)
    replay_data = json.load(open(args.replay)) if args.replay else None     # before the replay directory is emptied
    shutil.rmtree(WORK / PROP / "replays", ignore_errors=True)
    standard_proof_part(rep, PROP)
    # an extra theorem that depends on another property's spec file (Spec/Joint.v, C16): Proofs/C15_Reconcile.v proves that
    # this property's non_interfering and C16's are the same decision procedure.  It is compiled here and reported, but
    # kept out of Props/C15.v so that a change of the other file cannot break this check.
    try:
        r = coqc(COQ / "Proofs" / "C15_Reconcile.v", timeout=120)
        rep.coverage["non_interference_equals_C16_spec"] = (r.returncode == 0)
        if r.returncode != 0:
            rep.notes.append("Proofs/C15_Reconcile.v (non_interfering_agree: Spec.JointPlan.fp_non_interfering = Spec.Joint.non_interfering) "
                             "did not compile on this run: " + (r.stdout + r.stderr)[-300:])
    except Exception as e:  # noqa
        rep.coverage["non_interference_equals_C16_spec"] = "not compiled: %s" % e
    rng = random.Random(args.seed * 15485863 + 15)
    seqs = []
    if args.replay:
        data = replay_data
        if "sequence" in data["input"]:
            inputs, seqs = [], [data["input"]["sequence"]]
        else:
            inputs = [data["input"]["case"]]
    else:
        inputs = build_inputs(rng, args.tier, random.Random(args.seed * 32452843 + 1515))
        seqs = build_sequences(rng, args.tier)
    pre = run_impl([{"op": "c15.consts"}, {"op": "c15.facts"}, {"op": "core.numeric_config"}], nproc=1)
    consts, facts, cfg = pre
    f_ok = facts_ok(facts)
    jobs = [{"op": "c15.convert", "domain_text": i["domain_text"], "problem_text": i["problem_text"],
             "plan_text": i["plan_text"], "agents": i["agents"], "flag": i["flag"]} for i in inputs]
    if args.tier == "thorough" and not args.replay:
        results = [None] * len(jobs)
        for hs in (0, 1, 2):
            idx = [i for i in range(len(jobs)) if i % 3 == hs]
            for i, r in zip(idx, run_impl([jobs[i] for i in idx], hashseed=hs)):
                results[i] = r
        hash_seeds = [0, 1, 2]
    else:
        results = run_impl(jobs)
        hash_seeds = [0]
    # process-level sequences: each step becomes a case of its own (the model is evaluated on THAT call's inputs)
    seq_of, seq_inputs, seq_results = {}, [], []
    seq_stats = {"jobs": len(seqs), "steps": 0, "step_kinds": {}, "jobs_failed": 0, "not_intact": 0}
    for q, qr in zip(seqs, run_sequences(seqs, hash_seeds)):
        if not isinstance(qr, dict) or "steps_out" not in qr:
            seq_stats["jobs_failed"] += 1
            seq_stats.setdefault("failures", []).append(str(qr)[:300])
            continue
        for i, (st, o) in enumerate(zip(q["steps"], qr["steps_out"])):
            seq_of[len(seq_inputs)] = (q, i)
            seq_inputs.append(st)
            seq_results.append(o)
            seq_stats["steps"] += 1
            seq_stats["step_kinds"][st["kind"]] = seq_stats["step_kinds"].get(st["kind"], 0) + 1
    # sequence steps first: their replays re-run the whole job in a process of its own
    inputs = seq_inputs + list(inputs)
    results = seq_results + list(results)
    seq_stats["not_intact"] = sum(1 for r in results if not r.get("intact", True))
    cases = []
    for n, (inp, res) in enumerate(zip(inputs, results)):
        desc = {"case": inp, "implementation": {k: res.get(k) for k in ("joint", "seq_final", "joint_final", "extracted", "load_raised", "intact")},
                "constants": consts}
        if n in seq_of:
            desc["sequence"], desc["step"] = seq_of[n]
        cases.append({"lit": case_lit(inp, res, cfg["epsilon"]), "input": desc,
                      "nontrivial": nontrivial(inp, res), "witness_of": inp.get("witness_of")})
    header = consts_header(consts if "regex" in consts else {"regex": "?", "nop": "?"})
    raw, info = run_case_shards(PROP, "Corr.C15", [c["lit"] for c in cases], shard_size=12, run_fn="run impl_consts",
                                header_extra=header, max_bytes=110_000, units=[2] * len(cases))
    verdicts, classes = raw[0::2], raw[1::2]
    for c, k in zip(cases, classes):
        c["klass"] = "D70" if k.isdigit() and int(k) & 4 else None
    decide(rep, PROP, "Corr.C15", cases, verdicts, info, explain_expr="explain impl_consts %s", header_extra=header)
    if not f_ok:
        p = write_replay(PROP, "cpython_facts", {"kind": "correspondence",
                                                 "why": r"CPython facts (\d, \w, \s, split, lower, the two character classes) differ from the model",
                                                 "facts": facts})
        rep.violation(p, False)
    # ---- coverage
    cov = rep.coverage
    kinds, steps, groups, styles, agents_n = {}, {}, {}, {}, {}
    interfering = {"a": 0, "e": 0, "p": 0, "-": 0}
    raised = 0
    plans_with_pair = 0
    for inp, res, k in zip(inputs, results, classes):
        kinds[inp["kind"].split(":")[0] + (":" + inp["kind"].split(":")[1] if inp["kind"].startswith("generated") else "")] = \
            kinds.get(inp["kind"].split(":")[0] + (":" + inp["kind"].split(":")[1] if inp["kind"].startswith("generated") else ""), 0) + 1
        if inp.get("plan") is None:
            continue
        n = len(inp["plan"])
        b = "0-2" if n <= 2 else "3-5" if n <= 5 else "6-9" if n <= 9 else "10-19" if n <= 19 else "20+"
        steps[b] = steps.get(b, 0) + 1
        agents_n[str(len(inp["agents"]))] = agents_n.get(str(len(inp["agents"])), 0) + 1
        styles[inp.get("style", "file")] = styles.get(inp.get("style", "file"), 0) + 1
        bits = int(k) if k.isdigit() else 0
        interfering["a"] += bits & 1
        interfering["e"] += (bits >> 1) & 1
        interfering["p"] += (bits >> 2) & 1
        interfering["-"] += 1 if bits == 0 else 0
        j = res.get("joint", {})
        if "value" in j:
            sizes = [sum(1 for a in st if a[0] != consts.get("nop", "nop")) for st in j["value"]]
            for s in sizes:
                groups[str(s)] = groups.get(str(s), 0) + 1
            if any(s >= 2 for s in sizes):
                plans_with_pair += 1
        else:
            raised += 1
    cov["input_distribution"] = {"kinds": kinds, "actions_per_plan": steps, "agents": agents_n, "plan_file_layouts": styles,
                                 "joint_step_sizes": groups, "plans_with_a_two_member_step": plans_with_pair,
                                 "plans_with_interfering_neighbours": {"an atom added by one, deleted by the other": interfering["a"],
                                                                       "effects not compatible": interfering["e"],
                                                                       "a precondition's atom or fluent changed by the other": interfering["p"],
                                                                       "none": interfering["-"]},
                                 "conversions_raised": raised,
                                 "plans_with_an_action_of_inconsistent_effects(not judged)": sum(1 for k in classes if k == "c"),
                                 "flag_true": sum(1 for i in inputs if i["flag"]), "flag_false": sum(1 for i in inputs if not i["flag"])}
    cov["enumerated_two_action_plans"] = {"worlds": PAIR_WORLDS,
                                          "note": "every valid two-action plan with different executing agents from the initial state of each world "
                                                  "(all of them when pairs_used == pairs_total, a random subset otherwise), agent list in both orders"}
    cov["nested_numeric_expressions"] = dict(DEEP_STATS, note="numeric worlds whose assigned values, precondition comparisons and numeric "
                                             "when-conditions are expression trees of depth 2-3 over g / f(agent) / v(item) and numerals (kind "
                                             "generated:numeric-deep: walks, both flag values; plus every valid two-action plan of the pair worlds, "
                                             "counted under kind pairs)")
    cov["process_level_sequences"] = dict(seq_stats, note="one worker process per sequence: ONE Domain object, 2-3 problems parsed with it, ONE "
                                          "PlanConverter converting 5-14 plans (each plan with both flag values, agent list in given / shuffled / "
                                          "reversed order, the same text against another problem, an earlier call again verbatim), one plan-file "
                                          "path rewritten, equal agent lists passed as the same list object; plan texts decorated with ';' comments, "
                                          "blank lines, upper case. Every step is judged as a case of its own; 'intact' = agent list, plan file and "
                                          "the problem's initial state unchanged by the call")
    cov["constants_read_from_module"] = consts
    cov["numeric_config"] = cfg
    cov["hash_seeds"] = hash_seeds
    cov["exhaustive"] = False
    cov["rule"] = ("generated typed domains with 2-4 agents (optionally a subtype of agent, a constant), 1-3 items, 0-2-ary predicates, STRIPS or numeric "
                   "(fluents g / f(agent) / v(item); comparisons, assign/increase/decrease), sometimes a conditional effect; every action's first parameter is its agent, "
                   "further parameters are items or a second agent; plans are random walks (2-12 steps) of actions applicable by the real Operator, biased towards "
                   "changing the agent; rendered in 7 plan-file layouts; each plan converted with and without the shared-object constraint, agent list in "
                   "declaration or shuffled order; plus the six plans shipped under tests/multi_agent_tests and raw plan texts (scanner / error paths; model "
                   "agreement only). Observed: the joint actions (structure and str()), the final states of the sequential and of the joint run by the library. "
                   "Plus every valid two-action plan (different agents) of a few dense worlds, agent list in both orders. "
                   "Plus numeric worlds (kind generated:numeric-deep, a random stream of their own) whose assigned values, precondition comparisons and "
                   "numeric when-conditions are expression trees of depth 2-3 (a second global fluent h), as walks with both flag values and as "
                   "enumerated two-action plans of dense worlds picked (best of 8) for pairs of actions where one assigns a fluent the other reads "
                   "only at depth >= 2 and nothing else clashes. "
                   "Non-trivial: a plan of at least 3 actions executed by at least 2 agents, or an enumerated two-action plan; distinct by input hash.")
    cov["samples"] = [{"kind": c["input"]["case"]["kind"], "agents": c["input"]["case"]["agents"], "flag": c["input"]["case"]["flag"],
                       "plan_text": c["input"]["case"]["plan_text"][:300],
                       "joint": (c["input"]["implementation"]["joint"] or {}).get("text", "raised")}
                      for c in (cases[:1] + cases[len(cases) // 2:len(cases) // 2 + 2] + cases[-1:])]
    rep.assumptions = ["ASCII plan files", "every action instance of the plan has consistent simultaneous effects (Spec.Pddl.consistent; else the case is "
                       "recognised inside Coq on its input and not judged: the library's answer then depends on a set order)", "domains without quantified conditions/effects (the converter passes no object table: universal parts are skipped by the library)",
                       "CPython re/str facts re-checked on this run: %s" % f_ok,
                       "pattern text and NOP name read from the module at run time and compared with the texts the model was written for"]
    return rep.finish()
