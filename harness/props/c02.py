"""C02 -- a grounded action call is reported applicable exactly when its instantiated precondition is true.

Three streams of cases, all judged inside Coq (model = Model.Exec.is_applicable, spec oracle = Spec.Pddl.applicable on the
independently read domain text):
  corpus   the witnesses of the findings recorded for C02 (fixed ones must pass, open ones must reproduce);
  worlds   generated typed domains with and/or/not/=/forall/comparison preconditions, random states, type-correct calls
           (the shared pddlgen generator; same shape as the C01/C03 drivers);
  scope    the exhaustive small scope the property asks for: every formula up to a size bound over the vocabulary
           {p/1, q/1, r/2, z/0, f/1, h/0} x every call over a 2-3 element universe x every assignment to the ground atoms and
           fluents the formula's vocabulary mentions (truth tables; the other atoms keep a random base value).
"""
import itertools
import json
import math
import os
import random

from ..common import (Report, case_hash, cbool, chex, clist, cstr, decide, load_findings, run_case_shards, run_impl,
                      standard_proof_part)
from .. import pddlgen as G
from ..core_common import build_world, catom, count_groups, run_worlds, world_literal

HEADER = "From Coq Require Import PrimFloat NArith.\nFrom Verif Require Import Spec.Pddl Corr.Core Corr.C02.\n"
PROP = "C02"

# the tolerance of the STATED configuration (environment EPSILON, default 0.0001) -- not read from the module under test, so a
# change of the tolerance inside the library shows up as a disagreement at the boundary values below
STATED_EPS = float(os.environ.get("EPSILON", 0.0001))
BOUNDARY_FACTORS = [0.0, 0.5, 0.99, 1.01, 1.5, 2.0]


def boundary_values(m, eps=None):
    """values around m whose distance to m is 0, 0.5, 0.99, 1.01, 1.5, 2 tolerances (both sides), m +- eps itself and one ulp
    either side of those: a comparison with m flips exactly at the tolerance"""
    eps = STATED_EPS if eps is None else eps
    vals = [m + k * eps for k in BOUNDARY_FACTORS] + [m - k * eps for k in BOUNDARY_FACTORS[1:]]
    for edge in (m + eps, m - eps):
        vals += [edge, math.nextafter(edge, math.inf), math.nextafter(edge, -math.inf)]
    out = []
    for v in vals:
        if v not in out:
            out.append(v)
    return out


# ------------------------------------------------------------------------------------------------ scope generation
X, Y, K, V, W = "?x", "?y", "k", "?v", "?w"


class Family:
    """wave 3: [consts] any list of constants (default: k - u when [const]); [nparams] 2 (?x ?y - t) or 0 (actions without parameters: the
    only ones that can be called in a universe without any name); [noobj] the Operators are built with problem_objects=None"""

    def __init__(self, name, const, f="f", h="h", third=False, objects=None, consts=None, nparams=2, noobj=False):
        self.name, self.f, self.h, self.nparams, self.noobj = name, f, h, nparams, noobj
        self.objects = list(objects) if objects is not None else [("o1", "t"), ("o2", "u")] + ([("o3", "t")] if third else [])
        self.consts = list(consts) if consts is not None else ([(K, "u")] if const else [])
        self.const = any(n == K for n, _ in self.consts)
        self.universe = self.objects + self.consts
        names = [n for n, _ in self.universe]
        self.atoms = [["p", [a]] for a in names] + [["q", [a]] for a in names] + \
                     [["r", [a, b]] for a in names for b in names] + [["z", []]]
        self.fluents = [[f, [a]] for a in names] + [[h, []]]
        self.calls = [list(c) for c in itertools.product(names, repeat=nparams)]
        self.grid = [0.0, 1.0]

    def params_text(self):
        return "(?x - t ?y - t)" if self.nparams == 2 else "()"

    def header(self):
        c = "(:constants %s) " % " ".join("%s - %s" % kt for kt in self.consts) if self.consts else ""
        return ("(define (domain dom) (:requirements :typing :negative-preconditions :equality :disjunctive-preconditions "
                ":universal-preconditions :fluents) (:types t - object u - t) %s"
                "(:predicates (p ?a - t) (q ?a - t) (r ?a - t ?b - t) (z)) (:functions (%s ?a - t) (%s))" % (c, self.f, self.h))

    def leaves(self):
        F, H = self.f, self.h
        atoms = [["p", X], ["p", Y], ["q", X], ["q", Y], ["r", X, Y], ["r", Y, X], ["z"]]
        if self.const:
            atoms += [["p", K], ["r", X, K], ["r", K, Y]]
        lits = atoms + [["not", a] for a in atoms]
        eqs = [["=", X, Y], ["not", ["=", X, Y]]]
        cmps = [[">=", [F, X], "1"], ["<", [F, Y], [H]], ["=", [F, X], [F, Y]], [">", ["+", [F, X], [H]], "1"],
                ["<=", ["/", [F, Y], "2"], [H]], ["<", ["-", [F, X], [F, Y]], "0.5"], [">", ["*", [F, X], "2"], [H]],
                ["<", ["/", "1", [F, X]], "2"]]         # the denominator can be zero: the library raises, the spec has no value
        foralls = [["forall", [V, "-", "t"], ["and", ["p", V]]],
                   ["forall", [V, "-", "u"], ["and", ["p", V]]],
                   ["forall", [V, "-", "t"], ["or", ["not", ["q", V]], ["r", X, V]]],
                   ["forall", [V, "-", "t"], ["and", [">=", [F, V], "1"]]],
                   ["forall", [V, "-", "u"], ["or", ["r", V, Y], ["not", ["p", V]]]],
                   # the quantified variable has the name of the action's parameter ?y: inside the body ?y is the bound variable
                   ["forall", [Y, "-", "t"], ["and", ["q", Y]]],
                   ["forall", [Y, "-", "u"], ["or", ["not", ["p", Y]], ["r", X, Y]]],
                   # wave 3: a forall nested in a forall -- two variables; the SAME variable twice (the inner one shadows the outer one);
                   # the same name as the parameter ?y twice; an inner variable named like the parameter under an outer one that is not
                   ["forall", [V, "-", "t"], ["and", ["forall", [W, "-", "u"], ["or", ["r", V, W], ["not", ["p", W]]]]]],
                   ["forall", [V, "-", "t"], ["and", ["q", V], ["forall", [V, "-", "u"], ["and", ["p", V]]]]],
                   ["forall", [Y, "-", "t"], ["or", ["not", ["q", Y]], ["forall", [Y, "-", "u"], ["and", ["r", X, Y]]]]],
                   ["forall", [V, "-", "u"], ["and", ["forall", [Y, "-", "t"], ["or", ["r", V, Y], ["q", Y]]]]]]
        out = lits + eqs + cmps + foralls
        if self.nparams == 0:
            # no parameters: only what has no free variable; two comparisons over the nullary function instead of the ones over (f ?x)
            out = [l for l in out if not free_vars(l, set())] + [[">=", [H], "1"], ["<", [H], "0.5"]]
        return out


class BoundFamily(Family):
    """the tolerance boundary: fluent values 0 / 0.5 / 0.99 / 1.01 / 1.5 / 2 tolerances (and single ulps around one tolerance) away
    from the magnitude m, compared by every operator with each other, with (h) and with the numeral m"""

    def __init__(self, mtext, quick):
        Family.__init__(self, "Fbound_" + mtext, False)
        self.mtext = mtext
        vals = boundary_values(float(mtext))
        self.grid = vals[:6] + vals[11:14] if quick else vals          # quick: one side + the edge and its two neighbours

    def leaves(self):
        F, H = self.f, self.h
        out = []
        for op in ("=", "<=", ">=", "<", ">"):
            out += [[op, [F, X], [F, Y]], [op, [F, X], [H]], [op, [F, Y], self.mtext]]
        return out + [["not", ["p", X]]]


def free_vars(t, bound):
    """the variables of a leaf that no enclosing forall of the leaf binds"""
    if isinstance(t, str):
        return {t} if t.startswith("?") and t not in bound else set()
    if t and t[0] == "forall":
        return free_vars(t[2], bound | {t[1][0]})
    out = set()
    for x in t:
        out |= free_vars(x, bound)
    return out


def names_in(t, acc):
    if isinstance(t, str):
        acc.add(t)
    else:
        for x in t:
            names_in(x, acc)
    return acc


BUDGET = {  # (leaves, two-leaf formulas, size-3 formulas, calls per formula, state cap per call); None = all
    ("thorough", "F2"): (None, None, 300, None, 64),
    ("thorough", "F3const"): (None, 120, 60, 5, 64),
    ("thorough", "F3obj"): (None, 100, 50, 5, 64),
    ("thorough", "F2clash"): (None, 150, 60, None, 64),
    ("thorough", "F2const"): (None, None, 60, None, 32),
    ("quick", "F2const"): (8, 12, 4, 2, 32),
    ("quick", "F2"): (10, 30, 12, 2, 32),
    ("quick", "F3const"): (8, 14, 6, 2, 32),
    ("quick", "F2clash"): (8, 14, 6, 2, 32),
    # wave 3 (seeded/C02_E): boundary object tables.  F0empty: no object, no constant (actions without parameters; every forall is vacuous);
    # F0const: no object, constant k - u; F0const2: no object, constants k - u and k2 - t; F1t / F1u: one object (type u has no inhabitant /
    # one); F0constT: no object, one constant of the upper type only (forall over u vacuous); F*none: the same universes with Operators built
    # without an object table (problem_objects=None is not the empty table)
    ("thorough", "F0empty"): (None, None, 40, None, 64), ("quick", "F0empty"): (None, 10, 3, None, 32),
    ("thorough", "F0const"): (None, None, 40, None, 64), ("quick", "F0const"): (12, 16, 4, None, 32),
    ("thorough", "F0const0"): (None, None, 40, None, 64), ("quick", "F0const0"): (None, 10, 3, None, 32),
    ("thorough", "F0const2"): (None, 300, 40, None, 64), ("quick", "F0const2"): (6, 8, 3, 2, 32),
    ("thorough", "F0constT"): (None, 300, 40, None, 64), ("quick", "F0constT"): (6, 8, 3, None, 32),
    ("thorough", "F1t"): (None, None, 40, None, 64), ("quick", "F1t"): (8, 10, 3, None, 32),
    ("thorough", "F1u"): (None, 300, 40, None, 64), ("quick", "F1u"): (6, 8, 3, None, 32),
    ("thorough", "F2none"): (None, 200, 40, 2, 64), ("quick", "F2none"): (8, 10, 3, 1, 32),
    ("thorough", "F0constnone"): (None, 300, 40, None, 64), ("quick", "F0constnone"): (10, 12, 3, None, 32),
    ("thorough", "F0const0none"): (None, None, 20, None, 64), ("quick", "F0const0none"): (None, 6, 2, None, 32),
    ("quick", "Fbound_1"): (None, 6, 0, 2, 81), ("quick", "Fbound_0.001"): (None, 4, 0, 1, 81), ("quick", "Fbound_1000"): (None, 4, 0, 1, 81),
    ("thorough", "Fbound_1"): (None, 40, 0, None, 400), ("thorough", "Fbound_0.001"): (None, 40, 0, None, 400),
    ("thorough", "Fbound_1000"): (None, 40, 0, None, 400), ("thorough", "Fbound_10"): (None, 20, 0, None, 400),
}


def subst_var(t):
    """inside a forall body: talk about the quantified variable instead of ?y (keeps ?x free)"""
    if isinstance(t, str):
        return V if t == Y else t
    return [subst_var(x) for x in t]


def formulas(fam, rng, tier):
    """[(size, tree)], complete?  -- all leaves and all two-leaf formulas when the budget says None, else a seeded sample"""
    n1, n2, n3, _, _ = BUDGET[(tier, fam.name)]
    L = fam.leaves()
    one = [(1, ["and", l]) for l in L]
    pairs = [(a, b) for i, a in enumerate(L) for b in L[i + 1:]]
    two = [(2, ["and", a, b]) for a, b in pairs] + [(2, ["and", ["or", a, b]]) for a, b in pairs]
    three = []
    while len(three) < n3:
        a, b, c = rng.sample(L, 3)
        shape = rng.randrange(5)
        if shape == 0:
            three.append((3, ["and", a, ["or", b, c]]))
        elif shape == 1:
            three.append((3, ["and", ["or", a, ["and", b, c]]]))
        elif shape == 2:
            three.append((3, ["and", a, b, c]))
        elif shape == 3:
            three.append((3, ["and", ["or", a, b, c]]))
        elif all(l[0] != "forall" for l in (a, b, c)):
            three.append((3, ["and", ["forall", [V, "-", rng.choice(["t", "u"])],
                                      ["and", subst_var(a), ["or", subst_var(b), subst_var(c)]]]]))
    complete = n1 is None and n2 is None
    if n1 is not None:
        one = rng.sample(one, n1)
    if n2 is not None:
        two = rng.sample(two, n2)
    return one + two + three, complete


def scope_jobs(rng, tier):
    fams = [Family("F2", False), Family("F3const", True), Family("F2const", True, objects=[("o1", "t")]),
            Family("F2clash", False, f="q", h="z"),
            Family("F3obj", False, third=True),
            Family("F0empty", False, objects=[], nparams=0),
            Family("F0const", True, objects=[]), Family("F0const0", True, objects=[], nparams=0),
            Family("F0const2", True, objects=[], consts=[(K, "u"), ("k2", "t")]),
            Family("F0constT", False, objects=[], consts=[("k2", "t")]),
            Family("F1t", False, objects=[("o1", "t")]), Family("F1u", False, objects=[("o1", "u")]),
            Family("F2none", False, noobj=True), Family("F0constnone", True, objects=[], noobj=True),
            Family("F0const0none", True, objects=[], nparams=0, noobj=True)] + \
           [BoundFamily(m, tier == "quick") for m in ("1", "0.001", "1000", "10")]
    jobs = []
    exhaustive = {}
    per_job = 24
    for fam in fams:
        if (tier, fam.name) not in BUDGET:
            continue
        grid = fam.grid
        _, _, _, ncalls, cap = BUDGET[(tier, fam.name)]
        fs, complete = formulas(fam, rng, tier)
        exhaustive[fam.name] = complete and ncalls is None
        for start in range(0, len(fs), per_job):
            chunk = fs[start:start + per_job]
            acts, rows, meta = [], [], []
            for i, (size, tree) in enumerate(chunk):
                an = "a%d" % i
                acts.append("(:action %s :parameters %s :precondition %s :effect (and (z)))" % (an, fam.params_text(), G.render(tree)))
                mentioned = names_in(tree, set())
                rel_a = [j for j, (p, _) in enumerate(fam.atoms) if p in mentioned]
                rel_f = [j for j, (f, _) in enumerate(fam.fluents) if f in mentioned]
                calls = fam.calls if ncalls is None else rng.sample(fam.calls, ncalls)
                for args in calls:
                    ra, rf = list(rel_a), list(rel_f)
                    capped = False
                    while (2 ** len(ra)) * (len(grid) ** len(rf)) > cap:
                        capped = True
                        if ra and (not rf or rng.random() < 0.7):
                            ra.pop(rng.randrange(len(ra)))
                        else:
                            rf.pop(rng.randrange(len(rf)))
                    base_f = 0
                    for j in range(len(fam.atoms)):
                        if j not in ra and rng.random() < 0.5:
                            base_f |= 1 << j
                    base_fl = 0
                    for j in range(len(fam.fluents)):
                        if j not in rf:
                            base_fl += rng.randrange(len(grid)) * (len(grid) ** j)
                    rows.append({"action": an, "args": args, "base_facts": base_f, "base_fl": base_fl,
                                 "rel_atoms": ra, "rel_fl": rf})
                    meta.append({"family": fam.name, "size": size, "formula": G.render(tree), "capped": capped})
            text = fam.header() + "\n" + "\n".join(acts) + ")"
            jobs.append({"op": "c02.scope", "domain_text": text, "objects": [list(o) for o in fam.objects],
                         "atoms": fam.atoms, "fluents": fam.fluents, "grid": [g.hex() for g in grid], "rows": rows,
                         "meta": meta, "family": fam.name, "noobj": fam.noobj})
    return jobs, exhaustive


def n_states(job, row):
    return (2 ** len(row["rel_atoms"])) * (len(job["grid"]) ** len(row["rel_fl"]))


def decode_state(job, row, n):
    B = len(job["grid"])
    mask = row["base_facts"]
    for t, i in enumerate(row["rel_atoms"]):
        if (n >> t) & 1:
            mask |= 1 << i
    code = n >> len(row["rel_atoms"])
    fl = []
    for j, (f, a) in enumerate(job["fluents"]):
        if j in row["rel_fl"]:
            d = (code // (B ** row["rel_fl"].index(j))) % B
        else:
            d = (row["base_fl"] // (B ** j)) % B
        fl.append([f, a, float.fromhex(job["grid"][d])])
    facts = [job["atoms"][i] for i in range(len(job["atoms"])) if (mask >> i) & 1]
    return {"facts": facts, "fluents": fl}


def scase_literal(job, res, eps_hex):
    nums = clist(["(%s, %s)" % (cstr(k), chex(float.fromhex(v))) for k, v in sorted(res["nums"].items())])
    objs = clist(["(%s, %s)" % (cstr(n), cstr(t)) for n, t in job["objects"]])
    w = ("{| w_text := %s; w_nums := %s; w_eps := %s; w_objs := %s; w_oof := false; w_parsed := Raised; w_probes := [] |}"
         % (cstr(job["domain_text"]), nums, chex(float.fromhex(eps_hex)), objs))
    rows = []
    for row, ans in zip(job["rows"], res["answers"]):
        rows.append("{| r_action := %s; r_args := %s; r_base_facts := %d%%N; r_base_fl := %d%%N; r_rel_atoms := %s; "
                    "r_rel_fl := %s; r_ans := %s |}" % (
                        cstr(row["action"]), clist([cstr(a) for a in row["args"]]), row["base_facts"], row["base_fl"],
                        clist(["%d%%nat" % i for i in row["rel_atoms"]]), clist(["%d%%nat" % i for i in row["rel_fl"]]),
                        cstr(ans)))
    return "(AS {| sc_world := %s; sc_noobj := %s; sc_atoms := %s; sc_fluents := %s; sc_grid := %s; sc_rows := %s |})" % (
        w, cbool(job.get("noobj", False)), clist([catom(p, a) for p, a in job["atoms"]]), clist([catom(f, a) for f, a in job["fluents"]]),
        clist([chex(float.fromhex(g)) for g in job["grid"]]), clist(rows))


def single_probe_world(job, row, meta, n):
    """the same probe as a one-action world (the replay format of the world stream)"""
    st = decode_state(job, row, n)
    head = job["domain_text"].split("\n")[0]
    act = [l for l in job["domain_text"].split("\n")[1:] if l.startswith("(:action %s " % row["action"])][0]
    ptxt = ("(define (problem prob) (:domain dom) (:objects %s) (:init %s %s) (:goal (and)))" % (
        " ".join("%s - %s" % (a, b) for a, b in job["objects"]),
        " ".join("(= (%s) %r)" % (" ".join([f] + a), v) for f, a, v in st["fluents"]),
        " ".join("(%s)" % " ".join([p] + a) for p, a in st["facts"])))
    return {"domain_text": head + "\n" + act + ")",
            "objects": job["objects"], "oof": False, "oof_kind": None, "features": ["scope:" + meta["family"]],
            "noobj": bool(job.get("noobj")),
            "probes": [{"action": row["action"], "args": row["args"], "state": st, "problem_text": ptxt, "perm_seed": 0,
                        "nwhen": 0, "nuniv": 0}]}


# ------------------------------------------------------------------------------------------------ world stream
def corpus_worlds():
    out = []
    for f in load_findings(PROP):
        w = f.get("witness")
        if not w or "domain_text" not in w:
            continue
        out.append({"domain_text": w["domain_text"], "objects": w.get("objects", []), "oof": w.get("oof", False),
                    "oof_kind": w.get("oof_kind"), "probes": w.get("probes", []), "features": ["corpus:" + f["id"]],
                    "witness_of": f["id"] if f.get("status") == "open" else None, "tree": None,
                    "keyed": bool(w.get("keyed"))})
    return out


def gen_world_t(rng, max_actions=2):
    """pddlgen's gen_world, plus (in half of the worlds) a ternary predicate so that argument POSITIONS beyond the second matter"""
    w = G.World()
    G.gen_types(rng, w, max_types=4)
    G.gen_vocab(rng, w)
    if rng.random() < 0.5:
        ts = w.all_types()
        w.preds.append(("p9", [("?a%d" % k, rng.choice(ts)) for k in range(3)]))
        w.features.add("ternary-predicate")
    for i in range(rng.randint(1, max_actions)):
        a = G.gen_action(rng, w, i)
        if rng.random() < 0.25:
            plant_forall(rng, w, a)
        nest_foralls(rng, w, a)
        shadow_foralls(rng, w, a)
        w.actions.append(a)
    constant_of_quantified_type(rng, w)
    return w


def rename_tree(t, old, new):
    if isinstance(t, str):
        return new if t == old else t
    return [rename_tree(x, old, new) for x in t]


def shadow_foralls(rng, w, a):
    """round 3 (seeded/C02_A): the variable of a universal CONDITION gets the name of a (new) parameter of the action, so that the
    quantifier shadows the parameter: inside the body the name is the bound variable, whatever the call binds the parameter to"""
    def visit(t):
        if isinstance(t, list) and t and t[0] == "forall" and len(t) == 3 and isinstance(t[2], list) and t[2] and t[2][0] != "when":
            if rng.random() < 0.7:
                newp = "?s%d" % len(a["params"])
                a["params"] = a["params"] + [(newp, rng.choice(["object", "object", rng.choice(w.all_types())]))]
                w.features.add("forall-shadows-parameter")
                return ["forall", [newp, "-", t[1][2]], rename_tree(t[2], t[1][0], newp)]
            return t
        if isinstance(t, list):
            return [visit(x) for x in t]
        return t
    a["pre"] = visit(a["pre"])
    a["eff"] = visit(a["eff"])


def quantified_types(t, acc):
    if isinstance(t, list):
        if t and t[0] == "forall" and len(t) == 3 and isinstance(t[1], list) and len(t[1]) == 3:
            acc.add(t[1][2])
        for x in t:
            quantified_types(x, acc)
    return acc


def plant_forall(rng, w, a):
    """one more universal conjunct (pddlgen makes them in about a fifth of the worlds)"""
    ty = rng.choice(w.all_types())
    v = "?qa"
    body = [x for x in (G.gen_form(rng, w, list(a["params"]) + [(v, ty)], 1, True, True) for _ in range(rng.randint(1, 2))) if x]
    if not body:
        return
    pre = a["pre"]
    if not (isinstance(pre, list) and pre and pre[0] == "and"):
        pre = ["and"] + ([pre] if pre else [])
    a["pre"] = pre + [["forall", [v, "-", ty], [rng.choice(["and", "or"])] + body]]
    w.features.add("forall-pre")


def constant_of_quantified_type(rng, w):
    """round 3 (D30 = 77a5e53): quantified conditions and effects range over the domain's CONSTANTS too; make sure that most worlds
    with a quantifier have a constant its type admits"""
    qts = set()
    for a in w.actions:
        quantified_types(a["pre"], qts)
        quantified_types(a["eff"], qts)
    if not qts:
        return
    if not any(w.is_sub(ct, qt) for _, ct in w.consts for qt in qts) and rng.random() < 0.75:
        qt = rng.choice(sorted(qts))
        w.consts.append(("cq%d" % len(w.consts), rng.choice([t for t in w.all_types() if w.is_sub(t, qt)])))
    if any(w.is_sub(ct, qt) for _, ct in w.consts for qt in qts):
        w.features.add("constant-of-quantified-type")


def nest_foralls(rng, w, a):
    """wave 3 (the class seeded/C02_A and seeded/C03_F share): a universal condition nested in a universal condition -- with another
    variable, or with the SAME variable name again (the inner quantifier shadows the outer one); shadow_foralls (called afterwards)
    may rename either to a parameter of the action"""
    def visit(t, depth):
        if isinstance(t, list) and t and t[0] == "forall" and len(t) == 3 and isinstance(t[2], list) and t[2] and t[2][0] in ("and", "or"):
            v, ty = t[1][0], t[1][2]
            body = [t[2][0]] + [visit(x, depth + 1) for x in t[2][1:]]
            if depth == 0 and rng.random() < 0.5:
                same = rng.random() < 0.5
                v2 = v if same else "?qn"
                ty2 = rng.choice(w.all_types())
                scope = list(a["params"]) + ([] if same else [(v, ty)]) + [(v2, ty2)]
                inner = [x for x in (G.gen_form(rng, w, scope, 1, True, True) for _ in range(rng.randint(1, 2))) if x]
                if inner:
                    body.insert(rng.randrange(1, len(body) + 1), ["forall", [v2, "-", ty2], [rng.choice(["and", "or"])] + inner])
                    w.features.add("forall-in-forall-same-variable" if same else "forall-in-forall")
            return ["forall", t[1], body]
        if isinstance(t, list):
            return [visit(x, depth) for x in t]
        return t
    a["pre"] = visit(a["pre"], 0)


BOUNDARY_MODES = ["empty+const", "empty+const", "empty-noconst", "one-object-of-type", "one-object-other", "constants-only", "uninhabited",
                  "object+constant"]


def gen_boundary_world(rng):
    """wave 3 (seeded/C02_E): BOUNDARY OBJECT TABLES.  A fresh leaf type tq whose inhabitants the generator controls, a predicate
    (pb ?a - tq), universal preconditions over tq (plain, below an or, nested in / around another quantifier, the same variable twice) and a
    forall-when effect over tq; then the object table: EMPTY with / without a constant of tq, ONE object (of tq / of another type), tq
    inhabited by constants only, tq without any inhabitant (every forall over it is vacuously true), an object and a constant.  Calls bind
    constants where there is no object (a constant is added for every parameter type that would have no inhabitant)."""
    w = G.World()
    G.gen_types(rng, w, max_types=3)
    G.gen_vocab(rng, w)
    actions = [G.gen_action(rng, w, i) for i in range(rng.randint(1, 2))]     # before tq exists: nothing else mentions it
    parent = rng.choice(w.all_types())
    w.types["tq"] = parent
    n = len(w.type_lines) - (1 if w.type_lines and w.type_lines[-1][1] is None else 0)
    w.type_lines.insert(rng.randrange(n + 1), (["tq"], parent))
    w.preds.append(("pb", [("?a0", "tq")]))
    mode = rng.choice(BOUNDARY_MODES)
    w.features.add("boundary:" + mode)
    for i, a in enumerate(actions):
        if i and rng.random() < 0.3:
            w.actions.append(a)
            continue
        v = "?qb"

        def body(var, scope_extra):
            items = [rng.choice([["pb", var], ["pb", var], ["not", ["pb", var]]])]
            extra = G.gen_form(rng, w, list(a["params"]) + scope_extra + [(var, "tq")], 1, True, True)
            if extra and rng.random() < 0.5:
                items.append(extra)
            rng.shuffle(items)
            return [rng.choice(["and", "and", "or"])] + items
        shape = rng.choice(["plain", "plain", "in-or", "outer", "inner", "same-name"])
        if shape in ("plain", "in-or"):
            q = ["forall", [v, "-", "tq"], body(v, [])]
            if shape == "in-or":
                other = G.gen_form(rng, w, list(a["params"]), 0, True, True)
                q = ["or", q] + ([other] if other else [])
        elif shape == "outer":       # tq outside, another type inside
            ty2 = rng.choice(w.all_types())
            inner = G.gen_form(rng, w, list(a["params"]) + [(v, "tq"), ("?qc", ty2)], 1, True, True)
            q = ["forall", [v, "-", "tq"], ["and", ["forall", ["?qc", "-", ty2], ["or"] + ([inner] if inner else []) + [["pb", v]]]]]
        elif shape == "inner":       # another type outside, tq inside
            ty2 = rng.choice(w.all_types())
            q = ["forall", ["?qc", "-", ty2], ["and", ["forall", [v, "-", "tq"], body(v, [("?qc", ty2)])]]]
        else:                        # the same variable name twice: tq inside another quantifier that binds the same name
            ty2 = rng.choice(w.all_types())
            outer_lit = G.gen_form(rng, w, list(a["params"]) + [(v, ty2)], 0, True, True)
            q = ["forall", [v, "-", ty2], [rng.choice(["and", "or"])] + ([outer_lit] if outer_lit else []) + [["forall", [v, "-", "tq"], body(v, [])]]]
            w.features.add("forall-in-forall-same-variable")
        w.features.add("boundary-shape:" + shape)
        pre = a["pre"]
        if not (isinstance(pre, list) and pre and pre[0] == "and"):
            pre = ["and"] + ([pre] if pre else [])
        a["pre"] = pre + [q]
        if rng.random() < 0.5:
            e = ["not", ["pb", "?ub"]] if rng.random() < 0.5 else ["pb", "?ub"]
            c = ["pb", "?ub"] if e[0] == "not" else ["not", ["pb", "?ub"]]
            a["eff"] = a["eff"] + [["forall", ["?ub", "-", "tq"], ["when", c, e]]]
            w.features.add("forall-when")
        w.features.add("forall-pre")
        shadow_foralls(rng, w, a)
        w.actions.append(a)
    others = [t for t in w.all_types() if t != "tq"]
    if mode.startswith("empty"):
        objs = []
    elif mode == "one-object-of-type":
        objs = [("o0", "tq")]
    elif mode == "one-object-other":
        objs = [("o0", rng.choice(others))]
    elif mode == "object+constant":
        objs = [("o0", "tq")] + [("o%d" % i, rng.choice(w.all_types())) for i in range(1, rng.randint(1, 3))]
    else:
        objs = [("o%d" % i, rng.choice(others)) for i in range(rng.randint(2, 3))]
    if mode in ("empty+const", "constants-only", "object+constant") or (mode == "one-object-other" and rng.random() < 0.5):
        for i in range(rng.choice([1, 1, 2])):
            w.consts.append(("kq%d" % i, "tq"))
        w.features.add("constant-of-quantified-type")
    universe = list(objs) + list(w.consts)
    for a in w.actions:
        if not any(t == "tq" for _, t in universe):          # tq stays without inhabitant: no parameter may need one
            a["params"] = [(pn, parent if pt == "tq" else pt) for pn, pt in a["params"]]
        for _, pt in a["params"]:
            if not any(w.is_sub(t, pt) for _, t in universe):
                c = ("kp%d" % len(w.consts), pt)
                w.consts.append(c)
                universe.append(c)
    wd = build_world_b(rng, w, n_states=4, calls_per_action=3, objs=objs)
    wd["boundary"] = mode
    return wd


def noobj_copy(wd):
    """the same world and probes, answered by Operators built with problem_objects=None (judged by Corr.C02.judge_noobj_world)"""
    out = dict(wd)
    out["noobj"] = True
    out["features"] = sorted(set(wd["features"]) | {"operator-without-object-table"})
    return out


def run_worlds_c02(worlds, hashseed=0):
    jobs = [{"op": "c02.world_noobj" if wd.get("noobj") else "core.world", "domain_text": wd["domain_text"], "objects": wd["objects"],
             "probes": [{k: p[k] for k in ("action", "args", "problem_text", "perm_seed")} for p in wd["probes"]]}
            for wd in worlds]
    return run_impl(jobs, hashseed=hashseed)


def build_sequence_b(rng, nrounds):
    """wave 3 (seeded/C20_E, the half that changes applicability): ONE parsed domain whose Action objects are edited in place through the
    library's own API between applicability queries (c20.gen_sequence: add / remove precondition literals, groups and numeric conditions,
    effects, change_signature and back); every answer is judged against the schema re-dumped from the live Action objects at that moment (ops_c20.dump_action)"""
    from . import c20
    for _ in range(50):
        w = gen_world_t(rng, max_actions=2)
        if any(c20.has_empty_forall(a["pre"]) or c20.has_empty_forall(a["eff"]) for a in w.actions):
            continue
        for a in w.actions:                  # a weak precondition to start from in 40% of the actions: then every added condition decides
            if rng.random() < 0.4:
                keep = [x for x in a["pre"][1:]] if isinstance(a["pre"], list) and a["pre"] and a["pre"][0] == "and" else []
                a["pre"] = ["and"] + (rng.sample(keep, 1) if keep and rng.random() < 0.5 else [])
        objs = G.gen_objects(rng, w)
        states = [G.gen_state(rng, w, objs, density=rng.choice([0.5, 0.8])) for _ in range(3)]
        steps = c20.gen_sequence(rng, w, objs, nrounds, kind="app", nstates=len(states))
        if steps is None:
            continue
        w.features.add("sequence")
        return {"domain_text": G.render(w.domain_tree("dom"), rng, True), "header_text": c20.header_text(w, rng),
                "problem_text": c20.objects_problem(objs), "objects": [list(o) for o in objs],
                "states": [G.problem_text(w, objs, st) for st in states], "state_values": states, "steps": steps,
                "features": sorted(w.features)}
    raise RuntimeError("no world with a callable action in 50 attempts")


def sequence_worlds_b(seq, res):
    """per epoch (the domain as re-dumped after an edit) one world whose probes are the applicability queries made in that epoch"""
    if "epochs" not in res:
        raise RuntimeError("the implementation rejected a generated sequence world: %r\n%s" % (
            {k: res.get(k) for k in ("parse_raised", "problem_raised", "raised", "msg")}, seq["domain_text"]))
    per, edits = {}, []
    for k, (st, r) in enumerate(zip(seq["steps"], res["steps"])):
        if st["kind"] == "edit":
            edits.append((st["edit"], "raised:" + r["edit_raised"]["raised"] if "edit_raised" in r else bool(r.get("done"))))
            continue
        per.setdefault(r["epoch"], []).append((k, st, r))
    worlds, results = [], []
    for e in sorted(per):
        ep = res["epochs"][e]
        probes = [{"action": st["action"], "args": st["args"], "state": seq["state_values"][st["state"]],
                   "problem_text": seq["states"][st["state"]], "perm_seed": 0, "nwhen": 0, "nuniv": 0,
                   "mode": st.get("mode"), "step": k, "epoch": e, "reused": bool(r.get("reused"))} for k, st, r in per[e]]
        worlds.append({"domain_text": ep["text"], "objects": seq["objects"], "oof": False, "oof_kind": None, "probes": probes,
                       "features": seq["features"], "tree": None, "sequence": seq})
        results.append({"nums": ep["nums"], "vocab": ep["vocab"],
                        "probes": [{"app": r["app"], "succ": {"raised": "not-observed"}} for _, _, r in per[e]]})
    return worlds, results, edits


def near_boundary_state(rng, st):
    """move every fluent next to one of the numerals the generated domains compare with: 0 .. 2 tolerances away (either side),
    or exactly one tolerance away give or take an ulp"""
    fl = []
    for f, a, v in st["fluents"]:
        c = float(rng.choice(G.DOMAIN_NUMERALS + ["0.001", "100", "1000"]))
        fl.append((f, a, rng.choice(boundary_values(c))))
    return {"facts": st["facts"], "fluents": fl}


def build_world_b(rng, w, n_states, calls_per_action, name="dom", objs=None):
    """core_common.build_world with one addition: every other state has its fluents moved to the tolerance boundary.
    wave 3: one world in six has an object table of size 0 or 1 (calls then bind constants, or the action has no parameter)"""
    if objs is None:
        r = rng.random()
        objs = [] if r < 0.08 else G.gen_objects(rng, w, n=1) if r < 0.16 else G.gen_objects(rng, w)
        if len(objs) < 2:
            w.features.add("object-table-of-size-%d" % len(objs))
    text = G.render(w.domain_tree(name), rng, True)
    probes = []
    for k in range(n_states):
        st = G.gen_state(rng, w, objs)
        if k % 2 == 1 and st["fluents"]:
            st = near_boundary_state(rng, st)
            w.features.add("boundary-fluents")
        ptxt = G.problem_text(w, objs, st, domain=name)
        for a in w.actions:
            nwhen, nuniv = count_groups(a)
            for args in G.calls_for(rng, w, objs, a, limit=calls_per_action):
                probes.append({"action": a["name"], "args": args, "state": st, "problem_text": ptxt,
                               "perm_seed": 0, "nwhen": nwhen, "nuniv": nuniv})
    return {"domain_text": text, "objects": objs, "oof": w.oof, "oof_kind": w.oof_kind, "probes": probes,
            "features": sorted(w.features), "tree": w.domain_tree(name)}


def build_alias_b(rng, n_states, calls_per_action):
    """round 3 (seeded/C20_C, the half that changes applicability): c20's worlds in which two different schema literals ground to the
    same atom (one object bound to two parameters of related types, or to a parameter and written as a constant), at the top level and
    inside nested groups; with states"""
    from . import c20
    aw, plans = c20.gen_alias_world(rng)
    constant_of_quantified_type(rng, aw)
    wd = c20.build_alias(rng, aw, plans, calls_per_action, noise=True)
    objs = [tuple(o) for o in wd["objects"]]
    by_action = {a["name"]: a for a in aw.actions}
    probes = []
    for k in range(n_states):
        st = G.gen_state(rng, aw, objs, density=rng.choice([0.5, 0.8]))
        ptxt = G.problem_text(aw, objs, st, domain="dom")
        for pr in wd["probes"]:
            nwhen, nuniv = count_groups(by_action[pr["action"]])
            probes.append({"action": pr["action"], "args": pr["args"], "state": st, "problem_text": ptxt,
                           "perm_seed": 0, "nwhen": nwhen, "nuniv": nuniv})
    return {"domain_text": wd["domain_text"], "objects": objs, "oof": False, "oof_kind": None, "probes": probes,
            "features": sorted(aw.features), "tree": aw.domain_tree("dom")}


def walk_apps(t, f):
    if isinstance(t, list):
        if t and t[0] == f:
            yield t
        else:
            for x in t:
                yield from walk_apps(x, f)


def gen_keyed_world(rng, n_states=2, calls=6):
    """round 3 (requests/C02.md R2, finding D07): a function of arity 3 (and one of arity 2) applied to distinct parameters /
    constants in comparisons of the precondition; calls over a 2-3 element universe of one type, so that most calls repeat an object;
    states give every ground fluent its own random value.  The library keys a grounded fluent by its name and the FIRST OCCURRENCES
    of its arguments: with repeated objects different fluents of arity 3 share a key."""
    w = G.World()
    G.gen_types(rng, w, max_types=2)
    G.gen_vocab(rng, w)
    ts = w.all_types()
    T = rng.choice(ts)
    subs = [t for t in ts if w.is_sub(t, T)]
    a = G.gen_action(rng, w, 0)                          # before k3 / g2 exist: the base action does not use them
    w.funcs.append(("k3", [("?a%d" % i, T) for i in range(3)]))
    w.funcs.append(("g2", [("?a0", T), ("?a1", T)]))
    a["eff"] = ["and"] + [e for e in a["eff"][1:] if not (isinstance(e, list) and e and e[0] in ("when", "forall"))]
    extra = [("?v%d" % i, rng.choice(subs)) for i in range(3)]
    a["params"] = a["params"] + extra
    vs = [v for v, _ in extra] + [c for c, t in w.consts if w.is_sub(t, T)]

    def app(f, n):
        return [f] + rng.sample(vs, n)
    conds = []
    # wave 3: in a third of these worlds the conditions read the BINARY function only -- no key collision is possible there
    # (C02_keyed_small_arity), so with a repeated object (g2 o1 o1) the answer must simply be right (outside the class of D07)
    binary_only = rng.random() < 0.34
    for _ in range(rng.randint(1, 3)):
        kind = rng.randrange(4)
        op = rng.choice([">=", "<=", "<", ">"])
        if binary_only:
            w.features.add("binary-function-only")
            if kind < 2:
                conds.append([op, app("g2", 2), rng.choice(["1", "2", "3"])])
            elif kind == 2:
                conds.append([op, ["+", app("g2", 2), app("g2", 2)], rng.choice(["2", "4", "6"])])
            else:
                conds.append(["or", [op, app("g2", 2), "2"], [rng.choice([">=", "<"]), app("g2", 2), "4"]])
        elif kind == 0:
            conds.append([op, app("k3", 3), rng.choice(["1", "2", "3"])])
        elif kind == 1:
            conds.append([op, app("g2", 2), app("k3", 3)])
        elif kind == 2:
            conds.append([op, ["+", app("k3", 3), app("k3", 3)], rng.choice(["2", "4"])])
        else:
            conds.append(["or", [op, app("k3", 3), "2"], [rng.choice([">=", "<"]), app("g2", 2), "1"]])
    pre = a["pre"] if rng.random() < 0.4 else ["and"]
    if not (isinstance(pre, list) and pre and pre[0] == "and"):
        pre = ["and"] + ([pre] if pre else [])
    a["pre"] = pre + conds
    w.actions.append(a)
    w.features.add("function-of-arity-3")
    objs = [("o%d" % i, rng.choice(subs)) for i in range(2)] + ([("o2", rng.choice(ts))] if rng.random() < 0.4 else [])
    text = G.render(w.domain_tree("dom"), rng, True)
    universe = list(objs) + list(w.consts)
    pools = [[o for o, t in universe if w.is_sub(t, pt)] for _, pt in a["params"]]
    probes = []
    if all(pools):
        combos = [list(c) for c in itertools.product(*pools)]
        rng.shuffle(combos)
        n3 = len(a["params"]) - 3
        rep = [c for c in combos if len(set(c[n3:])) < 3]
        if binary_only:          # the two arguments of some (g2 ..) application bound to one object
            pairs = [(x[1], x[2]) for cnd in conds for x in walk_apps(cnd, "g2")]
            names = [pn for pn, _ in a["params"]]
            rep2 = [c for c in combos if any(u in names and v in names and c[names.index(u)] == c[names.index(v)] for u, v in pairs)]
            rep = rep2 + [c for c in rep if c not in rep2]
        chosen = rep[:max(1, (2 * calls) // 3)]
        chosen += [c for c in combos if c not in chosen][:calls - len(chosen)]
        nwhen, nuniv = count_groups(a)
        for _ in range(n_states):
            st = G.gen_state(rng, w, objs)
            st["fluents"] = [(f, args, float(rng.choice([0, 1, 2, 3, 4, 5]))) for f, args, _ in st["fluents"]]
            rng.shuffle(st["fluents"])
            ptxt = G.problem_text(w, objs, st, domain="dom")
            for args in chosen:
                probes.append({"action": a["name"], "args": args, "state": st, "problem_text": ptxt, "perm_seed": 0,
                               "nwhen": nwhen, "nuniv": nuniv})
    return {"domain_text": text, "objects": objs, "oof": False, "oof_kind": None, "probes": probes,
            "features": sorted(w.features), "tree": w.domain_tree("dom"), "keyed": True}


def generated_worlds(rng, tier):
    worlds = []
    for _ in range({"quick": 60, "thorough": 600}[tier]):
        w = gen_world_t(rng, max_actions=2)
        worlds.append(build_world_b(rng, w, n_states=4, calls_per_action=4))
    for _ in range({"quick": 14, "thorough": 100}[tier]):
        worlds.append(build_alias_b(rng, n_states=3, calls_per_action=4))
    for _ in range({"quick": 8, "thorough": 60}[tier]):
        worlds.append(gen_keyed_world(rng))
    for _ in range({"quick": 20, "thorough": 120}[tier]):
        worlds.append(gen_boundary_world(rng))
    # the same probes through Operators built without an object table: worlds with a universal precondition first
    usable = [wd for wd in worlds if not wd.get("keyed") and wd["probes"]]
    with_q = [wd for wd in usable if "forall-pre" in wd["features"]]
    streams = [[wd for wd in with_q if wd.get("boundary")], [wd for wd in with_q if not wd.get("boundary")],
               [wd for wd in usable if "forall-pre" not in wd["features"]]]
    cands = []
    for i in range(max(len(x) for x in streams)):        # two with a universal precondition (boundary table / ordinary), then one without
        cands += [x[i] for x in streams[:2] if i < len(x)] + ([streams[2][i // 2]] if i % 2 == 0 and i // 2 < len(streams[2]) else [])
    worlds += [noobj_copy(wd) for wd in cands[:{"quick": 12, "thorough": 80}[tier]]]
    return worlds


def fixture_worlds(rng, tier, only=None):
    """applicability on shipped domain/problem pairs: the initial state and perturbations of it"""
    from .c20 import FIXTURES
    pairs = FIXTURES if tier == "thorough" else rng.sample(FIXTURES, 6)
    jobs = [{"op": "c20.fixture", "domain": d, "problem": p, "seed": rng.randrange(10 ** 6), "ncalls": 5 if tier == "thorough" else 3,
             "nstates": 3 if tier == "thorough" else 2, "want": "app"} for d, p in pairs]
    if only is not None:
        pairs = [tuple(only["fixture"])]
        jobs = [{"op": "c20.fixture", "domain": pairs[0][0], "problem": pairs[0][1], "seed": only["seed"], "calls": only["calls"],
                 "nstates": only["nstates"], "want": "app"}]
    worlds, results = [], []
    for job, (d, p), r in zip(jobs, pairs, run_impl(jobs, nproc=min(8, len(jobs)))):
        if "probes" not in r:
            raise RuntimeError("fixture %s / %s is no longer readable by the implementation: %r" % (d, p, r.get("parse_raised")))
        states = r["states"] if len(r["states"][0]["facts"]) <= 80 else r["states"][:1]
        probes, answers = [], []
        for q in r["probes"]:
            for si, st in enumerate(states):
                probes.append({"action": q["action"], "args": q["args"], "state": st, "nwhen": 0, "nuniv": 0,
                               "fixture": {"fixture": [d, p], "seed": job["seed"], "nstates": job["nstates"], "state_index": si,
                                           "calls": [{"action": q["action"], "args": q["args"]}]}})
                answers.append({"app": q["apps"][si], "succ": {"raised": "not-observed"}})
        worlds.append({"domain_text": r["domain_text"], "objects": r["objects"], "oof": False, "oof_kind": None,
                       "probes": probes, "features": ["fixture:" + d], "fixture": [d, p]})
        results.append({"nums": r["nums"], "vocab": r["vocab"], "probes": answers})
    return worlds, results


def connectives(text):
    return sum(text.count(k) for k in ("(and", "(or", "(not", "(forall"))


# ------------------------------------------------------------------------------------------------ the check
def run(args):
    import time
    phases, t0 = {}, [time.time()]

    def phase(name):
        phases[name] = round(phases.get(name, 0.0) + time.time() - t0[0], 1)
        t0[0] = time.time()
    rep = Report(PROP, args.tier, args.seed)
    standard_proof_part(rep, PROP)
    phase("proofs")
    rng = random.Random(args.seed * 104729 + 2)
    cfg = run_impl([{"op": "core.numeric_config"}], nproc=1)[0]
    fixture_only = None
    seqs = []
    if args.replay:
        data = json.load(open(args.replay))
        wd = data["input"]["world"]
        if wd.get("fixture"):
            fixture_only = dict(wd["probes"][0]["fixture"])
            worlds, jobs, exhaustive = [], [], {}
        elif wd.get("sequence"):
            seqs, worlds, jobs, exhaustive = [wd["sequence"]], [], [], {}
        else:
            worlds, jobs, exhaustive = [wd], [], {}
    else:
        worlds = corpus_worlds() + generated_worlds(rng, args.tier)
        jobs, exhaustive = scope_jobs(rng, args.tier)
        seqs = [build_sequence_b(rng, rng.randint(3, 6)) for _ in range({"quick": 16, "thorough": 60}[args.tier])]
    hashseeds = [0] if args.tier == "quick" else [0, 1, 2]

    stats = {"worlds": 0, "world_probes": 0, "world_app_true": 0, "world_app_false": 0, "world_app_raised": 0,
             "features": {}, "scope_probes": 0, "scope_true": 0, "scope_false": 0, "scope_raised": 0,
             "scope_formulas": {}, "scope_rows": 0, "scope_rows_capped": 0, "scope_by_size": {},
             "formulas_with_both_truth_values": 0, "formulas_total": 0, "boundary_probes": {},
             "sequence_worlds": 0, "sequence_queries": 0, "sequence_queries_same_operator_object": 0, "sequence_edits_done": {},
             "sequence_edits_without_effect": {}, "sequence_edits_that_raised": {}, "sequence_repeated_queries": 0, "sequence_repeated_queries_whose_answer_changed": 0}
    # Everything is evaluated in chunks and only what the decision rule needs is kept (failing cases, counts, hashes of the
    # non-trivial inputs): a thorough run has several hundred thousand probes.
    acc = {"failing": [], "verdicts": "", "passed": 0, "nontrivial": set(), "nontrivial_scope": 0,
           "info": {"shards": 0, "shard_errors": [], "cmd": ""}, "sample": None}

    def evaluate(lits, units):
        v, info = run_case_shards(PROP, "Corr.C02", lits, shard_size=8, run_fn="run_any", units=units,
                                  header_extra=HEADER, max_bytes=90_000)
        acc["info"]["shards"] += info["shards"]
        acc["info"]["shard_errors"] += info["shard_errors"]
        acc["info"]["cmd"] = info["cmd"]
        return v

    def record(case_fn, ch, nontrivial, key):
        """one verdict of this property: count it, remember its hash when non-trivial, materialise it when it is not '.'"""
        if nontrivial:
            acc["nontrivial"].add(case_hash(key))
        if ch == ".":
            acc["passed"] += 1
        else:
            acc["failing"].append(case_fn())
            acc["verdicts"] += ch

    # ---- worlds (every hash seed: the library's sets are hash-ordered), then the shipped fixtures (one hash seed)
    def world_stream(hs, ws, results, count):
        for start in range(0, len(ws), 320):
            chunk = list(zip(ws[start:start + 320], results[start:start + 320]))
            lits, units = [], []
            for wd, res in chunk:
                lit, u = world_literal(wd, res, STATED_EPS.hex())
                lits.append("(%s %s)" % ("AK" if wd.get("keyed") else "AN" if wd.get("noobj") else "AW", lit))
                units.append(u)
            verdicts = evaluate(lits, units)
            pos = 0
            for (wd, res), lit, u in zip(chunk, lits, units):
                vs = verdicts[pos:pos + u]
                pos += u
                if "vocab" in res:
                    for pi, (pr, r) in enumerate(zip(wd["probes"], res["probes"])):
                        ch = vs[1 + 2 * pi]                   # unit order: parse, then (app, succ) per probe

                        def mk(wd=wd, pr=pr, r=r, lit=lit):
                            inp = {"world": {kk: (wd[kk] if not (kk == "domain_text" and wd.get("fixture")) else None)
                                             for kk in ("domain_text", "objects", "oof", "oof_kind", "features")},
                                   "hashseed": hs, "implementation": r.get("app", r)}
                            inp["world"]["keyed"] = bool(wd.get("keyed"))
                            inp["world"]["noobj"] = bool(wd.get("noobj"))
                            inp["world"]["sequence"] = wd.get("sequence")
                            inp["world"]["fixture"] = wd.get("fixture")
                            inp["world"]["probes"] = [pr]
                            return {"lit": lit, "input": inp, "nontrivial": True, "witness_of": wd.get("witness_of"),
                                    "klass": "D07" if wd.get("keyed") else None}
                        nontrivial = (connectives(wd["domain_text"]) >= 2 or bool(wd.get("fixture"))) and len(pr["state"]["facts"]) > 0
                        record(mk, ch, nontrivial, [wd["domain_text"], pr["action"], pr["args"], pr["state"], hs])
                        if acc["sample"] is None:
                            acc["sample"] = wd["domain_text"][:300]
                        if count:
                            stats["world_probes"] += 1
                            a = r.get("app", {})
                            stats["world_app_true" if a.get("value") is True else
                                  "world_app_false" if a.get("value") is False else "world_app_raised"] += 1
                            if wd.get("boundary") or wd.get("noobj") or len(wd["objects"]) < 2:
                                key = ("no-object-table:" if wd.get("noobj") else "") + (wd.get("boundary") or "table-of-size-%d" % len(wd["objects"]))
                                row = stats["boundary_probes"].setdefault(key, {"true": 0, "false": 0, "raised": 0})
                                row["true" if a.get("value") is True else "false" if a.get("value") is False else "raised"] += 1
                if count:
                    stats["worlds"] += 1
                    for f in wd["features"]:
                        stats["features"][f] = stats["features"].get(f, 0) + 1

    phase("generation")
    fw, fr = [], []
    if fixture_only is not None or not args.replay:
        fw, fr = fixture_worlds(rng, args.tier, fixture_only)
        if fixture_only is not None:       # the replayed probe is one state of one call
            k = fixture_only["state_index"]
            fw[0]["probes"], fr[0]["probes"] = fw[0]["probes"][k:k + 1], fr[0]["probes"][k:k + 1]
        stats["fixtures"] = len(fw)
    phase("fixtures (implementation)")
    for si, hs in enumerate(hashseeds):
        # every hash seed: corpus, ordinary and alias worlds (the library's sets are hash-ordered); first hash seed only (budget): the
        # keyed, boundary and no-object-table worlds, the sequences and the fixtures
        worlds_hs = worlds if si == 0 else [wd for wd in worlds if not (wd.get("keyed") or wd.get("boundary") or wd.get("noobj"))]
        results_w = run_worlds_c02(worlds_hs, hashseed=hs)
        sw, sr = [], []
        if seqs and si == 0:                 # the sequences run under the first hash seed only (budget)
            jobs_q = [dict({k: v for k, v in q.items() if k != "state_values"}, op="c20.sequence") for q in seqs]
            for seq, res in zip(seqs, run_impl(jobs_q, hashseed=hs)):
                ws1, rs1, edits = sequence_worlds_b(seq, res)
                sw += ws1
                sr += rs1
                if si == 0:
                    stats["sequence_worlds"] += 1
                    for kind, done in edits:
                        row = stats["sequence_edits_that_raised" if isinstance(done, str) else
                                    "sequence_edits_done" if done else "sequence_edits_without_effect"]
                        row[kind] = row.get(kind, 0) + 1
                    last = {}
                    for wd1, r1 in zip(ws1, rs1):
                        for pr, ob in zip(wd1["probes"], r1["probes"]):
                            stats["sequence_queries"] += 1
                            stats["sequence_queries_same_operator_object"] += 1 if pr["reused"] else 0
                            key = json.dumps([pr["action"], pr["args"], pr["state"]], sort_keys=True)
                            if key in last and last[key][0] != pr["epoch"]:
                                stats["sequence_repeated_queries"] += 1
                                stats["sequence_repeated_queries_whose_answer_changed"] += 1 if last[key][1] != ob["app"] else 0
                            last[key] = (pr["epoch"], ob["app"])
        phase("worlds and sequences (implementation)")
        # one stream: generated worlds, the epochs of the sequences and (first hash seed) the shipped fixtures
        world_stream(hs, worlds_hs + sw + (fw if si == 0 else []), results_w + sr + (fr if si == 0 else []), si == 0)
        phase("worlds, sequences, fixtures (Coq)")

    # ---- scope
    if jobs:
        results = run_impl([{k: v for k, v in j.items() if k != "meta"} for j in jobs], hashseed=hashseeds[-1])
        per_formula = {}
        for job, res in zip(jobs, results):
            if "answers" not in res:
                raise RuntimeError("scope job failed on the implementation: %r" % (res,))
            for row, meta, ans in zip(job["rows"], job["meta"], res["answers"]):
                assert len(ans) == n_states(job, row)
                stats["scope_rows"] += 1
                stats["scope_rows_capped"] += 1 if meta["capped"] else 0
                per_formula.setdefault((job["family"], meta["formula"]), set()).update(ans)
                stats["scope_probes"] += len(ans)
                stats["scope_true"] += ans.count("T")
                stats["scope_false"] += ans.count("F")
                stats["scope_raised"] += ans.count("E")
                stats["scope_by_size"][str(meta["size"])] = stats["scope_by_size"].get(str(meta["size"]), 0) + len(ans)
            stats["scope_formulas"][job["family"]] = stats["scope_formulas"].get(job["family"], 0) + \
                len({m["formula"] for m in job["meta"]})
        stats["formulas_total"] = len(per_formula)
        stats["formulas_with_both_truth_values"] = sum(1 for v in per_formula.values() if "T" in v and "F" in v)
        both = {k for k, v in per_formula.items() if "T" in v and "F" in v}
        seen_rows = set()
        for start in range(0, len(jobs), 48):
            chunk = list(zip(jobs[start:start + 48], results[start:start + 48]))
            lits = [scase_literal(job, res, STATED_EPS.hex()) for job, res in chunk]
            units = [sum(len(a) for a in res["answers"]) for _, res in chunk]
            verdicts = evaluate(lits, units)
            pos = 0
            for (job, res), lit in zip(chunk, lits):
                for row, meta, ans in zip(job["rows"], job["meta"], res["answers"]):
                    vs = verdicts[pos:pos + len(ans)]
                    pos += len(ans)
                    nontrivial = connectives(meta["formula"]) >= 2 and (job["family"], meta["formula"]) in both
                    rowkey = (job["family"], meta["formula"], tuple(row["args"]), row["base_facts"], row["base_fl"])
                    if nontrivial and rowkey not in seen_rows:
                        seen_rows.add(rowkey)
                        acc["nontrivial_scope"] += len(ans)
                    acc["passed"] += vs.count(".")
                    for k, ch in enumerate(vs):
                        if ch != ".":
                            acc["failing"].append({"lit": lit, "input": {"scope": job["family"], "formula": meta["formula"],
                                                                         "args": row["args"], "state_index": k, "answer": ans[k],
                                                                         "world": single_probe_world(job, row, meta, k)},
                                                   "nontrivial": nontrivial, "witness_of": None})
                            acc["verdicts"] += ch

    phase("scope")
    decide(rep, PROP, "Corr.C02", acc["failing"], acc["verdicts"], acc["info"], explain_expr="explain_any %s",
           header_extra=HEADER, max_replays=5)
    cov = rep.coverage
    cov["evaluations"] += acc["passed"]
    cov["traces_validated_against_impl"] += acc["passed"]
    cov["verdict_counts"]["."] = cov["verdict_counts"].get(".", 0) + acc["passed"]
    cov["distinct_nontrivial"] = len(acc["nontrivial"]) + acc["nontrivial_scope"]
    cov["input_distribution"] = stats
    cov["phase_seconds"] = phases
    cov["hash_seeds"] = hashseeds
    cov["numeric_config"] = cfg
    cov["stated_epsilon"] = STATED_EPS
    cov["exhaustive"] = bool(exhaustive.get("F2"))
    cov["exhaustive_detail"] = exhaustive
    cov["rule"] = (
        "scope: vocabulary p/1 q/1 r/2 z/0 f/1 h/0 over types u < t; leaves = the 7 atoms over ?x ?y (10 with a constant), their "
        "negations, (= ?x ?y), its negation, 8 comparisons (>=, <, =, > over +, <= over /, < over -, > over *, < over a division by a fluent that can be zero: no value expected), 5 forall leaves (over t and over the "
        "subtype u, and/or bodies); formulas = every leaf, every (and L1 L2) and (and (or L1 L2)) of two distinct leaves [family F2, "
        "thorough: all of them = exhaustive up to size 2; otherwise a seeded sample], plus sampled size-3 shapes (and/or nesting, forall "
        "with a nested or); calls = every pair over the universe (repeats and the constant included); states = every assignment "
        "to the ground atoms of the mentioned predicates and to the mentioned fluents over the grid {0,1} (capped at 64 per call, "
        "32 in quick; capped rows are counted), all other atoms/fluents at a random base value.  Families: F2 (o1-t o2-u), F3const "
        "(+ constant k-u), F3obj (+ o3-t), F2clash (functions named q and z like the predicates), Fbound_m for m in 0.001, 1, 1000 (10 in "
        "thorough): every operator = <= >= < > between (f ?x) and (f ?y), (h), the numeral m, over a grid of values 0 / 0.5 / 0.99 / 1.01 / "
        "1.5 / 2 tolerances away from m and one tolerance away give or take one ulp -- the tolerance is the STATED configuration's (env "
        "EPSILON or 0.0001), not read from the library.  worlds: generated typed domains "
        "(pddlgen) x 4 states (every other one with its fluents moved next to a numeral the domains compare with, at the same distances) x <=4 type-correct calls per action; corpus: witnesses of the C02 findings; fixtures: shipped "
        "domain/problem pairs under <repo>/tests (6 of 17 in quick, all in thorough), calls over the problem's objects (half of them applicable "
        "in the initial state), evaluated in the initial state and in perturbed copies of it.  "
        "Round 3: scope family F2const (universe = object o1 - t + constant k - u; thorough: all leaves and two-leaf formulas, like F2); two forall "
        "leaves whose variable is named like the parameter ?y; in the generated worlds 70% of the universal conditions bind a name that is also a (new) "
        "parameter of the action, a quarter of the actions get one more universal conjunct, and 75% of the worlds with a quantifier but no admissible "
        "constant get a constant of a quantified type (D30; feature constant-of-quantified-type); worlds in which two different schema literals ground to "
        "the same atom (C20's alias worlds, with states); worlds with a function of arity 3 and one of arity 2 in comparisons, calls with repeated objects, "
        "every ground fluent with its own value -- judged against the library's name-keyed view of the state (Model.KeyedState), spec failures there are the "
        "open finding D07.  "
        "Wave 3: BOUNDARY OBJECT TABLES -- scope families F0empty (no object, no constant; actions without parameters, every forall vacuous), F0const / "
        "F0const0 (no object, constant k - u; with two parameters / none), F0const2 (no object, constants k - u and k2 - t), F0constT (no object, one constant of "
        "the upper type: forall over u vacuous), F1t / F1u (one object; type u without / with an inhabitant): thorough = all leaves and all two-leaf formulas x all "
        "calls for F0empty F0const F0const0 F1t F0const0none (sampled two-leaf formulas for the others); F2none / F0constnone / F0const0none: the same universes with Operators "
        "built WITHOUT an object table (problem_objects=None is not the empty table {}: there a universal condition counts as true -- oracle = the precondition with "
        "every forall erased, Corr.C02.erase_forall; model = is_applicable .. None); four more forall leaves in every family: a forall nested in a forall with two "
        "variables, with the SAME variable twice, with the name of the parameter ?y twice, and an inner variable named like ?y.  Generated worlds: 20 (quick) / 120 "
        "(thorough) boundary worlds -- a fresh leaf type tq whose inhabitants the generator controls (none at all / constants only / one object / object and "
        "constant) under an empty, a one-element or an ordinary object table, universal preconditions over tq (plain, below an or, around / inside another "
        "quantifier, the same variable name twice) and a forall-when effect over tq, calls binding constants where there is no object (counted per mode in "
        "boundary_probes); one ordinary world in six has 0 or 1 objects; half of the universal conditions of the ordinary worlds get a nested universal condition "
        "(half of those reuse the variable name); 12 / 80 worlds are answered again by Operators built with problem_objects=None.  PROCESS-LEVEL SEQUENCES "
        "(16 / 60 worlds): one parsed Domain whose Action objects are edited in place through the library's API between applicability queries (add / remove a "
        "precondition literal, a nested group, a numeric condition, effects, change_signature and back; fresh Operator or the same Operator object re-grounded); "
        "every answer is judged against the schema re-dumped from the live Action objects at that moment (counted: sequence_*).  Thorough tier: corpus, "
        "ordinary and alias worlds under three hash seeds; keyed, boundary and no-object-table worlds, sequences and fixtures under the first one.  "
        "A probe is non-trivial when its formula has >= 2 connectives and (scope) the run contains both a true and a false "
        "instance of that formula / (worlds) the state has facts; distinct by input hash.")
    cov["samples"] = [m["formula"] for j in jobs[:2] for m in j["meta"][:2]] + [acc["sample"]]
    rep.assumptions = ["fluent magnitudes below 1e4 (C12 covers the tolerance boundary and infinities)", "ASCII text",
                       "states define every fluent the action reads",
                       "for functions of arity >= 3 called with repeated objects the library's name-keyed fluent keys collide (open finding D07; generated and classified)"]
    return rep.finish()
