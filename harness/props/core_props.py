"""Drivers of the properties decided on generated worlds through Corr.Core: C01 (parsing), C02 (applicability),
C03 (successor).  They share generation and judging; each emphasises its own observable and reports the verdicts of
its own unit kind (parse / app / succ) as the property's verdicts."""
import json
import random

from ..common import (Report, decide, load_findings, run_case_shards, run_impl, standard_proof_part, write_replay,
                      case_hash)
from .. import pddlgen as G
from ..core_common import build_world, flatten_units, run_worlds, world_literal

HEADER = "From Coq Require Import PrimFloat.\nFrom Verif Require Import Spec.Pddl Corr.Core.\n"

KIND_OF = {"C01": ("parse",), "C02": ("app",), "C03": ("succ",)}


def corpus_worlds(prop):
    """hand-written regression worlds: the witnesses of repaired defects (must pass now) and of open findings"""
    out = []
    for f in load_findings(prop):
        w = f.get("witness")
        if not w or "domain_text" not in w:
            continue
        out.append({"domain_text": w["domain_text"], "objects": w.get("objects", []), "oof": w.get("oof", False),
                    "oof_kind": w.get("oof_kind"), "probes": w.get("probes", []), "features": ["corpus:" + f["id"]],
                    "witness_of": f["id"] if f.get("status") == "open" else None, "tree": None})
    return out


def generate(prop, rng, tier):
    worlds = []
    n = {"quick": 70, "thorough": 700}[tier]
    if prop == "C01":
        n_oof = n // 2
        for i in range(n):
            w = G.gen_world(rng, max_actions=3)
            worlds.append(build_world(rng, w, n_states=1, calls_per_action=2, perms=(0,)))
        k = 0
        while k < n_oof:
            w = G.gen_world(rng, max_actions=2)
            if G.plant_oof(rng, w):
                worlds.append(build_world(rng, w, n_states=1, calls_per_action=2, perms=(0,), noise=False))
                k += 1
    elif prop == "C02":
        for i in range(n):
            w = G.gen_world(rng, max_actions=2)
            worlds.append(build_world(rng, w, n_states=3, calls_per_action=5, perms=(0,)))
    else:
        for i in range(n):
            w = G.gen_world(rng, max_actions=2)
            worlds.append(build_world(rng, w, n_states=2, calls_per_action=4, perms=(0, 1, 2)))
    return worlds


def run_prop(prop, args):
    rep = Report(prop, args.tier, args.seed)
    standard_proof_part(rep, prop)
    rng = random.Random(args.seed * 104729 + int(prop[1:]))
    if args.replay:
        data = json.load(open(args.replay))
        worlds = [data["input"]["world"]]
    else:
        worlds = corpus_worlds(prop) + generate(prop, rng, args.tier)
    cfg = run_impl([{"op": "core.numeric_config"}], nproc=1)[0]
    hashseeds = [0] if args.tier == "quick" else [0, 1, 2]
    all_cases, all_verdicts, info_total = [], "", {"shards": 0, "shard_errors": [], "cmd": ""}
    stats = {"worlds": 0, "parsed": 0, "parse_raised": 0, "oof_worlds": 0, "probes": 0, "app_true": 0, "app_false": 0,
             "app_raised": 0, "succ_returned": 0, "succ_refused_or_raised": 0, "features": {}, "oof_kinds": {},
             "forced_orders": 0}
    for hs in hashseeds:
        results = run_worlds(worlds, hashseed=hs)
        lits, units = [], []
        for wd, res in zip(worlds, results):
            lit, u = world_literal(wd, res, cfg["epsilon"])
            lits.append(lit)
            units.append(u)
        verdicts, info = run_case_shards(prop, "Corr.Core", lits, shard_size=6, units=units, header_extra=HEADER,
                                         max_bytes=100_000)
        info_total["shards"] += info["shards"]
        info_total["shard_errors"] += info["shard_errors"]
        info_total["cmd"] = info["cmd"]
        flat = flatten_units(worlds, results)
        for u, ch in zip(flat, verdicts):
            if u["kind"] not in KIND_OF[prop]:
                # units of the other kinds are judged by their own property's check; a failure there still
                # means this world is suspicious, but it is not this property's verdict
                continue
            wd, res = worlds[u["world"]], results[u["world"]]
            inp = {"world": {k: wd[k] for k in ("domain_text", "objects", "oof", "oof_kind", "probes", "features")},
                   "unit": u, "hashseed": hs,
                   "implementation": (res.get("probes", [None] * (u.get("probe", 0) + 1))[u["probe"]] if "probe" in u
                                      else {k: res.get(k) for k in ("vocab", "parse_raised")})}
            if "probe" in u:
                inp["probe"] = wd["probes"][u["probe"]]
                inp["world"] = dict(inp["world"], probes=[wd["probes"][u["probe"]]])
            nontrivial = bool(wd["features"]) and (u["kind"] == "parse" or len(wd["probes"][u["probe"]]["state"]["facts"]) > 0)
            all_cases.append({"lit": lits[u["world"]], "input": inp, "nontrivial": nontrivial,
                              "witness_of": wd.get("witness_of")})
            all_verdicts += ch
        if hs == hashseeds[0]:
            for wd, res in zip(worlds, results):
                stats["worlds"] += 1
                stats["oof_worlds"] += 1 if wd["oof"] else 0
                if wd.get("oof_kind"):
                    stats["oof_kinds"][wd["oof_kind"]] = stats["oof_kinds"].get(wd["oof_kind"], 0) + 1
                for f in wd["features"]:
                    stats["features"][f] = stats["features"].get(f, 0) + 1
                if "vocab" not in res:
                    stats["parse_raised"] += 1
                    continue
                stats["parsed"] += 1
                for pr, r in zip(wd["probes"], res["probes"]):
                    stats["probes"] += 1
                    stats["forced_orders"] += 1 if pr.get("perm_seed") else 0
                    a = r.get("app", {})
                    if "value" in a:
                        stats["app_true" if a["value"] else "app_false"] += 1
                    else:
                        stats["app_raised"] += 1
                    stats["succ_returned" if "value" in r.get("succ", {}) else "succ_refused_or_raised"] += 1
    # the decision rule wants one literal per case; the explain expression re-evaluates the whole world
    decide(rep, prop, "Corr.Core", all_cases, all_verdicts, info_total, explain_expr="explain %s", header_extra=HEADER,
           max_replays=5)
    cov = rep.coverage
    cov["input_distribution"] = stats
    cov["hash_seeds"] = hashseeds
    cov["numeric_config"] = cfg
    cov["exhaustive"] = False
    cov["rule"] = ("generated typed domains (<=4 types in any declaration order, constants, 2-4 predicates, <=3 functions, 1-3 actions with "
                   "and/or/not/=/forall/comparison preconditions and add/del/assign/increase/decrease/when/forall-when effects kept consistent), rendered "
                   "with layout/case/comment noise; 2-3 objects, random states over all type-correct ground atoms and a dyadic fluent grid; type-correct "
                   "calls incl. repeated objects and constants; effect collections visited in forced random orders. "
                   "C01 adds domains with one planted construct outside the supported fragment (expected: faithful or exception). "
                   "A unit is non-trivial when its world uses at least one optional feature and (for probes) the state has facts; distinct by input hash.")
    cov["samples"] = [c["input"]["world"]["domain_text"][:600] for c in all_cases[:2]] + \
                     [{"probe": c["input"].get("probe", {}).get("action"), "args": c["input"].get("probe", {}).get("args")}
                      for c in all_cases[-2:]]
    rep.assumptions = ["fluent magnitudes below 1e4 (the relative term of math.isclose never decides; C12 covers the boundary)",
                       "ASCII text", "states define every fluent; effects consistent (inconsistent probes are skipped by the spec's own test)"]
    return rep.finish()
