"""C19 — planner logs yield exactly the plan's steps, in order."""
import concurrent.futures
import json
import random
import string
import time

from .. import c11_util as U
from ..common import (COQ, REPO, Report, cbool, clist, copt, cstr, decide, load_findings, run_case_shards, run_impl,
                      standard_proof_part, write_replay)

PROP = "C19"
MARKER = "ff: found legal plan as follows"
NAMECH = string.ascii_letters + string.digits + "_-"
SHIPPED_LOG = "tests/exporters_tests/output.out"

# ---------------------------------------------------------------- the log-line grammar (Spec.PlannerLogs.log_line)
REAL_HEADER = [
    "", "ff: parsing domain file", "domain 'DEPOT' defined", " ... done.", "ff: parsing problem file",
    "problem 'DEPOTPROB7512' defined",
    "warning: numeric precondition. turning cost-minimizing relaxed plans OFF.",
    "ff: search configuration is Enforced Hill-Climbing, then A*epsilon with weight 5.",
    "Metric is ((1.00*[RF0](FUEL-COST)) - () + 0.00)",
    "COST MINIMIZATION DONE (WITHOUT cost-minimizing relaxed plans).",
    "Cueing down from goal distance:   18 into depth [1][2]",
    "                                  16            [1][2]",
    "                                   0            ",
]
# lines that do not begin with a step label but look dangerous to a careless pattern
TRICKY = [
    "depth 3: foo", "x1: abc def", "A1: MOVE A B", "task 0: DRIVE TRUCK0 DEPOT0", "level 2: open 7: closed",
    "plan cost 54", "time spent", "DONE", "x y z", "123", "the-end_1 +?", "   ", "step", "step 5", "step: 1",
    "5:abc", "12 : a b", "3 : x", "a\rb", "0.00 seconds total time", "steps 3: a b", "step-1: a", "- 4: q",
    "goal 9: ok\r", ": 1: a", "STEP 1: A B", "Step    0: A", "\x0b 1: a", "1\t: a b",
]
# lines that DO begin with a step label but are not step lines (outside the theorem's grammar; expectation: no step)
NEARMISS = ["  3: (foo)", "step    4: a.b c", "7: ", "8:", "  9: x;y", "step 10: [1][2]", "5: a\rb", "6: a\r\r",
            "step 11: a\x0bb"]
REAL_TRAILER = [
    "plan cost: 54.000000", "", "time spent:    0.00 seconds instantiating 666 easy, 0 hard action templates",
    "               0.00 seconds reachability analysis, yielding 82 facts and 210 actions",
    "               0.00 seconds searching, evaluating 68 states, to a max depth of 3",
    "               0.00 seconds total time", "     ",
]
LAST = ["", "end", "  5: FOO BAR", "plan cost 54", "step    7: A B\r", "0"]
REAL_NAMES = ["DRIVE", "LIFT", "LOAD", "UNLOAD", "DROP", "pick-up", "put_down", "Move", "a", "B2"]
REAL_ARGS = ["TRUCK0", "DEPOT0", "DISTRIBUTOR1", "HOIST2", "CRATE3", "PALLET0", "ball-1", "room_a", "x", "7", "-", "_"]


def rand_word(rng):
    if rng.random() < 0.6:
        return rng.choice(REAL_NAMES + REAL_ARGS)
    return "".join(rng.choice(NAMECH) for _ in range(rng.randint(1, 9)))


def rand_step(rng):
    name = rng.choice(REAL_NAMES) if rng.random() < 0.7 else rand_word(rng)
    return [name] + [rand_word(rng) for _ in range(rng.choice([0, 1, 2, 2, 3, 3, 4, 6]))]


def rand_blanks(rng, lo, hi):
    return "".join(rng.choice(" \t") if rng.random() < 0.3 else " " for _ in range(rng.randint(lo, hi)))


def plan_size(rng, tier):
    r = rng.random()
    if r < 0.04:
        return 0
    if r < 0.55:
        return rng.randint(1, 12)
    if r < 0.86:
        return rng.randint(13, 40)
    if r < 0.94:
        return rng.randint(41, 99)
    return rng.randint(100, 150)


def render_steps(rng, steps, style, crlf):
    """Spec.PlannerLogs.render_step for every step, in one of several layouts."""
    out = []
    start = rng.choice([0, 0, 0, 1, 5, 95, 990]) if style != "ff" else 0
    for i, st in enumerate(steps):
        body = " ".join(st)
        eol = "\r\n" if crlf else "\n"
        if style == "ff":            # Metric-FF: "step %4d: " then "     %4d: "
            line = ("step " if i == 0 else "     ") + "%4d: " % i + body
        elif style == "noprefix":
            line = "%4d: " % (start + i) + body
        elif style == "tight":
            line = "%d: " % (start + i) + body
        elif style == "tabs":
            line = ("step" if i == 0 else "") + "\t%d: " % (start + i) + body
        elif style == "allstep":
            line = "step%s%d: " % (rand_blanks(rng, 0, 4), start + i) + body
        else:                        # random layout per step
            num = str(start + i) if rng.random() < 0.5 else "".join(rng.choice(string.digits) for _ in range(rng.randint(1, 3)))
            line = (("step" if rng.random() < 0.3 else "") + rand_blanks(rng, 0, 9) + num + ": " + rand_blanks(rng, 0, 2)
                    + body + rand_blanks(rng, 0, 3))
            eol = "\r\n" if (crlf or rng.random() < 0.15) else "\n"
        out.append(line + eol)
    return "".join(out)


def rand_lines(rng, pool_real, n_max, tricky_p, crlf):
    n = rng.randint(0, n_max)
    lines = []
    for _ in range(n):
        l = rng.choice(TRICKY) if rng.random() < tricky_p else rng.choice(pool_real)
        lines.append(l + ("\r\n" if crlf else "\n"))
    return lines


def ff_plan_case(rng, tier, nsteps=None, style=None):
    steps = [rand_step(rng) for _ in range(plan_size(rng, tier) if nsteps is None else nsteps)]
    style = style or rng.choice(["ff", "ff", "noprefix", "tight", "tabs", "allstep", "random", "random"])
    crlf = rng.random() < 0.2
    tricky_p = rng.choice([0.0, 0.3, 0.8])
    header = rand_lines(rng, REAL_HEADER, 10, tricky_p, crlf)
    trailer = rand_lines(rng, REAL_TRAILER, 6, tricky_p, crlf)
    kind = "ff-plan-" + style
    inside = True
    if rng.random() < 0.12:          # label-prefixed lines that are no steps: outside the theorem's grammar, same expectation
        (header if rng.random() < 0.5 else trailer).insert(0, rng.choice(NEARMISS) + "\n")
        kind += "+nearmiss"
        inside = False
    marker = MARKER
    r = rng.random()
    if r < 0.1:
        marker = "xx " + MARKER + " yy"
    elif r < 0.15:                   # a no-solution marker next to the plan marker: the plan marker wins
        header.append("problem proven unsolvable.\n")
    last = rng.choice(LAST) if rng.random() < 0.4 else ""
    text = "".join(header) + marker + ("\r\n" if crlf else "\n") + render_steps(rng, steps, style, crlf) + "".join(trailer) + last
    return dict(kind=kind, enhsp=False, text=text, expect={"plan": [" ".join(s) for s in steps]}, nontrivial=True,
                nsteps=len(steps), crlf=crlf, in_theorem_grammar=inside)


NOSOL = [  # (line, following text needed?, planted no-solution marker matches)
    ("problem proven unsolvable.", True), ("problem proven unsolvableX", True), ("xx problem proven unsolvable. yy", True),
    ("ff: goal can be simplified to FALSE. No plan will solve it", True),
    ("ff: goal can be simplified to FALSE! No plan will solve it", True),
    ("ff: goal can be simplified to FALSE No plan will solve it", False),
    ("all increasers applied yet goal not fulfilled", True), ("all increasers applied yet goal not fulfiled", False),
    ("ff: goal can be simplified to TRUE. The empty plan solves it", False), ("problem proven solvable.", False),
]
NEAR_MARKERS = ["ff: found legal plan as follow", "FF: found legal plan as follows", "ff:  found legal plan as follows",
                "ff: found legal plan\nas follows", "f: found legal plan as follows"]


def ff_noplan_case(rng, tier):
    crlf = rng.random() < 0.2
    eol = "\r\n" if crlf else "\n"
    header = rand_lines(rng, REAL_HEADER, 8, rng.choice([0.0, 0.5]), crlf)
    nosol, nofile, kind = False, True, "ff-noplan-timeout"
    r = rng.random()
    if r < 0.45:
        line, nosol = rng.choice(NOSOL)
        header.insert(rng.randint(0, len(header)), line + eol)
        kind = "ff-noplan-marker" if nosol else "ff-noplan-nearmarker"
    elif r < 0.55:
        # '.' needs a character other than LF after "unsolvable": CR (of a CRLF) will do, LF or end of text will not
        at_end = rng.random() < 0.5
        header.append("problem proven unsolvable" + ("" if at_end else eol))
        nosol = crlf and not at_end
        kind = "ff-noplan-dot-at-eol"
    elif r < 0.75:
        # step lines under a near-miss of the plan marker: still no plan marker
        steps = [rand_step(rng) for _ in range(rng.randint(1, 5))]
        header.append(rng.choice(NEAR_MARKERS) + eol + render_steps(rng, steps, "ff", crlf))
        nofile, kind = False, "ff-noplan-nearplanmarker"
    text = "".join(header)
    return dict(kind=kind, enhsp=False, text=text, expect={"noplan": [nosol, nofile]}, nontrivial=len(text) > 0, nsteps=0, crlf=crlf)


FRAGS = ["step", " ", " ", "\t", "1", "23", "456", ":", ": ", ": ", "A", "b-c", "X_1", "\r", "+", "?", "(", ".", "-", "\n", "\n"]


def ff_soup_case(rng, tier):
    if rng.random() < 0.5:
        text = "".join(rng.choice("0123456789:: \t\r\n\nstepAb-_+?.(") for _ in range(rng.randint(0, 40)))
    else:
        lines = []
        for _ in range(rng.randint(1, 6)):
            lines.append("".join(rng.choice(FRAGS) for _ in range(rng.randint(0, 9))))
        text = "\n".join(lines) + rng.choice(["", "\n", "\r\n"])
    if rng.random() < 0.6:
        pos = rng.randint(0, len(text))
        text = text[:pos] + rng.choice(["", "\n"]) + MARKER + rng.choice(["", "\n", "\r\n"]) + text[pos:]
    return dict(kind="ff-soup", enhsp=False, text=text, expect=None, nontrivial=len(text) > 5, nsteps=0, crlf="\r\n" in text)


def enhsp_case(rng, tier):
    steps = [rand_step(rng) for _ in range(plan_size(rng, tier))]
    style = rng.choice(["lf", "lf", "crlf", "cr", "mixed"])
    eols = {"lf": ["\n"], "crlf": ["\r\n"], "cr": ["\r"], "mixed": ["\n", "\r\n", "\r"]}[style]
    text = "".join("(" + " ".join(s) + ")" + rng.choice(eols) for s in steps)
    expect = {"plan": [" ".join(s) for s in steps]}
    kind = "enhsp-" + style
    if steps and rng.random() < 0.15:
        # outside the layout: blank lines, indentation, missing final line end — the model alone judges
        r = rng.random()
        if r < 0.4:
            # the last line is not terminated: still exactly the plan's steps (the spec oracle knows them)
            text = text.rstrip("\r\n")
            kind = "enhsp-unterminated"
        elif r < 0.7:
            text = text.replace(")", ")\n", 1)
            expect, kind = None, "enhsp-irregular"
        else:
            text = "  " + text
            expect, kind = None, "enhsp-irregular"
    return dict(kind=kind, enhsp=True, text=text, expect=expect, nontrivial=len(steps) > 0, nsteps=len(steps),
                crlf="\r" in text)


def enhsp_soup_case(rng, tier):
    text = "".join(rng.choice("()Ab \r\n\n\r") for _ in range(rng.randint(0, 25)))
    return dict(kind="enhsp-soup", enhsp=True, text=text, expect=None, nontrivial=len(text) > 3, nsteps=0, crlf="\r" in text)


def shipped_cases():
    """the log shipped with the repository's tests, as is and with CRLF line ends"""
    text = (REPO / SHIPPED_LOG).read_bytes().decode("latin-1")
    steps = []
    in_plan = False
    for line in text.split("\n"):
        if line.startswith(MARKER):
            in_plan = True
            continue
        if in_plan:
            head, sep, body = line.partition(": ")
            if sep and head.replace("step", "").strip().isdigit():
                steps.append(body)
            else:
                in_plan = False
    out = []
    for crlf in (False, True):
        t = text.replace("\n", "\r\n") if crlf else text
        out.append(dict(kind="shipped-log", enhsp=False, text=t, expect={"plan": steps}, nontrivial=True,
                        nsteps=len(steps), crlf=crlf, in_theorem_grammar=True))
    return out


def build_inputs(rng, tier):
    inputs = []
    # regression corpus: the witnesses of recorded findings come first
    for f in load_findings(PROP):
        w = f.get("witness", {})
        if "text" in w:
            inputs.append(dict(kind="finding-witness", enhsp=False, text=w["text"], expect={"plan": w["steps"]},
                               nontrivial=True, nsteps=len(w["steps"]), crlf=False,
                               witness_of=f["id"] if f.get("status") == "open" else None))
    inputs += shipped_cases()
    corpus = [
        (MARKER + "\nstep    0: A B\n        1: C D\nplan cost 54\n\nx", ["A B", "C D"]),          # D24: word-only trailer
        ("depth 3: foo\n" + MARKER + "\nstep    0: A B\n        1: C D\n", ["A B", "C D"]),       # D24: "<digit>: word" header
        (MARKER + "\n", []), (MARKER, []), ("x" + MARKER + "y\n  0: A\n", ["A"]),
        (MARKER + "\nstep    0: PICK-UP b_1\r\n        1: Put-Down b_1\r\n\r\n", ["PICK-UP b_1", "Put-Down b_1"]),
        (MARKER + "\n  0: A\n  1: B", ["A"]), (MARKER + "\n  0: A\n\n\n  1: B\n", ["A", "B"]),
        (MARKER + "\n" + "".join("%4d: N%d a-%d\n" % (i, i, i) for i in range(150)), ["N%d a-%d" % (i, i) for i in range(150)]),
    ]
    for text, steps in corpus:
        inputs.append(dict(kind="corpus", enhsp=False, text=text, expect={"plan": steps}, nontrivial=True, nsteps=len(steps),
                           crlf="\r" in text))
    for text, exp in [("", [False, True]), ("nothing", [False, True]), ("problem proven unsolvable", [False, True]),
                      ("problem proven unsolvable\n", [False, True]), ("problem proven unsolvable\r\n", [True, True]),
                      ("problem proven unsolvable.", [True, True]), ("  0: A B\n", [False, False])]:
        inputs.append(dict(kind="corpus", enhsp=False, text=text, expect={"noplan": exp}, nontrivial=bool(text), nsteps=0, crlf="\r" in text))
    for text, steps in [("", []), ("(A b)\n", ["A b"]), ("(A b)\r\n(C d)\r(E)\n", ["A b", "C d", "E"])]:
        inputs.append(dict(kind="corpus", enhsp=True, text=text, expect={"plan": steps}, nontrivial=bool(text), nsteps=len(steps), crlf="\r" in text))
    inputs.append(dict(kind="corpus", enhsp=True, text="(A b)\r\n(C d)\r(E)\n(F)", expect=None, nontrivial=True, nsteps=4, crlf=True))
    # every plan length 0..150 once (widths 1-3 of the step number), Metric-FF layout
    stride = 1 if tier == "thorough" else 7
    for n in list(range(0, 151, stride)) + [9, 10, 11, 99, 100, 101, 150]:
        inputs.append(ff_plan_case(rng, tier, nsteps=n, style="ff"))
    n_plan, n_noplan, n_soup, n_enhsp, n_esoup = (120, 60, 150, 60, 40) if tier == "quick" else (1500, 500, 2500, 500, 400)
    inputs += [ff_plan_case(rng, tier) for _ in range(n_plan)]
    inputs += [ff_noplan_case(rng, tier) for _ in range(n_noplan)]
    inputs += [ff_soup_case(rng, tier) for _ in range(n_soup)]
    inputs += [enhsp_case(rng, tier) for _ in range(n_enhsp)]
    inputs += [enhsp_soup_case(rng, tier) for _ in range(n_esoup)]
    return inputs


# ---------------------------------------------------------------- round 3: LARGE logs / plan files (seeded change C19_D)
def long_word(rng, lo=12, hi=60):
    return rng.choice(string.ascii_letters) + "".join(rng.choice(NAMECH) for _ in range(rng.randint(lo, hi) - 1))


def long_step(rng):
    return [long_word(rng, 8, 40)] + [long_word(rng) for _ in range(rng.choice([1, 2, 3, 4]))]


def translated_len(text):
    return len(text.replace("\r\n", "\n").replace("\r", "\n"))


def ff_large_case(rng, target, shape):
    """a Metric-FF log longer than `target` characters given as a literal: many steps, long names, a long header
    (the plan marker lies beyond the first `target` characters) or a long trailer"""
    crlf = rng.random() < 0.2
    eol = "\r\n" if crlf else "\n"
    tricky_p = rng.choice([0.0, 0.3])
    pool_h, pool_t = REAL_HEADER, REAL_TRAILER

    def lines(pool, upto):
        out, n = [], 0
        while n < upto:
            l = (rng.choice(TRICKY) if rng.random() < tricky_p else rng.choice(pool)) + eol
            out.append(l)
            n += len(l)
        return out
    header, trailer = rand_lines(rng, pool_h, 10, tricky_p, crlf), rand_lines(rng, pool_t, 6, tricky_p, crlf)
    if shape == "long-header":
        header = lines(pool_h, target + rng.randint(10, 400))
        steps = [rand_step(rng) for _ in range(rng.randint(1, 40))]
    elif shape == "long-trailer":
        trailer = lines(pool_t, target + rng.randint(10, 400))
        steps = [rand_step(rng) for _ in range(rng.randint(1, 40))]
    else:
        steps, n = [], 0
        while n < target + rng.randint(10, 600):
            st = long_step(rng) if shape == "long-names" else rand_step(rng)
            steps.append(st)
            n += len(" ".join(st)) + 12
    style = rng.choice(["ff", "ff", "noprefix", "tight", "random"])
    last = rng.choice(LAST) if rng.random() < 0.3 else ""
    text = "".join(header) + MARKER + eol + render_steps(rng, steps, style, crlf) + "".join(trailer) + last
    return dict(kind="ff-large-%s" % shape, enhsp=False, text=text, expect={"plan": [" ".join(s) for s in steps]}, nontrivial=True,
                nsteps=len(steps), crlf=crlf, in_theorem_grammar=True, chars=len(text))


def enhsp_large_case(rng, target, shape):
    """an ENHSP plan file whose text (after newline translation) is longer than `target` characters"""
    style = rng.choice(["lf", "lf", "lf", "crlf", "mixed"])
    eols = {"lf": ["\n"], "crlf": ["\r\n"], "mixed": ["\n", "\r\n", "\r"]}[style]
    steps, parts, n = [], [], 0
    goal = target + rng.randint(5, 700)
    while n < goal:
        st = long_step(rng) if shape == "long-names" else rand_step(rng)
        steps.append(st)
        parts.append("(" + " ".join(st) + ")" + rng.choice(eols))
        n += len(" ".join(st)) + 3
    text = "".join(parts)
    kind = "enhsp-large-%s" % shape
    if rng.random() < 0.25:
        text = text.rstrip("\r\n")
        kind += "-unterminated"
    return dict(kind=kind, enhsp=True, text=text, expect={"plan": [" ".join(s) for s in steps]}, nontrivial=True,
                nsteps=len(steps), crlf="\r" in text, chars=len(text))


def build_large(rng, tier):
    out = []
    targets = [8192] if tier == "quick" else [8192] * 4 + [16384] * 2
    for i, t in enumerate(targets):
        out.append(ff_large_case(rng, t, ["many-steps", "long-names", "long-header", "long-trailer"][(i + rng.randint(0, 3)) % 4]))
        out.append(enhsp_large_case(rng, t, ["long-names", "many-steps"][i % 2]))
    return out


def ff_action(body):
    return "(" + body.lower().strip() + ")\n"


def build_big_case(rng, enhsp, target, shape):
    """a log / plan file above 64 KiB as SEGMENTS (Corr.BigText.expand); expectation = digest of the action list"""
    crlf = rng.random() < 0.2
    eol = "\r\n" if crlf else "\n"
    segs, exp = [], []
    if enhsp:
        nkinds = rng.randint(2, 6)
        per = target // nkinds + 200
        for _ in range(nkinds):
            st = long_step(rng) if shape != "many-steps" else rand_step(rng)
            line = "(" + " ".join(st) + ")"
            reps = per // (len(line) + 1) + 1
            segs.append([line + eol, reps])
            exp += [line.lower() + "\n"] * reps
        if rng.random() < 0.3:
            line = "(" + " ".join(rand_step(rng)) + ")"
            segs.append([line, 1])
            exp.append(line.lower())
        return dict(enhsp=True, segs=segs, expect={"digest": U.digest(exp), "n": len(exp)}, shape=shape, crlf=crlf)
    hdr_chars = target + 300 if shape == "long-header" else rng.randint(100, 3000)
    trl_chars = target + 300 if shape == "long-trailer" else rng.randint(100, 3000)
    body_chars = rng.randint(300, 3000) if shape in ("long-header", "long-trailer", "no-plan") else target + 300
    for _ in range(rng.randint(1, 4)):
        l = rng.choice(REAL_HEADER + TRICKY) + eol
        segs.append([l, max(1, hdr_chars // 3 // len(l))])
    if shape == "no-plan":
        # no plan marker anywhere in a long log; a no-solution marker (or none) after more than `target` characters
        l = rng.choice(REAL_HEADER[1:]) + eol
        segs.append([l, target // len(l) + 2])
        nosol = rng.random() < 0.6
        if nosol:
            segs.append([rng.choice(["problem proven unsolvable.", "all increasers applied yet goal not fulfilled",
                                     "ff: goal can be simplified to FALSE. No plan will solve it"]) + eol, 1])
        segs.append([rng.choice(REAL_TRAILER) + eol, rng.randint(0, 20)])
        return dict(enhsp=False, segs=segs, expect={"noplan": nosol}, shape=shape, crlf=crlf)
    segs.append([MARKER + eol, 1])
    width = rng.choice([4, 4, 1, 0, 6])
    nkinds = rng.randint(2, 5)
    per = body_chars // nkinds
    i = 0
    for k in range(nkinds):
        st = [long_word(rng, 40, 90) for _ in range(rng.randint(2, 4))] if shape != "many-steps" else rand_step(rng) + [long_word(rng)]
        body = " ".join(st)
        count = max(1, per // (len(body) + 8 + len(eol)))
        pre = "     " if width == 4 else rng.choice(["", " ", "\t", "step "])
        if k == 0 and width == 4:
            segs.append({"pre": "step ", "width": 4, "start": 0, "count": 1, "post": ": " + body + eol})
            exp.append(ff_action(body))
            i, count = 1, max(1, count - 1)
        segs.append({"pre": pre, "width": width, "start": i, "count": count, "post": ": " + body + eol})
        exp += [ff_action(body)] * count
        i += count
    for _ in range(rng.randint(1, 3)):
        l = rng.choice(REAL_TRAILER + TRICKY[:12]) + eol
        segs.append([l, max(1, trl_chars // 2 // len(l))])
    return dict(enhsp=False, segs=segs, expect={"digest": U.digest(exp), "n": len(exp)}, shape=shape, crlf=crlf)


def build_big(rng, tier):
    plan = [(True, 66000, "long-names"), (True, 132000, "many-steps"), (False, 66000, "long-names"), (False, 66000, "long-header"),
            (False, 66000, "no-plan"),
            # cheap ones around the smaller plausible buffer sizes
            (True, 8192, "many-steps"), (True, 16384, "long-names"), (False, 8192, "many-steps"), (False, 16384, "long-header"),
            (False, 8192, "long-trailer"), (False, 8192, "no-plan")]
    if tier == "thorough":
        plan += [(True, 66000, "many-steps"), (True, 270000, "long-names"), (False, 66000, "long-trailer"), (False, 132000, "long-names"),
                 (False, 132000, "long-header"), (False, 66000, "many-steps"), (False, 132000, "no-plan"), (False, 66000, "long-names")]
    return [build_big_case(rng, *p) for p in plan]


def big_lit(b, res):
    def dg(d):
        return "(%d%%uint63, %d%%uint63, %d%%uint63)" % tuple(d)

    def sg(x):
        if isinstance(x, dict):
            return "Numbered %s %d %d %d %s" % (cstr(x["pre"]), x["width"], x["start"], x["count"], cstr(x["post"]))
        return "Rep %s %d" % (cstr(x[0]), x[1])
    e = b["expect"]
    exp = "BExpNone" if e is None else "(BExpPlan %s)" % dg(e["digest"]) if "digest" in e else "(BExpNoPlan %s)" % cbool(e["noplan"])
    if "raised" in res:
        status, acts, joined, fil = "raised:" + res["raised"], [0, 0, 0], [0, 0, 0], None
    else:
        status, acts, joined, fil = res["status"], res["actions"], res["joined"], res["file"]
    return "{| b_enhsp := %s; b_segs := %s; b_status := %s; b_actions := %s; b_joined := %s; b_file := %s; b_expect := %s |}" % (
        cbool(b["enhsp"]), clist(sg(x) for x in b["segs"]), cstr(status), dg(acts), dg(joined),
        "None" if fil is None else "(Some %s)" % dg(fil), exp)


# ---------------------------------------------------------------- round 3: call sequences on one path
def same_length_word(rng, w):
    chars = list(w)
    idxs = [i for i, c in enumerate(chars) if c.isalnum()]
    if not idxs:
        return w
    i = rng.choice(idxs)
    pool = string.ascii_letters if chars[i].isalpha() else string.digits
    chars[i] = rng.choice([c for c in pool if c.lower() != chars[i].lower()])
    return "".join(chars)


def build_sequences(rng, tier):
    """the same log path written and parsed several times in ONE process: a text, then other texts of the same length
    (renamed words, other case, steps in reverse order, a damaged plan marker), a text of another length, re-reads;
    ENHSP: the file as parse_plan left it is parsed again.  Every step is one case on the text at the path at that moment."""
    seqs = []
    n = 16 if tier == "quick" else 100
    while len(seqs) < n:
        enhsp = rng.random() < 0.4
        steps = [rand_step(rng) for _ in range(rng.randint(1, 12))]
        variants = []
        ren = [[same_length_word(rng, w) if rng.random() < 0.5 else w for w in st] for st in steps]
        variants.append(("rename", ren))
        variants.append(("case", [[w.swapcase() for w in st] for st in steps]))
        variants.append(("reverse", list(reversed(steps))))
        rng.shuffle(variants)
        how = rng.choice(["overwrite", "overwrite", "replace", "recreate"])
        if enhsp:
            eol = rng.choice(["\n", "\n", "\r\n"])
            text_of = lambda sts: "".join("(" + " ".join(s) + ")" + eol for s in sts)
        else:
            crlf = rng.random() < 0.2
            style = rng.choice(["ff", "ff", "noprefix", "tight", "random"])
            header = "".join(rand_lines(rng, REAL_HEADER, 6, 0.2, crlf))
            trailer = "".join(rand_lines(rng, REAL_TRAILER, 4, 0.2, crlf))
            state = rng.getstate()

            def text_of(sts, state=state, header=header, trailer=trailer, style=style, crlf=crlf):
                keep = rng.getstate()
                rng.setstate(state)           # the same layout draws for every variant: same length
                t = header + MARKER + ("\r\n" if crlf else "\n") + render_steps(rng, sts, style, crlf) + trailer
                rng.setstate(keep)
                return t
        a_text = text_of(steps)
        sq = [dict(enhsp=enhsp, text=a_text, expect={"plan": [" ".join(s) for s in steps]}, write=True, how=how, note="first")]
        if enhsp:
            sq.append(dict(enhsp=True, text=None, expect={"plan": [" ".join(s).lower() for s in steps]}, write=False, how=None,
                           note="the file as parse_plan rewrote it"))
        for name, sts in variants[:rng.randint(1, 3)]:
            t = text_of(sts)
            if len(t) != len(a_text) or t == a_text:
                continue
            sq.append(dict(enhsp=enhsp, text=t, expect={"plan": [" ".join(s) for s in sts]}, write=True, how=how, note="same-length:" + name))
        if not enhsp and rng.random() < 0.5:
            pos = a_text.index(MARKER) + rng.randint(0, len(MARKER) - 1)
            t = a_text[:pos] + ("X" if a_text[pos] != "X" else "Y") + a_text[pos + 1:]
            sq.append(dict(enhsp=False, text=t, expect=None, write=True, how=how, note="same-length:marker-damaged"))
            sq.append(dict(enhsp=False, text=a_text, expect={"plan": [" ".join(s) for s in steps]}, write=True, how=how, note="the first text again"))
        if rng.random() < 0.4:
            more = steps + [rand_step(rng)]
            sq.append(dict(enhsp=enhsp, text=text_of(more), expect={"plan": [" ".join(s) for s in more]}, write=True, how=how, note="other length"))
            name, sts = variants[0]
            t = text_of(sts)
            if len(t) == len(a_text):
                sq.append(dict(enhsp=enhsp, text=t, expect={"plan": [" ".join(s) for s in sts]}, write=True, how=how,
                               note="length of the first text again:" + name))
        if len(sq) >= 2:
            seqs.append({"enhsp": enhsp, "how": how, "steps": sq})
    return seqs


# ---------------------------------------------------------------- Coq literals
def expect_lit(exp):
    if exp is None:
        return "ExpNone"
    if "plan" in exp:
        return "(ExpPlan %s)" % clist([cstr(s) for s in exp["plan"]])
    return "(ExpNoPlan %s %s)" % (cbool(exp["noplan"][0]), cbool(exp["noplan"][1]))


def case_lit(inp, res):
    if "raised" in res:
        status, actions, written = "raised:" + res["raised"], [], None
    else:
        status, actions, written = res["status"], res["actions"], res["file"]
    # literal compression: a plan file that is exactly the concatenation of the returned actions is not sent twice
    concat = written is not None and written == "".join(actions)
    return "{| c_enhsp := %s; c_text := %s; c_status := %s; c_actions := %s; c_file := %s; c_file_concat := %s; c_expect := %s |}" % (
        cbool(inp["enhsp"]), cstr(inp["text"]), cstr(status), clist([cstr(a) for a in actions]), copt(None if concat else written),
        cbool(concat), expect_lit(inp["expect"]))


def consts_header(k):
    return "Definition impl_consts := {| k_plan := %s; k_valid := %s; k_nosol := %s |}.\n" % (
        cstr(k["plan"]), cstr(k["valid"]), clist([cstr(s) for s in k["nosol"]]))


WS = [9, 10, 11, 12, 13, 28, 29, 30, 31, 32]


def facts_ok(f):
    return (f.get("digit") == list(range(48, 58))
            and f.get("word") == list(range(48, 58)) + list(range(65, 91)) + [95] + list(range(97, 123))
            and f.get("strip") == WS and f.get("dot") == [10] and f.get("lower_changes") == list(range(65, 91))
            and f.get("lower_ok") is True and f.get("linesep") == "\n")


def run(args):
    rep = Report(PROP, args.tier, args.seed)
    standard_proof_part(rep, PROP)
    rng = random.Random(args.seed * 7919 + 19)
    seqs, bigs = [], []
    if args.replay:
        data = json.load(open(args.replay))["input"]
        inputs = []
        if "sequence" in data:
            seqs = [data["sequence"]]
        elif "big" in data:
            bigs = [data["big"]]
        else:
            inputs = [data["case"]]
    else:
        inputs = build_inputs(rng, args.tier)
        inputs += build_large(random.Random(args.seed * 7919 + 20), args.tier)
        seqs = build_sequences(random.Random(args.seed * 7919 + 21), args.tier)
        bigs = build_big(random.Random(args.seed * 7919 + 22), args.tier)
    pre = run_impl([{"op": "c19.consts"}, {"op": "c19.facts"}], nproc=1)
    consts, facts = pre[0], pre[1]
    f_ok = facts_ok(facts)
    timing, t0 = {}, time.time()
    header = consts_header(consts) if "plan" in consts else consts_header({"plan": "?", "valid": "?", "nosol": []})

    def big_part():
        bres = run_impl([{"op": "c19.enhsp_big" if b["enhsp"] else "c19.ff_big", "segs": b["segs"]} for b in bigs], nproc=min(8, len(bigs)))
        bheader = "From Coq Require Import Uint63.\nFrom Verif Require Import Corr.BigText.\n" + header
        bcases = [{"lit": big_lit(b, r), "input": {"big": b, "implementation": r, "patterns": consts}, "nontrivial": True, "witness_of": None}
                  for b, r in zip(bigs, bres)]
        bver, binfo = run_case_shards(PROP + "/big", "Corr.C19", [c["lit"] for c in bcases], shard_size=1, run_fn="run_big impl_consts",
                                      header_extra=bheader)
        return bres, bcases, bver, binfo, bheader
    # the large cases are evaluated while the ordinary ones run (their own work directory: work/C19/big)
    pool = concurrent.futures.ThreadPoolExecutor(max_workers=1)
    big_future = pool.submit(big_part) if bigs else None
    jobs = [{"op": "c19.enhsp" if i["enhsp"] else "c19.ff", "text": i["text"]} for i in inputs]
    jobs += [{"op": "c19.sequence", "steps": sq["steps"]} for sq in seqs]
    raw = run_impl(jobs)
    results = list(raw[:len(inputs)])
    # one ordinary case per step of each sequence, on the text that was at the path when the step began
    n_plain = len(inputs)
    for sid, (sq, r) in enumerate(zip(seqs, raw[n_plain:])):
        steps = r.get("steps") if isinstance(r, dict) else None
        if steps is None or len(steps) != len(sq["steps"]):
            steps = [r if isinstance(r, dict) and "raised" in r else {"raised": "SequenceFailed"}] * len(sq["steps"])
        for k, (st, res) in enumerate(zip(sq["steps"], steps)):
            text = st["text"] if st["text"] is not None else res.get("text_at_path", "")
            inputs.append(dict(kind="seq-" + ("enhsp" if st["enhsp"] else "ff"), enhsp=st["enhsp"], text=text, expect=st["expect"],
                               nontrivial=True, nsteps=len(st["expect"]["plan"]) if st["expect"] else 0, crlf="\r" in text,
                               seq=sid, step=k, note=st["note"]))
            results.append({k2: v for k2, v in res.items() if k2 != "text_at_path"})
    timing["impl_s"] = round(time.time() - t0, 1)
    t0 = time.time()
    cases = []
    for inp, res in zip(inputs, results):
        payload = {"case": inp, "implementation": res, "patterns": consts}
        if "seq" in inp:
            payload["sequence"] = seqs[inp["seq"]]
            payload["failing_step"] = inp["step"]
        cases.append({"lit": case_lit(inp, res), "input": payload,
                      "nontrivial": inp["nontrivial"], "witness_of": inp.get("witness_of")})
    verdicts, info = run_case_shards(PROP, "Corr.C19", [c["lit"] for c in cases], shard_size=120, run_fn="run impl_consts",
                                     header_extra=header, max_bytes=70_000)
    decide(rep, PROP, "Corr.C19", cases, verdicts, info, explain_expr="explain impl_consts %s", header_extra=header)
    timing["coq_cases_s"] = round(time.time() - t0, 1)
    t0 = time.time()
    cov = rep.coverage
    if bigs:
        # LARGE files (> 64 KiB): segments in, digests out; one shard per case (evaluated in the background, see big_part)
        small_counts, small_distinct = dict(cov.get("verdict_counts", {})), cov.get("distinct_nontrivial", 0)
        bres, bcases, bver, binfo, bheader = big_future.result()
        n_before = len(rep.violations)
        decide(rep, PROP, "Corr.C19", bcases, bver, binfo, explain_expr="explain_big impl_consts %s", header_extra=bheader)
        for j in range(n_before, len(rep.violations)):
            old, concrete = rep.violations[j]
            new = old.with_name("big_" + old.name)
            payload = json.loads(old.read_text())
            payload["replay_cmd"] = "./check %s --replay %s" % (PROP, new)
            new.write_text(json.dumps(payload, indent=1))
            old.unlink()
            rep.violations[j] = (new, concrete)
        cov["big_verdict_counts"] = dict(cov.get("verdict_counts", {}))
        merged = dict(small_counts)
        for k, v in cov["big_verdict_counts"].items():
            merged[k] = merged.get(k, 0) + v
        cov["verdict_counts"] = merged
        cov["distinct_nontrivial"] = small_distinct + cov.get("distinct_nontrivial", 0)
        cov["big_inputs"] = [{"enhsp": b["enhsp"], "shape": b["shape"], "crlf": b["crlf"], "chars": r.get("chars"), "actions": r.get("n_actions"),
                              "status": r.get("status", "raised")} for b, r in zip(bigs, bres)]
    timing["big_s"] = round(time.time() - t0, 1)
    cov["timing_s"] = timing
    if not f_ok:
        p = write_replay(PROP, "cpython_facts", {"kind": "correspondence", "why": r"CPython facts (\d, \w, strip, '.', lower, linesep) differ from the model", "facts": facts})
        rep.violation(p, False)
    cov = rep.coverage
    kinds, sizes, widths = {}, {"0": 0, "1-9": 0, "10-99": 0, "100-150": 0}, 0
    for i in inputs:
        kinds[i["kind"]] = kinds.get(i["kind"], 0) + 1
        if i["expect"] and "plan" in i["expect"]:
            n = len(i["expect"]["plan"])
            sizes["0" if n == 0 else "1-9" if n < 10 else "10-99" if n < 100 else "100-150"] += 1
    cov["input_distribution"] = kinds
    cov["plan_sizes"] = sizes
    cov["large_literal_cases"] = sorted(i["chars"] for i in inputs if "chars" in i)
    cov["sequences"] = {"count": len(seqs), "steps": sum(len(q["steps"]) for q in seqs), "enhsp": sum(1 for q in seqs if q["enhsp"]),
                        "how": {h: sum(1 for q in seqs if q["how"] == h) for h in sorted({q["how"] for q in seqs})},
                        "notes": {}}
    for q in seqs:
        for st in q["steps"]:
            nk = st["note"].split(":")[-1] if ":" in st["note"] else st["note"]
            cov["sequences"]["notes"][nk] = cov["sequences"]["notes"].get(nk, 0) + 1
    cov["crlf_cases"] = sum(1 for i in inputs if i.get("crlf"))
    cov["inside_theorem_grammar"] = sum(1 for i in inputs if i.get("in_theorem_grammar"))
    cov["statuses"] = {}
    for r in results:
        s = r.get("status", "raised") if isinstance(r, dict) else "?"
        cov["statuses"][s or "enhsp"] = cov["statuses"].get(s or "enhsp", 0) + 1
    cov["patterns_read_from_module"] = consts
    # the literal of Proofs/C19_Shipped.v (theorem C19_shipped_log) is the repository's file of this run?
    try:
        src = (COQ / "Proofs" / "C19_Shipped.v").read_text()
        lit = src.split('Definition shipped_log : string :=\n"', 1)[1].split('".\n', 1)[0]
        cov["shipped_log_literal_equals_repo_file"] = (lit == (REPO / SHIPPED_LOG).read_bytes().decode("latin-1"))
    except Exception as e:  # noqa
        cov["shipped_log_literal_equals_repo_file"] = "not compared: %s" % e
    if cov["shipped_log_literal_equals_repo_file"] is not True:
        rep.notes.append("tests/exporters_tests/output.out differs from the literal of Proofs/C19_Shipped.v: theorem C19_shipped_log speaks of the "
                         "older file (the file of this run is still fed to the implementation as a correspondence case)")
    cov["exhaustive"] = False
    cov["rule"] = ("plans of 0-150 steps (every length once in the Metric-FF layout at the thorough tier, every 7th at quick; random lengths otherwise) over "
                   "names in [A-Za-z0-9_-], rendered as Metric-FF logs in 7 layouts (step prefix, indentation with blanks/tabs, number widths 1-4, blanks "
                   "around the action, LF/CRLF) between header and trailer lines drawn from the shipped log and from a list of dangerous lines "
                   "('<digit>: word', word-only lines, near-miss labels), optional unterminated last line; logs without plan marker with planted / near-miss "
                   "no-solution markers; raw character and fragment soup; ENHSP files with LF/CRLF/CR line ends; the log shipped in tests/exporters_tests; "
                   "LARGE files: logs and ENHSP files above 8 KiB / 16 KiB as literals (many steps, long names, long header, long trailer) and above "
                   "64 KiB / 128 KiB as segments with the action list and plan file compared by digest (plan marker or no-solution marker beyond the first "
                   "64 KiB); call SEQUENCES on one path in one process (same-length rewrites: renamed words, case, reversed steps, damaged marker; other "
                   "length; ENHSP file re-read after parse_plan rewrote it), each step judged on the text at the path at that moment. "
                   "Observed: status, action list, plan file.  Non-trivial: non-empty text (soup: more than 5 characters); distinct by input hash.")
    cov["samples"] = [{k: v for k, v in c["input"]["case"].items() if k != "text"} | {"text": c["input"]["case"]["text"][:300]}
                      for c in (cases[:2] + cases[-2:])]
    cov["explanation"] = "theorems C19_* (Props/C19.v) proved for all plans/headers/trailers on the model; model tied to the repository by the cases above"
    rep.assumptions = ["ASCII logs only (bytes < 128)", "Linux line separator", "CPython re/str facts re-checked on this run: %s" % f_ok,
                       "pattern texts of ff_output_parser read at run time and compared with the texts the scanners were written for"]
    return rep.finish()
