"""C19 — planner logs yield exactly the plan's steps, in order."""
import json
import random
import string

from ..common import (COQ, REPO, Report, cbool, clist, copt, cstr, decide, load_findings, run_case_shards, run_impl,
                      standard_proof_part, write_replay)

PROP = "C19"
MARKER = "ff: found legal plan as follows"
NAMECH = string.ascii_letters + string.digits + "_-"
SHIPPED_LOG = "tests/exporters_tests/output.out"

# ---------------------------------------------------------------- the log-line grammar (Spec.PlannerLogs.log_line)
REAL_HEADER = [
    "", "ff: parsing domain file", "domain 'DEPOT' defined", " ... done.", "ff: parsing problem file",
    "problem 'DEPOTPROB7512' defined",
    "warning: numeric precondition. turning cost-minimizing relaxed plans OFF.",
    "ff: search configuration is Enforced Hill-Climbing, then A*epsilon with weight 5.",
    "Metric is ((1.00*[RF0](FUEL-COST)) - () + 0.00)",
    "COST MINIMIZATION DONE (WITHOUT cost-minimizing relaxed plans).",
    "Cueing down from goal distance:   18 into depth [1][2]",
    "                                  16            [1][2]",
    "                                   0            ",
]
# lines that do not begin with a step label but look dangerous to a careless pattern
TRICKY = [
    "depth 3: foo", "x1: abc def", "A1: MOVE A B", "task 0: DRIVE TRUCK0 DEPOT0", "level 2: open 7: closed",
    "plan cost 54", "time spent", "DONE", "x y z", "123", "the-end_1 +?", "   ", "step", "step 5", "step: 1",
    "5:abc", "12 : a b", "3 : x", "a\rb", "0.00 seconds total time", "steps 3: a b", "step-1: a", "- 4: q",
    "goal 9: ok\r", ": 1: a", "STEP 1: A B", "Step    0: A", "\x0b 1: a", "1\t: a b",
]
# lines that DO begin with a step label but are not step lines (outside the theorem's grammar; expectation: no step)
NEARMISS = ["  3: (foo)", "step    4: a.b c", "7: ", "8:", "  9: x;y", "step 10: [1][2]", "5: a\rb", "6: a\r\r",
            "step 11: a\x0bb"]
REAL_TRAILER = [
    "plan cost: 54.000000", "", "time spent:    0.00 seconds instantiating 666 easy, 0 hard action templates",
    "               0.00 seconds reachability analysis, yielding 82 facts and 210 actions",
    "               0.00 seconds searching, evaluating 68 states, to a max depth of 3",
    "               0.00 seconds total time", "     ",
]
LAST = ["", "end", "  5: FOO BAR", "plan cost 54", "step    7: A B\r", "0"]
REAL_NAMES = ["DRIVE", "LIFT", "LOAD", "UNLOAD", "DROP", "pick-up", "put_down", "Move", "a", "B2"]
REAL_ARGS = ["TRUCK0", "DEPOT0", "DISTRIBUTOR1", "HOIST2", "CRATE3", "PALLET0", "ball-1", "room_a", "x", "7", "-", "_"]


def rand_word(rng):
    if rng.random() < 0.6:
        return rng.choice(REAL_NAMES + REAL_ARGS)
    return "".join(rng.choice(NAMECH) for _ in range(rng.randint(1, 9)))


def rand_step(rng):
    name = rng.choice(REAL_NAMES) if rng.random() < 0.7 else rand_word(rng)
    return [name] + [rand_word(rng) for _ in range(rng.choice([0, 1, 2, 2, 3, 3, 4, 6]))]


def rand_blanks(rng, lo, hi):
    return "".join(rng.choice(" \t") if rng.random() < 0.3 else " " for _ in range(rng.randint(lo, hi)))


def plan_size(rng, tier):
    r = rng.random()
    if r < 0.04:
        return 0
    if r < 0.55:
        return rng.randint(1, 12)
    if r < 0.86:
        return rng.randint(13, 40)
    if r < 0.94:
        return rng.randint(41, 99)
    return rng.randint(100, 150)


def render_steps(rng, steps, style, crlf):
    """Spec.PlannerLogs.render_step for every step, in one of several layouts."""
    out = []
    start = rng.choice([0, 0, 0, 1, 5, 95, 990]) if style != "ff" else 0
    for i, st in enumerate(steps):
        body = " ".join(st)
        eol = "\r\n" if crlf else "\n"
        if style == "ff":            # Metric-FF: "step %4d: " then "     %4d: "
            line = ("step " if i == 0 else "     ") + "%4d: " % i + body
        elif style == "noprefix":
            line = "%4d: " % (start + i) + body
        elif style == "tight":
            line = "%d: " % (start + i) + body
        elif style == "tabs":
            line = ("step" if i == 0 else "") + "\t%d: " % (start + i) + body
        elif style == "allstep":
            line = "step%s%d: " % (rand_blanks(rng, 0, 4), start + i) + body
        else:                        # random layout per step
            num = str(start + i) if rng.random() < 0.5 else "".join(rng.choice(string.digits) for _ in range(rng.randint(1, 3)))
            line = (("step" if rng.random() < 0.3 else "") + rand_blanks(rng, 0, 9) + num + ": " + rand_blanks(rng, 0, 2)
                    + body + rand_blanks(rng, 0, 3))
            eol = "\r\n" if (crlf or rng.random() < 0.15) else "\n"
        out.append(line + eol)
    return "".join(out)


def rand_lines(rng, pool_real, n_max, tricky_p, crlf):
    n = rng.randint(0, n_max)
    lines = []
    for _ in range(n):
        l = rng.choice(TRICKY) if rng.random() < tricky_p else rng.choice(pool_real)
        lines.append(l + ("\r\n" if crlf else "\n"))
    return lines


def ff_plan_case(rng, tier, nsteps=None, style=None):
    steps = [rand_step(rng) for _ in range(plan_size(rng, tier) if nsteps is None else nsteps)]
    style = style or rng.choice(["ff", "ff", "noprefix", "tight", "tabs", "allstep", "random", "random"])
    crlf = rng.random() < 0.2
    tricky_p = rng.choice([0.0, 0.3, 0.8])
    header = rand_lines(rng, REAL_HEADER, 10, tricky_p, crlf)
    trailer = rand_lines(rng, REAL_TRAILER, 6, tricky_p, crlf)
    kind = "ff-plan-" + style
    inside = True
    if rng.random() < 0.12:          # label-prefixed lines that are no steps: outside the theorem's grammar, same expectation
        (header if rng.random() < 0.5 else trailer).insert(0, rng.choice(NEARMISS) + "\n")
        kind += "+nearmiss"
        inside = False
    marker = MARKER
    r = rng.random()
    if r < 0.1:
        marker = "xx " + MARKER + " yy"
    elif r < 0.15:                   # a no-solution marker next to the plan marker: the plan marker wins
        header.append("problem proven unsolvable.\n")
    last = rng.choice(LAST) if rng.random() < 0.4 else ""
    text = "".join(header) + marker + ("\r\n" if crlf else "\n") + render_steps(rng, steps, style, crlf) + "".join(trailer) + last
    return dict(kind=kind, enhsp=False, text=text, expect={"plan": [" ".join(s) for s in steps]}, nontrivial=True,
                nsteps=len(steps), crlf=crlf, in_theorem_grammar=inside)


NOSOL = [  # (line, following text needed?, planted no-solution marker matches)
    ("problem proven unsolvable.", True), ("problem proven unsolvableX", True), ("xx problem proven unsolvable. yy", True),
    ("ff: goal can be simplified to FALSE. No plan will solve it", True),
    ("ff: goal can be simplified to FALSE! No plan will solve it", True),
    ("ff: goal can be simplified to FALSE No plan will solve it", False),
    ("all increasers applied yet goal not fulfilled", True), ("all increasers applied yet goal not fulfiled", False),
    ("ff: goal can be simplified to TRUE. The empty plan solves it", False), ("problem proven solvable.", False),
]
NEAR_MARKERS = ["ff: found legal plan as follow", "FF: found legal plan as follows", "ff:  found legal plan as follows",
                "ff: found legal plan\nas follows", "f: found legal plan as follows"]


def ff_noplan_case(rng, tier):
    crlf = rng.random() < 0.2
    eol = "\r\n" if crlf else "\n"
    header = rand_lines(rng, REAL_HEADER, 8, rng.choice([0.0, 0.5]), crlf)
    nosol, nofile, kind = False, True, "ff-noplan-timeout"
    r = rng.random()
    if r < 0.45:
        line, nosol = rng.choice(NOSOL)
        header.insert(rng.randint(0, len(header)), line + eol)
        kind = "ff-noplan-marker" if nosol else "ff-noplan-nearmarker"
    elif r < 0.55:
        # '.' needs a character other than LF after "unsolvable": CR (of a CRLF) will do, LF or end of text will not
        at_end = rng.random() < 0.5
        header.append("problem proven unsolvable" + ("" if at_end else eol))
        nosol = crlf and not at_end
        kind = "ff-noplan-dot-at-eol"
    elif r < 0.75:
        # step lines under a near-miss of the plan marker: still no plan marker
        steps = [rand_step(rng) for _ in range(rng.randint(1, 5))]
        header.append(rng.choice(NEAR_MARKERS) + eol + render_steps(rng, steps, "ff", crlf))
        nofile, kind = False, "ff-noplan-nearplanmarker"
    text = "".join(header)
    return dict(kind=kind, enhsp=False, text=text, expect={"noplan": [nosol, nofile]}, nontrivial=len(text) > 0, nsteps=0, crlf=crlf)


FRAGS = ["step", " ", " ", "\t", "1", "23", "456", ":", ": ", ": ", "A", "b-c", "X_1", "\r", "+", "?", "(", ".", "-", "\n", "\n"]


def ff_soup_case(rng, tier):
    if rng.random() < 0.5:
        text = "".join(rng.choice("0123456789:: \t\r\n\nstepAb-_+?.(") for _ in range(rng.randint(0, 40)))
    else:
        lines = []
        for _ in range(rng.randint(1, 6)):
            lines.append("".join(rng.choice(FRAGS) for _ in range(rng.randint(0, 9))))
        text = "\n".join(lines) + rng.choice(["", "\n", "\r\n"])
    if rng.random() < 0.6:
        pos = rng.randint(0, len(text))
        text = text[:pos] + rng.choice(["", "\n"]) + MARKER + rng.choice(["", "\n", "\r\n"]) + text[pos:]
    return dict(kind="ff-soup", enhsp=False, text=text, expect=None, nontrivial=len(text) > 5, nsteps=0, crlf="\r\n" in text)


def enhsp_case(rng, tier):
    steps = [rand_step(rng) for _ in range(plan_size(rng, tier))]
    style = rng.choice(["lf", "lf", "crlf", "cr", "mixed"])
    eols = {"lf": ["\n"], "crlf": ["\r\n"], "cr": ["\r"], "mixed": ["\n", "\r\n", "\r"]}[style]
    text = "".join("(" + " ".join(s) + ")" + rng.choice(eols) for s in steps)
    expect = {"plan": [" ".join(s) for s in steps]}
    kind = "enhsp-" + style
    if steps and rng.random() < 0.15:
        # outside the layout: blank lines, indentation, missing final line end — the model alone judges
        r = rng.random()
        if r < 0.4:
            # the last line is not terminated: still exactly the plan's steps (the spec oracle knows them)
            text = text.rstrip("\r\n")
            kind = "enhsp-unterminated"
        elif r < 0.7:
            text = text.replace(")", ")\n", 1)
            expect, kind = None, "enhsp-irregular"
        else:
            text = "  " + text
            expect, kind = None, "enhsp-irregular"
    return dict(kind=kind, enhsp=True, text=text, expect=expect, nontrivial=len(steps) > 0, nsteps=len(steps),
                crlf="\r" in text)


def enhsp_soup_case(rng, tier):
    text = "".join(rng.choice("()Ab \r\n\n\r") for _ in range(rng.randint(0, 25)))
    return dict(kind="enhsp-soup", enhsp=True, text=text, expect=None, nontrivial=len(text) > 3, nsteps=0, crlf="\r" in text)


def shipped_cases():
    """the log shipped with the repository's tests, as is and with CRLF line ends"""
    text = (REPO / SHIPPED_LOG).read_bytes().decode("latin-1")
    steps = []
    in_plan = False
    for line in text.split("\n"):
        if line.startswith(MARKER):
            in_plan = True
            continue
        if in_plan:
            head, sep, body = line.partition(": ")
            if sep and head.replace("step", "").strip().isdigit():
                steps.append(body)
            else:
                in_plan = False
    out = []
    for crlf in (False, True):
        t = text.replace("\n", "\r\n") if crlf else text
        out.append(dict(kind="shipped-log", enhsp=False, text=t, expect={"plan": steps}, nontrivial=True,
                        nsteps=len(steps), crlf=crlf, in_theorem_grammar=True))
    return out


def build_inputs(rng, tier):
    inputs = []
    # regression corpus: the witnesses of recorded findings come first
    for f in load_findings(PROP):
        w = f.get("witness", {})
        if "text" in w:
            inputs.append(dict(kind="finding-witness", enhsp=False, text=w["text"], expect={"plan": w["steps"]},
                               nontrivial=True, nsteps=len(w["steps"]), crlf=False,
                               witness_of=f["id"] if f.get("status") == "open" else None))
    inputs += shipped_cases()
    corpus = [
        (MARKER + "\nstep    0: A B\n        1: C D\nplan cost 54\n\nx", ["A B", "C D"]),          # D24: word-only trailer
        ("depth 3: foo\n" + MARKER + "\nstep    0: A B\n        1: C D\n", ["A B", "C D"]),       # D24: "<digit>: word" header
        (MARKER + "\n", []), (MARKER, []), ("x" + MARKER + "y\n  0: A\n", ["A"]),
        (MARKER + "\nstep    0: PICK-UP b_1\r\n        1: Put-Down b_1\r\n\r\n", ["PICK-UP b_1", "Put-Down b_1"]),
        (MARKER + "\n  0: A\n  1: B", ["A"]), (MARKER + "\n  0: A\n\n\n  1: B\n", ["A", "B"]),
        (MARKER + "\n" + "".join("%4d: N%d a-%d\n" % (i, i, i) for i in range(150)), ["N%d a-%d" % (i, i) for i in range(150)]),
    ]
    for text, steps in corpus:
        inputs.append(dict(kind="corpus", enhsp=False, text=text, expect={"plan": steps}, nontrivial=True, nsteps=len(steps),
                           crlf="\r" in text))
    for text, exp in [("", [False, True]), ("nothing", [False, True]), ("problem proven unsolvable", [False, True]),
                      ("problem proven unsolvable\n", [False, True]), ("problem proven unsolvable\r\n", [True, True]),
                      ("problem proven unsolvable.", [True, True]), ("  0: A B\n", [False, False])]:
        inputs.append(dict(kind="corpus", enhsp=False, text=text, expect={"noplan": exp}, nontrivial=bool(text), nsteps=0, crlf="\r" in text))
    for text, steps in [("", []), ("(A b)\n", ["A b"]), ("(A b)\r\n(C d)\r(E)\n", ["A b", "C d", "E"])]:
        inputs.append(dict(kind="corpus", enhsp=True, text=text, expect={"plan": steps}, nontrivial=bool(text), nsteps=len(steps), crlf="\r" in text))
    inputs.append(dict(kind="corpus", enhsp=True, text="(A b)\r\n(C d)\r(E)\n(F)", expect=None, nontrivial=True, nsteps=4, crlf=True))
    # every plan length 0..150 once (widths 1-3 of the step number), Metric-FF layout
    stride = 1 if tier == "thorough" else 7
    for n in list(range(0, 151, stride)) + [9, 10, 11, 99, 100, 101, 150]:
        inputs.append(ff_plan_case(rng, tier, nsteps=n, style="ff"))
    n_plan, n_noplan, n_soup, n_enhsp, n_esoup = (150, 60, 150, 60, 40) if tier == "quick" else (1700, 500, 2500, 500, 400)
    inputs += [ff_plan_case(rng, tier) for _ in range(n_plan)]
    inputs += [ff_noplan_case(rng, tier) for _ in range(n_noplan)]
    inputs += [ff_soup_case(rng, tier) for _ in range(n_soup)]
    inputs += [enhsp_case(rng, tier) for _ in range(n_enhsp)]
    inputs += [enhsp_soup_case(rng, tier) for _ in range(n_esoup)]
    return inputs


# ---------------------------------------------------------------- Coq literals
def expect_lit(exp):
    if exp is None:
        return "ExpNone"
    if "plan" in exp:
        return "(ExpPlan %s)" % clist([cstr(s) for s in exp["plan"]])
    return "(ExpNoPlan %s %s)" % (cbool(exp["noplan"][0]), cbool(exp["noplan"][1]))


def case_lit(inp, res):
    if "raised" in res:
        status, actions, written = "raised:" + res["raised"], [], None
    else:
        status, actions, written = res["status"], res["actions"], res["file"]
    return "{| c_enhsp := %s; c_text := %s; c_status := %s; c_actions := %s; c_file := %s; c_expect := %s |}" % (
        cbool(inp["enhsp"]), cstr(inp["text"]), cstr(status), clist([cstr(a) for a in actions]), copt(written),
        expect_lit(inp["expect"]))


def consts_header(k):
    return "Definition impl_consts := {| k_plan := %s; k_valid := %s; k_nosol := %s |}.\n" % (
        cstr(k["plan"]), cstr(k["valid"]), clist([cstr(s) for s in k["nosol"]]))


WS = [9, 10, 11, 12, 13, 28, 29, 30, 31, 32]


def facts_ok(f):
    return (f.get("digit") == list(range(48, 58))
            and f.get("word") == list(range(48, 58)) + list(range(65, 91)) + [95] + list(range(97, 123))
            and f.get("strip") == WS and f.get("dot") == [10] and f.get("lower_changes") == list(range(65, 91))
            and f.get("lower_ok") is True and f.get("linesep") == "\n")


def run(args):
    rep = Report(PROP, args.tier, args.seed)
    standard_proof_part(rep, PROP)
    rng = random.Random(args.seed * 7919 + 19)
    if args.replay:
        data = json.load(open(args.replay))
        inputs = [data["input"]["case"]]
    else:
        inputs = build_inputs(rng, args.tier)
    pre = run_impl([{"op": "c19.consts"}, {"op": "c19.facts"}], nproc=1)
    consts, facts = pre[0], pre[1]
    f_ok = facts_ok(facts)
    jobs = [{"op": "c19.enhsp" if i["enhsp"] else "c19.ff", "text": i["text"]} for i in inputs]
    results = run_impl(jobs)
    cases = []
    for inp, res in zip(inputs, results):
        cases.append({"lit": case_lit(inp, res), "input": {"case": inp, "implementation": res, "patterns": consts},
                      "nontrivial": inp["nontrivial"], "witness_of": inp.get("witness_of")})
    header = consts_header(consts) if "plan" in consts else consts_header({"plan": "?", "valid": "?", "nosol": []})
    verdicts, info = run_case_shards(PROP, "Corr.C19", [c["lit"] for c in cases], shard_size=120, run_fn="run impl_consts",
                                     header_extra=header, max_bytes=110_000)
    decide(rep, PROP, "Corr.C19", cases, verdicts, info, explain_expr="explain impl_consts %s", header_extra=header)
    if not f_ok:
        p = write_replay(PROP, "cpython_facts", {"kind": "correspondence", "why": r"CPython facts (\d, \w, strip, '.', lower, linesep) differ from the model", "facts": facts})
        rep.violation(p, False)
    cov = rep.coverage
    kinds, sizes, widths = {}, {"0": 0, "1-9": 0, "10-99": 0, "100-150": 0}, 0
    for i in inputs:
        kinds[i["kind"]] = kinds.get(i["kind"], 0) + 1
        if i["expect"] and "plan" in i["expect"]:
            n = len(i["expect"]["plan"])
            sizes["0" if n == 0 else "1-9" if n < 10 else "10-99" if n < 100 else "100-150"] += 1
    cov["input_distribution"] = kinds
    cov["plan_sizes"] = sizes
    cov["crlf_cases"] = sum(1 for i in inputs if i.get("crlf"))
    cov["inside_theorem_grammar"] = sum(1 for i in inputs if i.get("in_theorem_grammar"))
    cov["statuses"] = {}
    for r in results:
        s = r.get("status", "raised") if isinstance(r, dict) else "?"
        cov["statuses"][s or "enhsp"] = cov["statuses"].get(s or "enhsp", 0) + 1
    cov["patterns_read_from_module"] = consts
    # the literal of Proofs/C19_Shipped.v (theorem C19_shipped_log) is the repository's file of this run?
    try:
        src = (COQ / "Proofs" / "C19_Shipped.v").read_text()
        lit = src.split('Definition shipped_log : string :=\n"', 1)[1].split('".\n', 1)[0]
        cov["shipped_log_literal_equals_repo_file"] = (lit == (REPO / SHIPPED_LOG).read_bytes().decode("latin-1"))
    except Exception as e:  # noqa
        cov["shipped_log_literal_equals_repo_file"] = "not compared: %s" % e
    if cov["shipped_log_literal_equals_repo_file"] is not True:
        rep.notes.append("tests/exporters_tests/output.out differs from the literal of Proofs/C19_Shipped.v: theorem C19_shipped_log speaks of the "
                         "older file (the file of this run is still fed to the implementation as a correspondence case)")
    cov["exhaustive"] = False
    cov["rule"] = ("plans of 0-150 steps (every length once in the Metric-FF layout at the thorough tier, every 7th at quick; random lengths otherwise) over "
                   "names in [A-Za-z0-9_-], rendered as Metric-FF logs in 7 layouts (step prefix, indentation with blanks/tabs, number widths 1-4, blanks "
                   "around the action, LF/CRLF) between header and trailer lines drawn from the shipped log and from a list of dangerous lines "
                   "('<digit>: word', word-only lines, near-miss labels), optional unterminated last line; logs without plan marker with planted / near-miss "
                   "no-solution markers; raw character and fragment soup; ENHSP files with LF/CRLF/CR line ends; the log shipped in tests/exporters_tests. "
                   "Observed: status, action list, plan file.  Non-trivial: non-empty text (soup: more than 5 characters); distinct by input hash.")
    cov["samples"] = [{k: v for k, v in c["input"]["case"].items() if k != "text"} | {"text": c["input"]["case"]["text"][:300]}
                      for c in (cases[:2] + cases[-2:])]
    cov["explanation"] = "theorems C19_* (Props/C19.v) proved for all plans/headers/trailers on the model; model tied to the repository by the cases above"
    rep.assumptions = ["ASCII logs only (bytes < 128)", "Linux line separator", "CPython re/str facts re-checked on this run: %s" % f_ok,
                       "pattern texts of ff_output_parser read at run time and compared with the texts the scanners were written for"]
    return rep.finish()
