"""C18 - renaming the parameters of an action by an injective map keeps its signature shape and its behaviour.

Generated worlds (harness/pddlgen) x one action x one mapping passed to Action.change_signature x a small universe
of states and calls.  Observables from the real code: the renamed signature, the action's text before and after
(the library's printing methods), applicability and successor of the original and of the renamed action.
Judged inside Coq by Corr.C18 (model agreement; property oracle without the model)."""
import glob
import itertools
import json
import os
import random
import time

from ..common import (Report, case_hash, cbool, chex, clist, cstr, decide, load_findings, run_case_shards, run_impl,
                      standard_proof_part)
from .. import pddlgen as G
from ..core_common import catom, cobs_bool, cobs_state, cstate

PROP = "C18"
HEADER = "From Coq Require Import PrimFloat.\nFrom Verif Require Import Spec.Pddl Corr.Core Corr.C18.\n"

ADMISSIBLE_KINDS = ["fresh", "fresh-shuffled-dict", "swap", "permutation", "rotation", "chain", "overlap",
                    "partial-fresh", "identity", "library-style"]
JUDGED_KINDS = ADMISSIBLE_KINDS + ["exhaustive", "corpus", "alpha-pool"]   # (hand-written cases carry one of the admissible kinds)
FOREIGN_KINDS = ["collapse", "capture", "capture-and-move", "onto-constant", "moves-constant", "onto-unrenamed"]


# ---------------------------------------------------------------------------------------------- renamings
def bound_vars(tree, acc=None):
    acc = set() if acc is None else acc
    if isinstance(tree, list):
        if tree and tree[0] == "forall" and len(tree) > 1 and isinstance(tree[1], list) and tree[1]:
            acc.add(tree[1][0])
        for x in tree:
            bound_vars(x, acc)
    return acc


def fresh_names(rng, n, taken):
    style = rng.choice(["?n%d", "?param_%d", "?x%d", "?z%d", "?a%d"])
    out, k = [], 0
    while len(out) < n:
        cand = style % k
        k += 1
        if cand not in taken and cand not in out:
            out.append(cand)
    return out


def make_mapping(rng, w, action, kind, extra_taken=()):
    """-> list of [old, new] pairs in dict insertion order, or None when the kind does not apply to this action"""
    ps = [p for p, _ in action["params"]]
    n = len(ps)
    bound = bound_vars(action["pre"]) | bound_vars(action["eff"])
    consts = [c for c, _ in w.consts]
    taken = set(ps) | bound | set(consts) | set(extra_taken)
    if kind == "identity":
        return [[p, p] for p in ps]
    if kind in ("fresh", "fresh-shuffled-dict", "library-style"):
        if n == 0:
            return []
        new = ["?param_%d" % i for i in range(n)] if kind == "library-style" else fresh_names(rng, n, taken)
        m = [[p, q] for p, q in zip(ps, new)]
        if kind == "fresh-shuffled-dict":
            rng.shuffle(m)
        return m
    if kind == "swap":
        if n < 2:
            return None
        i, j = rng.sample(range(n), 2)
        m = {p: p for p in ps}
        m[ps[i]], m[ps[j]] = ps[j], ps[i]
        return [[p, m[p]] for p in ps]
    if kind == "permutation":
        if n < 2:
            return None
        perms = [q for q in itertools.permutations(ps) if list(q) != ps]
        q = rng.choice(perms)
        m = [[p, r] for p, r in zip(ps, q)]
        if rng.random() < 0.5:
            rng.shuffle(m)
        return m
    if kind == "rotation":
        if n < 2:
            return None
        k = rng.randint(1, n - 1)
        return [[p, ps[(i + k) % n]] for i, p in enumerate(ps)]
    if kind == "chain":
        # ?a -> ?b -> ?c -> fresh, upwards or downwards in the signature
        if n < 2:
            return None
        f = fresh_names(rng, 1, taken)[0]
        if rng.random() < 0.5:
            return [[p, (ps[i + 1] if i + 1 < n else f)] for i, p in enumerate(ps)]
        return [[p, (ps[i - 1] if i > 0 else f)] for i, p in enumerate(ps)]
    if kind == "overlap":
        # some parameters take over the names of others, which move to fresh names; the rest stays (absent or identity)
        if n < 2:
            return None
        k = rng.randint(1, n - 1)
        movers = rng.sample(ps, k)
        rest = [p for p in ps if p not in movers]
        targets = rng.sample(rest, min(len(rest), k))
        fr = fresh_names(rng, n, taken)
        m = {}
        for p, t in zip(movers, targets):
            m[p] = t
        for p in movers[len(targets):]:
            m[p] = fr.pop()
        for t in targets:
            m[t] = fr.pop()
        for p in rest:
            if p not in m and rng.random() < 0.5:
                m[p] = p
        items = [[p, q] for p, q in m.items()]
        rng.shuffle(items)
        return items
    if kind == "partial-fresh":
        if n < 1:
            return None
        k = rng.randint(1, n)
        chosen = rng.sample(ps, k)
        fr = fresh_names(rng, k, taken)
        return [[p, q] for p, q in zip(chosen, fr)]
    # ----- outside the property's quantifier: only the model has to agree
    if kind == "collapse":
        if n < 2:
            return None
        i, j = rng.sample(range(n), 2)
        f = fresh_names(rng, 1, taken)[0]
        return [[p, (f if k in (i, j) else p)] for k, p in enumerate(ps)]
    if kind == "onto-unrenamed":
        if n < 2:
            return None
        i, j = rng.sample(range(n), 2)
        return [[ps[i], ps[j]]]
    if kind == "capture":
        if n < 1 or not bound:
            return None
        return [[rng.choice(ps), rng.choice(sorted(bound))]]
    if kind == "capture-and-move":
        # one parameter takes the name of a quantified variable, every other one the name of its predecessor
        if n < 2 or not bound:
            return None
        k = rng.randrange(n)
        order = ps[k:] + ps[:k]
        m = [[order[0], rng.choice(sorted(bound))]] + [[order[i], order[i - 1]] for i in range(1, n)]
        rng.shuffle(m)
        return m
    if kind == "onto-constant":
        if n < 1 or not consts:
            return None
        return [[rng.choice(ps), rng.choice(consts)]]
    if kind == "moves-constant":
        if not consts:
            return None
        f = fresh_names(rng, 1, taken)[0]
        return [[rng.choice(consts), f]] + ([[ps[0], fresh_names(rng, 2, taken)[1]]] if ps else [])
    raise ValueError(kind)


# ---------------------------------------------------------------------------------------------- cases
def corpus_cases():
    out = []
    for f in load_findings(PROP):
        for k, wit in enumerate(f.get("witnesses", [f.get("witness")] if f.get("witness") else [])):
            if not wit or "domain_text" not in wit:
                continue
            out.append({"domain_text": wit["domain_text"], "objects": wit["objects"], "action": wit["action"],
                        "mapping": wit["mapping"], "kind": wit.get("kind", "corpus"), "probes": wit["probes"],
                        "features": ["corpus:%s" % f["id"]], "action_features": wit.get("action_features", []),
                        "witness_of": f["id"] if f.get("status") == "open" else None})
    return out


def subst_tree(t, old, new):
    if isinstance(t, str):
        return new if t == old else t
    return [subst_tree(x, old, new) for x in t]


def shadow_quantifiers(rng, a):
    """with some probability a quantifier re-uses the name of a parameter (legal PDDL: the inner binding hides the
    parameter); a renaming of that parameter must then leave the quantifier and its body alone"""
    ps = [p for p, _ in a["params"]]
    done = []

    def walk(t):
        if not isinstance(t, list):
            return t
        free_ps = [q for q in ps if json.dumps(q) not in json.dumps(t)] if t and t[0] == "forall" else []
        if t and t[0] == "forall" and len(t) == 3 and free_ps and rng.random() < 0.85:
            # only a parameter that does not occur below the quantifier (no repeated argument can arise: D07)
            v = t[1][0]
            p = rng.choice(free_ps)
            done.append(p)
            return ["forall", [p] + t[1][1:], walk(subst_tree(t[2], v, p))]
        return [walk(x) for x in t]
    a["pre"] = walk(a["pre"])
    a["eff"] = walk(a["eff"])
    return done


def enrich_pairs(rng, a):
    """several (in)equality pairs at one level (the generator rarely produces more than one)"""
    ps = [p for p, _ in a["params"]]
    pre = a["pre"]
    if len(ps) < 2 or not (isinstance(pre, list) and pre and pre[0] == "and"):
        return False
    extra = []
    for _ in range(rng.randint(2, 3)):
        x, y = rng.sample(ps, 2)
        extra.append(["=", x, y] if rng.random() < 0.5 else ["not", ["=", x, y]])
    if rng.random() < 0.5:
        a["pre"] = pre + extra
    else:
        a["pre"] = pre + [[rng.choice(["or", "and"])] + extra]
    return True


# hand-written regression cases that every run replays (beside the witnesses of the findings)
SHADOW_DOMAIN = """(define (domain dom) (:requirements :typing :universal-preconditions :conditional-effects :equality)
(:types t0 - object)
(:constants c0 - t0)
(:predicates (p ?a - t0 ?b - t0) (q ?a - t0))
(:functions (f ?a - t0))
(:action sh :parameters (?x - t0 ?y - t0 ?z - t0)
 :precondition (and (q ?x) (forall (?y - t0) (or (p ?y ?z) (q ?y))) (or (not (= ?x ?z)) (= ?y ?z)) (not (= ?x ?y)) (= ?z ?z))
 :effect (and (p ?x ?y) (increase (f ?z) (+ (f ?x) 1))
              (when (and (p ?y ?z) (or (= ?y ?x) (not (= ?y ?z)))) (and (not (q ?y)) (decrease (f ?y) (f ?z))))
              (forall (?x - t0) (when (and (p ?x ?z)) (and (q ?x) (not (p ?x c0))))))))
"""


def handwritten_cases():
    objs = [("o0", "t0"), ("o1", "t0"), ("o2", "t0")]
    states = [{"facts": [["q", ["o0"]], ["q", ["o1"]], ["p", ["o2", "o1"]], ["p", ["o0", "o1"]], ["p", ["o2", "c0"]], ["p", ["c0", "o1"]]],
               "fluents": [["f", ["o0"], 2.0], ["f", ["o1"], 0.5], ["f", ["o2"], 1.0], ["f", ["c0"], 0.0]]},
              {"facts": [["q", ["o0"]], ["q", ["o2"]], ["q", ["c0"]], ["p", ["o1", "o2"]], ["p", ["o1", "c0"]], ["p", ["o0", "o2"]]],
               "fluents": [["f", ["o0"], 1.0], ["f", ["o1"], 3.0], ["f", ["o2"], 0.0], ["f", ["c0"], 4.0]]}]
    calls = [["o0", "o2", "o1"], ["o0", "o1", "o2"], ["o2", "o0", "o2"], ["o0", "o0", "o1"]]
    probes = []
    for st in states:
        pt = G.problem_text(None, objs, {"facts": [(p, a) for p, a in st["facts"]], "fluents": [(f, a, v) for f, a, v in st["fluents"]]},
                            domain="dom")
        probes += [{"args": c, "state": st, "problem_text": pt} for c in calls]
    out = []
    for kind, m in [("fresh", [["?x", "?n0"], ["?y", "?n1"], ["?z", "?n2"]]),
                    ("library-style", [["?x", "?param_0"], ["?y", "?param_1"], ["?z", "?param_2"]]),
                    ("partial-fresh", [["?y", "?w"]]), ("partial-fresh", [["?x", "?w"]]),
                    ("chain", [["?z", "?w"], ["?x", "?z"]])]:
        out.append({"domain_text": SHADOW_DOMAIN, "objects": objs, "action": "sh", "mapping": m, "kind": kind, "probes": probes,
                    "features": ["handwritten:shadowing"], "action_features": ["when", "forall", "or", "eq-or-numeq", "increase",
                                                                               "decrease", "constant", "shadowing-quantifier",
                                                                               "several-pairs"],
                    "nparams": 3, "witness_of": None})
    return out


def action_features(a):
    txt = json.dumps([a["pre"], a["eff"]])
    fs = []
    for key, name in (('"when"', "when"), ('"forall"', "forall"), ('"or"', "or"), ('"="', "eq-or-numeq"),
                      ('"increase"', "increase"), ('"assign"', "assign"), ('"decrease"', "decrease")):
        if key in txt:
            fs.append(name)
    return fs


def uses_constant(w, a):
    txt = json.dumps([a["pre"], a["eff"]])
    return any('"%s"' % c in txt for c, _ in w.consts)


def generate(rng, tier):
    n_worlds = {"quick": 40, "thorough": 160}[tier]
    cases = []
    for _ in range(n_worlds):
        w = G.gen_world(rng, max_actions=2)
        if rng.random() < 0.35:
            name_declarations_like_parameters(w)
        shadowed = {}
        if rng.random() < 0.6:
            for a in w.actions:
                shadowed[a["name"]] = shadow_quantifiers(rng, a)
        enriched = {a["name"]: rng.random() < 0.3 and enrich_pairs(rng, a) for a in w.actions}
        objs = G.gen_objects(rng, w)
        text = G.render(w.domain_tree("dom"), rng, noise=rng.random() < 0.3)
        states = [G.gen_state(rng, w, objs) for _ in range(2)]
        ptxts = [G.problem_text(w, objs, st, domain="dom") for st in states]
        for a in w.actions:
            calls = G.calls_for(rng, w, objs, a, limit=3)
            probes = [{"args": args, "state": st, "problem_text": pt} for st, pt in zip(states, ptxts) for args in calls]
            kinds = rng.sample(ADMISSIBLE_KINDS, 3) + rng.sample(FOREIGN_KINDS, 1)
            if shadowed.get(a["name"]):
                # the hidden parameter must move while its namesake below the quantifier stays
                kinds = ["fresh", "library-style"] + kinds[1:]
            feats = action_features(a) + (["constant"] if uses_constant(w, a) else []) + \
                (["shadowing-quantifier"] if shadowed.get(a["name"]) else []) + \
                (["several-pairs"] if enriched.get(a["name"]) else []) + \
                (["constant-of-quantified-type"] if quantified_constant(w, a) else [])
            for kind in kinds:
                m = make_mapping(rng, w, a, kind)
                if m is None:
                    continue
                # a mapping that merges two parameters changes the arity of literals: no behaviour to compare
                cases.append({"domain_text": text, "objects": objs, "action": a["name"], "mapping": m, "kind": kind,
                              "probes": [] if kind in ("collapse", "onto-unrenamed", "onto-constant") else probes, "features": sorted(w.features), "action_features": feats,
                              "nparams": len(a["params"]), "witness_of": None,
                              "gen": {"params": [list(x) for x in a["params"]], "consts": [c for c, _ in w.consts],
                                      "bound": sorted(bound_vars(a["pre"]) | bound_vars(a["eff"]))}})
    return cases


# ---------------------------------------------------------------------------------------------- mirrored operands
# Actions whose operand SETS (top-level conjunction, nested and/or, forall bodies, when-conditions) and effect SETS hold
# members that are IMAGES OF EACH OTHER under the renaming that is going to be applied: (m ?a ?b) beside (m ?b ?a) for a
# swap, (q ?a) beside (q ?b) beside (q ?c) for a rotation or a chain.  The library keeps these members in hash sets keyed
# by their text, and change_signature changes that text in place: an implementation that renames the members while they
# sit in the set can lose one (the renamed member equals a sibling that has not been renamed yet).  The probe states
# separate the two members (one holds, its image does not), so the lost member shows in the behaviour as well as in
# the text.  Which member is lost depends on the set's iteration order, hence these cases run under several hash seeds.
MIRROR_KINDS = ["swap", "swap", "permutation", "rotation", "chain", "chain", "overlap"]
CMP_HEADS = ("<=", ">=", "<", ">")
NUM_EFFECT_HEADS = ("assign", "increase", "decrease")


def image(t, rho):
    """the tree t under the renaming rho; a quantifier hides its own variable"""
    if isinstance(t, str):
        return rho.get(t, t)
    if t and t[0] == "forall" and len(t) == 3 and isinstance(t[1], list) and t[1]:
        inner = {k: v for k, v in rho.items() if k != t[1][0]}
        return ["forall", list(t[1]), image(t[2], inner)]
    return [image(x, rho) for x in t]


def mentions(t, names):
    if isinstance(t, str):
        return t in names
    return any(mentions(x, names) for x in t)


def literal_of(t, preds):
    """(positive, atom) when t is a literal over a declared predicate"""
    if isinstance(t, list) and t and t[0] == "not" and len(t) == 2 and isinstance(t[1], list) and t[1] and t[1][0] in preds:
        return False, t[1]
    if isinstance(t, list) and t and t[0] in preds:
        return True, t
    return None


def canon(t):
    """a key that identifies a member up to the order of the members of and / or below it"""
    if isinstance(t, str):
        return t
    if t and t[0] in ("and", "or"):
        return json.dumps([t[0]] + sorted(set(canon(x) for x in t[1:])))
    return json.dumps([canon(x) for x in t])


class Planter:
    def __init__(self, rng, w, rho, params, p_image=0.75):
        self.rng, self.w, self.rho, self.p_image = rng, w, rho, p_image
        names = {p for p, _ in params}
        self.out_of_scope = {v for v in rho.values() if v not in names}     # fresh targets: not variables of the action
        self.preds = {n for n, _ in w.preds}
        self.pairs = []          # (member, image, [(bound variable, type)...]) for literal members
        self.where = set()

    def kind_of(self, x):
        if literal_of(x, self.preds):
            return "literal"
        if x[0] in CMP_HEADS or (x[0] == "=" and isinstance(x[1], list)):
            return "comparison"
        if x[0] == "=" or (x[0] == "not" and isinstance(x[1], list) and x[1] and x[1][0] == "="):
            return "eq-pair"
        if x[0] in ("and", "or", "forall"):
            return "nested-" + x[0]
        if x[0] in NUM_EFFECT_HEADS:
            return "numeric-effect"
        return None

    def plant_set(self, items, rho, where, bound):
        """add, beside members of one set, their images under rho (and the images of those: orbits of rotations)"""
        out = list(items)
        present = {canon(x) for x in out}
        k, added = 0, 0
        while k < len(out) and added < 4:
            x = out[k]
            k += 1
            kind = isinstance(x, list) and x and self.kind_of(x)
            if not kind:
                continue
            img = image(x, rho)
            if img == x or canon(img) in present or mentions(img, self.out_of_scope):
                continue
            lit = literal_of(img, self.preds)
            if lit and canon(["not", lit[1]] if lit[0] else lit[1]) in present:
                continue                              # the image would contradict a sibling
            if self.rng.random() >= self.p_image:
                continue
            out.append(img)
            present.add(canon(img))
            added += 1
            self.where.add("mirror:%s:%s" % (where, kind))
            if kind == "literal":
                self.pairs.append((x, img, list(bound), where))
        return out, added

    def fresh_pair(self, scope, rho, present):
        """a literal that the renaming moves, not yet in the set"""
        for _ in range(10):
            a = G.gen_atom(self.rng, self.w, scope)
            if a is None:
                return None
            img = image(a, rho)
            if img == a or mentions(img, self.out_of_scope):
                continue
            if any(canon(y) in present for y in (a, img, ["not", a], ["not", img])):
                continue
            return a if self.rng.random() < 0.65 else ["not", a]
        return None

    def condition(self, t, rho, scope, where, bound, p_fresh):
        """t = [and|or, members...] -> the same with images planted at every level"""
        kids = []
        for k in t[1:]:
            if isinstance(k, list) and k and k[0] in ("and", "or"):
                k = self.condition(k, rho, scope, where + "/nested", bound, p_fresh * 0.6)
            elif isinstance(k, list) and k and k[0] == "forall" and len(k) == 3:
                v, ty = k[1][0], k[1][2]
                inner = {a: b for a, b in rho.items() if a != v}
                k = ["forall", list(k[1]), self.condition(k[2], inner, scope + [(v, ty)], where + "/forall-body",
                                                          bound + [(v, ty)], p_fresh * 0.6)]
            kids.append(k)
        if self.rng.random() < p_fresh:
            lit = self.fresh_pair(scope, rho, {canon(x) for x in kids})
            if lit:
                kids.append(lit)
        kids, _ = self.plant_set(kids, rho, where, bound)
        return [t[0]] + kids

    def effect_set(self, items, rho, scope, where, bound, budget_ok, p_fresh):
        prims = [x for x in items if isinstance(x, list) and x and (literal_of(x, self.preds) or x[0] in NUM_EFFECT_HEADS)]
        rest = [x for x in items if x not in prims]
        if self.rng.random() < p_fresh:
            lit = self.fresh_pair(scope, rho, {canon(x) for x in prims})
            if lit and budget_ok(lit):
                prims.append(lit)
        prims, _ = self.plant_set(prims, rho, where, bound)
        return prims + rest


def as_conj(t):
    if isinstance(t, list) and t and t[0] == "and":
        return t
    return ["and"] + ([t] if t else [])


def polarity_table(eff):
    """predicate name -> set of polarities used anywhere in the effect (so that a planted literal keeps the groups
    consistent: never an add of a predicate that some group deletes)"""
    tab = {}

    def walk(t, in_cond):
        if not isinstance(t, list) or not t:
            return
        if t[0] == "when":
            walk(t[2], False)
            return
        if t[0] in ("and", "forall"):
            for x in t[1:]:
                walk(x, in_cond)
            return
        if t[0] == "not" and isinstance(t[1], list):
            tab.setdefault(t[1][0], set()).add(False)
            return
        if t[0] not in NUM_EFFECT_HEADS and not t[0].startswith("?"):
            tab.setdefault(t[0], set()).add(True)
    walk(eff, False)
    return tab


def plant_mirrors(rng, w, a, rho):
    """-> the planter (its pairs and places); a['pre'] and a['eff'] are replaced"""
    pl = Planter(rng, w, rho, a["params"])
    scope = list(a["params"])
    a["pre"] = pl.condition(as_conj(a["pre"]), rho, scope, "pre", [], 0.9)
    pol = polarity_table(a["eff"])

    def budget_ok(lit):
        pos, atom = literal_of(lit, pl.preds)
        return pol.setdefault(atom[0], {pos}) == {pos}
    items = []
    for e in as_conj(a["eff"])[1:]:
        if isinstance(e, list) and e and e[0] == "when":
            cond = pl.condition(as_conj(e[1]), rho, scope, "when-cond", [], 0.6)
            res = ["and"] + pl.effect_set(as_conj(e[2])[1:], rho, scope, "when-effect", [], budget_ok, 0.3)
            e = ["when", cond, res]
        elif isinstance(e, list) and e and e[0] == "forall" and len(e) == 3 and e[2][0] == "when":
            v, ty = e[1][0], e[1][2]
            inner = {x: y for x, y in rho.items() if x != v}
            sc = scope + [(v, ty)]
            cond = pl.condition(as_conj(e[2][1]), inner, sc, "forall-when-cond", [(v, ty)], 0.5)
            res = ["and"] + pl.effect_set(as_conj(e[2][2])[1:], inner, sc, "forall-when-effect", [(v, ty)], budget_ok, 0.2)
            e = ["forall", list(e[1]), ["when", cond, res]]
        items.append(e)
    items = pl.effect_set(items, rho, scope, "effect", [], budget_ok, 0.6)
    # a whole conditional effect beside its image (literal effects only: two groups must not write one function)
    for e in list(items):
        if isinstance(e, list) and e and e[0] == "when" and all(literal_of(x, pl.preds) for x in e[2][1:]) and rng.random() < 0.3:
            img = image(e, rho)
            if canon(img) != canon(e) and not mentions(img, pl.out_of_scope):
                items.append(img)
                pl.where.add("mirror:effect:when")
    rng.shuffle(items)
    a["eff"] = ["and"] + items
    return pl


def mirror_world(rng):
    """a world whose action has >= 2 parameters of ONE type (so that the image of a member under a renaming of these
    parameters is again type-correct), with a binary and a unary predicate and a function over that type, and - for the
    quantifiers - a constant of that type (constants are quantified over since D30)"""
    w = G.World()
    G.gen_types(rng, w, max_types=3)
    G.gen_vocab(rng, w)
    ty = rng.choice(w.all_types())
    sup = lambda: rng.choice(w.ancestors(ty))
    w.preds.append(("m0", [("?a0", sup()), ("?a1", sup())]))
    w.preds.append(("m1", [("?a0", sup())]))
    if rng.random() < 0.7:
        w.funcs.append(("g0", [("?a0", sup())]))
    subs = [t for t in w.all_types() if w.is_sub(t, ty)]
    if rng.random() < 0.6:
        w.consts.append(("k0", rng.choice(subs)))
    n = rng.choice([2, 2, 3, 3])
    params = [("?x%d" % k, ty) for k in range(n)]
    if rng.random() < 0.3:
        params.insert(rng.randint(0, n), ("?y0", rng.choice(w.all_types())))
    simple = rng.random() < 0.4
    if simple:
        # conjunctions of literals only: the probe states can be built to satisfy all but one member
        def lits(k):
            out = []
            for _ in range(k):
                at = G.gen_atom(rng, w, list(params))
                if at and all(json.dumps(x) not in {json.dumps(y) for y in out} for x in (at, ["not", at])):
                    out.append(at if rng.random() < 0.7 else ["not", at])
            return out
        pre = ["and"] + lits(rng.randint(0, 2))
        budget = G.EffectBudget()
        eff = ["and"] + [x for x in G.gen_prims(rng, w, list(params), budget, 0) if literal_of(x, {n for n, _ in w.preds})]
        if rng.random() < 0.7:
            prims = [x for x in G.gen_prims(rng, w, list(params), budget, 1) if literal_of(x, {n for n, _ in w.preds})]
            if prims:
                eff.append(["when", ["and"] + lits(rng.randint(1, 2)), ["and"] + prims])
    else:
        pre = as_conj(G.gen_precondition(rng, w, params))
        if rng.random() < 0.5:
            v = "?q2"
            body = [x for x in (G.gen_form(rng, w, list(params) + [(v, ty)], 0, True, True) for _ in range(rng.randint(1, 2))) if x]
            if body:
                pre.append(["forall", [v, "-", ty], [rng.choice(["and", "or"])] + body])
                w.features.add("forall-pre")
        eff = G.gen_effect(rng, w, params)
    a = {"name": "act0", "params": params, "group": False, "pre": pre, "eff": eff}
    w.actions.append(a)
    return w, a, ty, simple


def ground(atom, binding):
    return [atom[0], [binding.get(x, x) for x in atom[1:]]]


def with_fact(state, fact, present):
    facts = [f for f in state["facts"] if [f[0], list(f[1])] != fact]
    if present:
        facts.append((fact[0], list(fact[1])))
    return {"facts": facts, "fluents": state["fluents"]}


def mirror_cases(rng, tier):
    n_worlds = {"quick": 18, "thorough": 80}[tier]
    cases = []
    while n_worlds > 0:
        w, a, ty, simple = mirror_world(rng)
        group = [(p, t) for p, t in a["params"] if p.startswith("?x")]
        others = [p for p, _ in a["params"] if not p.startswith("?x")]
        kind = rng.choice(MIRROR_KINDS)
        m = make_mapping(rng, w, {"params": group, "pre": a["pre"], "eff": a["eff"]}, kind, extra_taken=others)
        if m is None:
            continue
        n_worlds -= 1
        rho = {o: n for o, n in m}
        pl = plant_mirrors(rng, w, a, rho)
        preds = pl.preds
        # objects: at least two of the parameters' type (or below), so that calls with distinct arguments exist
        subs = [t for t in w.all_types() if w.is_sub(t, ty)]
        objs = [("o%d" % i, rng.choice(subs)) for i in range(rng.randint(2, 3))]
        text = G.render(w.domain_tree("dom"), rng, noise=rng.random() < 0.2)
        universe = list(objs) + list(w.consts)
        calls = G.calls_for(rng, w, objs, a, limit=40)
        calls.sort(key=lambda c: -len(set(c)))                   # distinct arguments first (stable: random within)
        calls = calls[:2]
        probes = []
        for args in calls:
            binding = dict(zip([p for p, _ in a["params"]], args))
            base = G.gen_state(rng, w, objs, density=rng.choice([0.35, 0.6]))
            if simple:
                # make every literal of the precondition (and of the first when-condition) true
                conds = list(a["pre"][1:])
                for e in a["eff"][1:]:
                    if e[0] == "when" and rng.random() < 0.7:
                        conds += e[1][1:]
                for c in conds:
                    lit = literal_of(c, preds)
                    if lit and not mentions(lit[1], {"?q2", "?u"}):
                        base = with_fact(base, ground(lit[1], binding), lit[0])
            states = [base]
            pairs = list(pl.pairs)
            rng.shuffle(pairs)
            for x, img, bound, _ in pairs[:2]:
                b = dict(binding)
                for v, vt in bound:
                    pool = [o for o, t in universe if w.is_sub(t, vt)]
                    if pool:
                        b[v] = rng.choice(pool)
                pos, atom = literal_of(x, preds)
                g0, g1 = ground(atom, b), ground(literal_of(img, preds)[1], b)
                if g0 == g1 or any(s.startswith("?") for s in g0[1] + g1[1]):
                    continue
                # one member holds, its image does not - and the other way round
                states.append(with_fact(with_fact(base, g0, pos), g1, not pos))
                states.append(with_fact(with_fact(base, g0, not pos), g1, pos))
            for st in states[:4]:
                probes.append({"args": args, "state": st, "problem_text": G.problem_text(w, objs, st, domain="dom")})
        feats = action_features(a) + (["constant"] if uses_constant(w, a) else []) + sorted(pl.where) + \
            (["mirror-simple"] if simple else []) + \
            (["constant-of-quantified-type"] if quantified_constant(w, a) else [])
        maps = [(kind, m)]
        # the same action under fresh names: nothing may be lost there either
        maps.append(("fresh", make_mapping(rng, w, a, "fresh")))
        for k2, m2 in maps:
            cases.append({"domain_text": text, "objects": objs, "action": a["name"], "mapping": m2, "kind": k2,
                          "probes": probes, "features": sorted(w.features) + ["mirror"], "action_features": feats,
                          "nparams": len(a["params"]), "witness_of": None, "mirror": k2 != "fresh",
                          "gen": {"params": [list(x) for x in a["params"]], "consts": [c for c, _ in w.consts],
                                  "bound": sorted(bound_vars(a["pre"]) | bound_vars(a["eff"]))}})
    return cases


# ---------------------------------------------------------------------------------------------- several calls in a row
SEQUENCE_KINDS = ["roundtrip", "twice", "then", "there-and-back-and-on"]


def turned(m):
    return [[new, old] for old, new in m if old != new]


def sequence_cases(rng, base_cases, n):
    """change_signature called several times on the same action: a mapping and then its inverse (back to the original
    action), the same mapping twice (a swap twice is the identity, a rotation twice another rotation, a chain twice
    collapses - decided inside Coq), a second mapping chosen for the action as renamed by the first"""
    pool = [c for c in base_cases if c.get("gen") and c["kind"] in ADMISSIBLE_KINDS and c["kind"] != "identity"
            and len(c["gen"]["params"]) >= 1]
    rng.shuffle(pool)
    out = []
    for c in pool:
        if len(out) >= n:
            break
        g = c["gen"]
        m = c["mapping"]
        rho = {o: nw for o, nw in m}
        how = rng.choice(SEQUENCE_KINDS)
        renamed = {"params": [(rho.get(p, p), t) for p, t in g["params"]], "pre": [["forall", [b]] for b in g["bound"]], "eff": []}
        w = FixtureWorld(g["consts"])
        if how == "roundtrip":
            back = turned(m)
            rng.shuffle(back)
            more = [back]
        elif how == "twice":
            more = [m] + ([m] if rng.random() < 0.3 else [])
        elif how == "then":
            m2 = make_mapping(rng, w, renamed, rng.choice([k for k in ADMISSIBLE_KINDS if k != "identity"]))
            if m2 is None:
                continue
            more = [m2]
        else:
            m2 = make_mapping(rng, w, {"params": g["params"], "pre": renamed["pre"], "eff": []},
                              rng.choice(["swap", "rotation", "chain", "fresh", "overlap"]))
            if m2 is None:
                continue
            more = [turned(m), m2]
        if not any(more):
            continue
        d = dict(c)
        d.update({"more": more, "kind": "%s:%s" % (how, c["kind"]), "witness_of": None, "mirror": False,
                  "action_features": c["action_features"] + ["sequence:" + how]})
        # a sequence that merges two parameters on its way (a chain applied twice) leaves literals with a repeated
        # argument: no behaviour to compare, as for the single mappings of kind 'collapse'
        names = [p for p, _ in g["params"]]
        for step in [m] + more:
            r = {o: nw for o, nw in step}
            names = [r.get(p, p) for p in names]
            if len(set(names)) < len(names):
                d["probes"] = []
                d["action_features"] = d["action_features"] + ["sequence-collapses"]
                break
        out.append(d)
    return out


def quantified_constant(w, a):
    """the domain declares a constant whose type conforms to the type of a quantifier of the action (D30: constants are
    quantified over)"""
    tys = set()

    def walk(t):
        if isinstance(t, list):
            if t and t[0] == "forall" and len(t) == 3 and isinstance(t[1], list) and len(t[1]) == 3:
                tys.add(t[1][2])
            for x in t:
                walk(x)
    walk(a["pre"])
    walk(a["eff"])
    return any(w.is_sub(ct, t) for _, ct in w.consts for t in tys)



# ---------------------------------------------------------------------------------------------- declarations named like parameters
# The variables of the (:predicates ...) / (:functions ...) declarations carry names of their own (pddlgen: ?a0 ?a1); a
# hand-written domain usually re-uses ONE name for the declaration and for the action parameter - (fuel ?v - vehicle) used
# as (fuel ?v).  An application whose arguments are literally the declaration's variables is where an implementation can
# be tempted to share the declared object with the action (zero-arity applications already do); a renaming in place then
# shows (a) in the domain's declarations and in the other actions, (b) - with overlapping names - in the renamed action
# itself, once per occurrence of the shared object (an even number of swaps is no swap).
def name_declarations_like_parameters(w):
    """?a<k> -> ?x<k> in every declaration (the action parameters of pddlgen are ?x0 ?x1 ...)"""
    w.preds = [(n, [("?x" + v[2:], t) for v, t in ps]) for n, ps in w.preds]
    w.funcs = [(n, [("?x" + v[2:], t) for v, t in ps]) for n, ps in w.funcs]
    w.features.add("declarations-named-like-parameters")


def tree_count(t, sub):
    if t == sub:
        return 1
    return sum(tree_count(x, sub) for x in t) if isinstance(t, list) else 0


def written_functions(eff):
    out = set()

    def walk(t):
        if isinstance(t, list) and t:
            if t[0] in NUM_EFFECT_HEADS and isinstance(t[1], list):
                out.add(t[1][0])
            for x in t:
                walk(x)
    walk(eff)
    return out


def alias_world(rng):
    """a world whose declarations are written over the parameters of its actions: every declared predicate / function takes
    some of the action parameters, under their own names, in the declaration's order"""
    w = G.World()
    G.gen_types(rng, w, max_types=3)
    ts = w.all_types()
    for i in range(rng.randint(0, 1)):
        w.consts.append(("c%d" % i, rng.choice(ts)))
    n = rng.choice([2, 2, 3])
    params = [("?x%d" % k, rng.choice(ts)) for k in range(n)]
    if rng.random() < 0.5:
        params = [(p, params[0][1]) for p, _ in params]       # one type: every call shape is type-correct
    def decl(prefix, i, arities):
        ar = rng.choice(arities)
        chosen = rng.sample(params, ar)
        if rng.random() < 0.7:
            chosen.sort()
        return (prefix + str(i), [(p, rng.choice(w.ancestors(t))) for p, t in chosen])
    for i in range(rng.randint(2, 3)):
        w.preds.append(decl("p", i, [1, 1, 2]))
    for i in range(rng.randint(1, 3)):
        # (arity <= 1 as in pddlgen: a grounded fluent with a repeated object collapses in the library's name-keyed
        #  dicts, D07 - not this property's business)
        w.funcs.append(decl("f", i, [1, 1, 1, 0]))
    w.features.add("declarations-named-like-parameters")
    for k in range(rng.choice([1, 2, 2])):
        a = {"name": "act%d" % k, "params": list(params), "group": rng.random() < 0.3,
             "pre": as_conj(G.gen_precondition(rng, w, params)), "eff": G.gen_effect(rng, w, params)}
        w.actions.append(a)
    return w, params


def plant_echoes(rng, w, a):
    """further occurrences of the applications that are spelt exactly like their declaration - in the precondition, inside
    a nested or, in a when-condition, on the right-hand side and as the target of a numeric effect - so that one action
    holds the same application 1, 2, 3, 4 ... times"""
    apps = [[f] + [p for p, _ in ps] for f, ps in w.funcs if ps]
    papps = [[q] + [p for p, _ in ps] for q, ps in w.preds if ps]
    rng.shuffle(apps)
    nums = list(G.DOMAIN_NUMERALS)
    written = written_functions(a["eff"])
    pre = as_conj(a["pre"])
    eff = as_conj(a["eff"])
    for app in apps[:2]:
        k = rng.randint(1, 4)
        for place in [rng.choice(["pre", "pre-or", "when-cond", "write", "write-self", "forall-cond"]) for _ in range(k)]:
            cmp_ = [rng.choice(CMP_HEADS), app, nums.pop(rng.randrange(len(nums)))] if nums else None
            if place == "pre" and cmp_:
                pre.append(cmp_)
            elif place == "pre-or" and cmp_:
                other = G.gen_atom(rng, w, list(a["params"]))
                pre.append(["or", cmp_] + ([other] if other else []))
            elif place == "when-cond" and cmp_:
                lit = G.gen_atom(rng, w, list(a["params"]))
                pol = polarity_table(eff)
                if lit and pol.get(lit[0], {True}) == {True}:
                    eff.append(["when", ["and", cmp_], ["and", lit]])
            elif place == "forall-cond" and cmp_:
                ty = rng.choice(w.all_types())
                un = [q for q, ps in w.preds if len(ps) == 1 and w.is_sub(ty, ps[0][1])]
                pol = polarity_table(eff)
                un = [q for q in un if pol.get(q, {True}) == {True}]
                if un:
                    eff.append(["forall", ["?u7", "-", ty], ["when", ["and", cmp_], ["and", [rng.choice(un), "?u7"]]]])
            elif place in ("write", "write-self") and app[0] not in written:
                written.add(app[0])
                rhs = rng.choice(G.DOMAIN_NUMERALS) if place == "write" else [rng.choice(["+", "*", "-"]), app, rng.choice(["1", "2", "0.5"])]
                eff.append([rng.choice(NUM_EFFECT_HEADS), app, rhs])
    for papp in papps[:1]:
        pol = polarity_table(eff)
        if rng.random() < 0.6 and not mentions(pre, {"__never__"}) and canon(papp) not in {canon(x) for x in pre[1:]} \
                and canon(["not", papp]) not in {canon(x) for x in pre[1:]}:
            pre.append(papp if rng.random() < 0.7 else ["not", papp])
        if rng.random() < 0.5 and pol.get(papp[0], {True}) == {True} and canon(papp) not in {canon(x) for x in eff[1:]}:
            eff.append(papp)
    a["pre"], a["eff"] = pre, eff
    return {json.dumps(app): tree_count([pre, eff], app) for app in apps[:2]}


ALIAS_KINDS = ["swap", "swap", "rotation", "chain", "chain", "permutation", "overlap", "fresh", "library-style", "partial-fresh"]


def alias_cases(rng, tier):
    n_worlds = {"quick": 12, "thorough": 40}[tier]
    cases = []
    for _ in range(n_worlds):
        w, params = alias_world(rng)
        counts = {}
        for a in w.actions:
            counts[a["name"]] = plant_echoes(rng, w, a)
        objs = [("o%d" % i, rng.choice([t for _, t in params] + w.all_types())) for i in range(rng.randint(2, 3))]
        text = G.render(w.domain_tree("dom"), rng, noise=rng.random() < 0.2)
        states = [G.gen_state(rng, w, objs, density=rng.choice([0.5, 0.8])) for _ in range(2)]
        ptxts = [G.problem_text(w, objs, st, domain="dom") for st in states]
        a = w.actions[0]
        calls = G.calls_for(rng, w, objs, a, limit=40)
        calls.sort(key=lambda c: -len(set(c)))
        calls = calls[:3]
        probes = [{"args": args, "state": st, "problem_text": pt} for st, pt in zip(states, ptxts) for args in calls]
        occ = sorted(set(counts[a["name"]].values()))
        feats = action_features(a) + (["constant"] if uses_constant(w, a) else []) + \
            ["declared-application-occurs:%s" % ("even" if c % 2 == 0 else "odd") for c in occ if c] + \
            (["other-action-shares-applications"] if len(w.actions) > 1 else [])
        for kind in rng.sample(ALIAS_KINDS, 3):
            m = make_mapping(rng, w, a, kind)
            if m is None:
                continue
            cases.append({"domain_text": text, "objects": objs, "action": a["name"], "mapping": m, "kind": kind,
                          "probes": probes, "features": sorted(w.features), "action_features": sorted(set(feats)),
                          "nparams": len(a["params"]), "witness_of": None,
                          "gen": {"params": [list(x) for x in a["params"]], "consts": [c for c, _ in w.consts],
                                  "bound": sorted(bound_vars(a["pre"]) | bound_vars(a["eff"]))}})
    return cases


# ---------------------------------------------------------------------------------------------- names shaped like fresh names
# Since eb5fde6 a quantifier whose variable ?v is the NEW name of some parameter renames itself to the first of ?v_0, ?v_1 ...
# that is free.  The mappings here take their new names from a pool that holds the quantified variables of the action AND the
# names of that shape (?v_0, ?v_1, ?v_0_0, ?v_00 ...), and the actions already carry such names: as a parameter, as the
# variable of another (possibly nested) quantifier, inside the quantifier's body.
def family(v):
    return [v + "_0", v + "_1", v + "_2", v + "_0_0", v + "_00", v + "_10", v + "_0x"]


def rename_everywhere(a, old, new):
    a["params"] = [(new if p == old else p, t) for p, t in a["params"]]
    a["pre"] = subst_tree(a["pre"], old, new)
    a["eff"] = subst_tree(a["eff"], old, new)


def nest_quantifier(rng, w, a, name):
    """wrap one member of the body of a forall precondition into a further quantifier (named name)"""
    done = []

    def walk(t):
        if not isinstance(t, list):
            return t
        if t and t[0] == "forall" and len(t) == 3 and isinstance(t[2], list) and t[2] and t[2][0] in ("and", "or") \
                and len(t[2]) > 1 and not done and t[1][0] != name:
            ty = rng.choice(w.all_types())
            k = rng.randrange(1, len(t[2]))
            inner = [t[2][k]]
            extra = G.gen_atom(rng, w, [(name, ty), (t[1][0], t[1][2])] + list(a["params"]))
            if extra and name in extra and extra != t[2][k]:
                inner.append(extra if rng.random() < 0.7 else ["not", extra])
            body = list(t[2])
            body[k] = ["forall", [name, "-", ty], [rng.choice(["and", "or"])] + inner]
            done.append(name)
            return ["forall", list(t[1]), body]
        return [walk(x) for x in t]
    a["pre"] = walk(a["pre"])
    return bool(done)


def alpha_world(rng):
    while True:
        w = G.gen_world(rng, max_actions=1)
        a = w.actions[0]
        if not a["params"]:
            continue
        a["pre"] = as_conj(a["pre"])
        if not bound_vars(a["pre"]) and w.types or rng.random() < 0.4:
            # a forall precondition whose body mentions parameters
            ty = rng.choice(w.all_types())
            v = rng.choice(["?q2", "?v", "?x"])
            if v in {p for p, _ in a["params"]} | bound_vars(a["eff"]) | bound_vars(a["pre"]):
                v = "?q3"
            scope = list(a["params"]) + [(v, ty)]
            body = [x for x in (G.gen_form(rng, w, scope, 1, True, True) for _ in range(rng.randint(1, 3))) if x]
            for _ in range(12):
                if mentions(body, {v}):
                    break                                      # the quantified variable is read by its body
                x = G.gen_form(rng, w, scope, 1, True, True)
                if x and mentions(x, {v}):
                    body.append(x)
            if body:
                a["pre"].append(["forall", [v, "-", ty], [rng.choice(["and", "or"])] + body])
                w.features.add("forall-pre")
        if not bound_vars(a["eff"]) and rng.random() < 0.7:
            # a forall-when effect whose effect part mentions a parameter beside the quantified variable
            ty = rng.choice(w.all_types())
            scope = list(a["params"]) + [("?u", ty)]
            cond = [x for x in (G.gen_form(rng, w, scope, 1, True, in_forall=True) for _ in range(rng.randint(1, 2))) if x]
            pol = polarity_table(a["eff"])
            lits = []
            for _ in range(6):
                lit = G.gen_atom(rng, w, scope)
                if lit and "?u" in lit and pol.get(lit[0], {True}) == {True} and lit not in lits:
                    lits.append(lit)
            if cond and lits:
                a["eff"] = as_conj(a["eff"]) + [["forall", ["?u", "-", ty], ["when", ["and"] + cond, ["and"] + lits[:2]]]]
                w.features.add("forall-when")
        if bound_vars(a["pre"]) | bound_vars(a["eff"]):
            return w, a


def quantifier_trees(a, var):
    """the (forall (var - ty) ...) subtrees of the action"""
    out = []

    def walk(t):
        if isinstance(t, list):
            if t and t[0] == "forall" and len(t) == 3 and isinstance(t[1], list) and t[1] and t[1][0] == var:
                out.append(t)
            for x in t:
                walk(x)
    walk(a["pre"])
    walk(a["eff"])
    return out


def shape_names(rng, w, a, v):
    """give names of the shape the library would pick for the quantified variable v (v_0, v_1 ...; v_00, v_0x: candidates
    that are SUBSTRINGS of a name) to parameters of the action, chosen by WHERE they occur: inside v's quantifier (in the
    condition / only in the effect part of a forall-when), only outside it (then the name is a key of the mapping and not
    in the quantifier's text); to another quantified variable; to a further, nested quantifier -> tags"""
    tags = []
    fam = family(v)
    qts = quantifier_trees(a, v)
    ps = [p for p, _ in a["params"]]
    inside = [p for p in ps if any(mentions(q, {p}) for q in qts)]
    outside = [p for p in ps if p not in inside]
    eff_only = [p for p in ps for q in qts if isinstance(q[2], list) and q[2] and q[2][0] == "when"
                and mentions(q[2][2], {p}) and not mentions(q[2][1], {p})]
    eff_q = [q for q in qts if isinstance(q[2], list) and q[2] and q[2][0] == "when"]
    feasible = (["inside", "inside-substring"] if inside else []) + (["outside", "outside"] if outside else []) + \
        (["effect-only"] * 4 if eff_q else []) + ["none"]
    place = rng.choice(feasible)
    if place == "effect-only" and not eff_only and eff_q:
        # plant a literal effect that mentions a parameter beside the quantified variable
        q = eff_q[0]
        pol = polarity_table(a["eff"])
        for _ in range(30):
            cands = [p for p in ps if not mentions(q[2][1], {p})]
            if not cands:
                break
            p = rng.choice(cands)
            lit = G.gen_atom(rng, w, [(v, q[1][2]), (p, dict(a["params"])[p])])
            if lit and p in lit and pol.get(lit[0], {True}) == {True}:
                res = as_conj(q[2][2])
                if canon(lit) not in {canon(x) for x in res[1:]}:
                    q[2][2] = res + [lit]
                    eff_only = [p]
                    break
    chosen = None
    if place == "inside" and inside:
        chosen, new = rng.choice(inside), rng.choice(fam[:3])
    elif place == "inside-substring" and inside:
        chosen, new = rng.choice(inside), rng.choice(fam[3:])
    elif place == "outside" and outside:
        chosen, new = rng.choice(outside), rng.choice(fam[:2])
    elif place == "effect-only" and eff_only:
        chosen, new = rng.choice(eff_only), rng.choice(fam[:2])
    moved_key = None
    if chosen:
        rename_everywhere(a, chosen, new)
        fam.remove(new)
        tags.append("parameter-" + place)
        if place == "outside":
            moved_key = new
    bound = sorted(bound_vars(a["pre"]) | bound_vars(a["eff"]))
    others = [b for b in bound if b != v]
    if others and rng.random() < 0.4:
        b = rng.choice(others)
        new = rng.choice(fam[:3])
        a["pre"], a["eff"] = subst_tree(a["pre"], b, new), subst_tree(a["eff"], b, new)
        fam.remove(new)
        tags.append("other-quantifier")
    if rng.random() < 0.35 and nest_quantifier(rng, w, a, rng.choice(fam[:2])):
        tags.append("nested-quantifier")
    return tags, moved_key


def alpha_cases(rng, tier):
    n_worlds = {"quick": 20, "thorough": 60}[tier]
    cases = []
    for _ in range(n_worlds):
        w, a = alpha_world(rng)
        bound = sorted(bound_vars(a["pre"]) | bound_vars(a["eff"]))
        eff_bound = sorted(bound_vars(a["eff"]))
        v = rng.choice(eff_bound) if eff_bound and rng.random() < 0.6 else rng.choice(bound)
        shaped, moved_key = shape_names(rng, w, a, v)
        ps = [p for p, _ in a["params"]]
        bound = sorted(bound_vars(a["pre"]) | bound_vars(a["eff"]))
        consts = {c for c, _ in w.consts}
        objs = G.gen_objects(rng, w)
        text = G.render(w.domain_tree("dom"), rng, noise=rng.random() < 0.2)
        states = [G.gen_state(rng, w, objs) for _ in range(2)]
        ptxts = [G.problem_text(w, objs, st, domain="dom") for st in states]
        calls = G.calls_for(rng, w, objs, a, limit=3)
        probes = [{"args": args, "state": st, "problem_text": pt} for st, pt in zip(states, ptxts) for args in calls]
        feats = action_features(a) + (["constant"] if uses_constant(w, a) else []) + \
            ["fresh-shaped-name:" + x for x in shaped] + \
            (["constant-of-quantified-type"] if quantified_constant(w, a) else [])
        fresh = fresh_names(rng, 2, set(ps) | set(bound) | consts)
        done = set()
        for _ in range(3):
            # new names: a quantified variable, then (mostly) the names the library would pick for it, in order
            b = v if v in bound and rng.random() < 0.8 else rng.choice(bound)
            order = [p for p in ps if p != moved_key]
            rng.shuffle(order)
            k = rng.randint(1, len(order)) if order else 0
            movers = order[:k]
            ladder = [b] + [x for x in family(b)[:2 if rng.random() < 0.7 else 1]]
            if moved_key and rng.random() < 0.6:
                ladder = [b]                                   # the first candidate is then the moved parameter's old name
            pool = [x for x in bound + family(v) + fresh + ps if x not in ladder and x not in consts]
            targets = []
            for i, p in enumerate(movers):
                if i < len(ladder) and rng.random() < 0.85:
                    targets.append(ladder[i])
                else:
                    targets.append(rng.choice([x for x in pool if x not in targets]))
            if moved_key and rng.random() < 0.8:
                # the parameter that carries a fresh-shaped name and lives outside the quantifier moves too: its name is a
                # KEY of the mapping that the quantifier's text does not show
                movers.append(moved_key)
                targets.append(rng.choice([x for x in fresh + [p for p in ps if p != moved_key] if x not in targets] or fresh))
            if not movers or len(set(targets)) < len(targets):
                continue
            rho = dict(zip(movers, targets))
            if len({rho.get(p, p) for p in ps}) < len(ps):
                continue                                       # two parameters under one name: not a renaming
            m = [[p, rho[p]] for p in movers]
            if all(o == nw for o, nw in m):
                continue
            if rng.random() < 0.5:
                rng.shuffle(m)
            key = json.dumps(m)
            if key in done:
                continue
            done.add(key)
            cases.append({"domain_text": text, "objects": objs, "action": a["name"], "mapping": m, "kind": "alpha-pool",
                          "probes": probes, "features": sorted(w.features), "action_features": sorted(set(feats)),
                          "nparams": len(ps), "witness_of": None})
    return cases


# ---------------------------------------------------------------------------------------------- shipped fixtures
FIXTURE_PROBLEMS = {"models_tests/domain_miconic.pddl": "models_tests/miconic_pfile_1-0.pddl",
                    "models_tests/miconic_learned_domain.pddl": "models_tests/miconic_pfile_1-0.pddl",
                    "models_tests/nurikabe_domain.pddl": "models_tests/nurikabe_problem.pddl",
                    "exporters_tests/domain_spider.pddl": "exporters_tests/pfile01_spider.pddl"}


def shipped_domain_files(repo):
    """the domain files the repository ships with its tests"""
    found = set()
    for f in glob.glob(os.path.join(str(repo), "tests/**/*.pddl"), recursive=True):
        try:
            head = open(f, "r", errors="replace").read(4000).lower().replace("\n", " ")
        except OSError:
            continue
        if "(domain " in head and "(problem " not in head and "(:domain" not in head:
            found.add(f)
    return sorted(found)


class FixtureWorld:
    """just enough of pddlgen.World for make_mapping"""

    def __init__(self, consts):
        self.consts = [(c, None) for c in consts]


def fixture_cases(rng, tier):
    from ..common import REPO
    files = shipped_domain_files(REPO)
    max_bytes = {"quick": 9000, "thorough": 40000}[tier]
    per_domain = {"quick": 2, "thorough": 8}[tier]
    jobs, skipped = [], []
    if tier == "quick":
        # a sample of the files per run (every file is covered over a few seeds; the thorough tier takes all)
        paired = [f for f in files if os.path.relpath(f, str(REPO / "tests")) in FIXTURE_PROBLEMS]
        others = [f for f in files if f not in paired]
        rng.shuffle(others)
        files = sorted(paired + others[:10])
    for f in files:
        rel = os.path.relpath(f, str(REPO / "tests"))
        if os.path.getsize(f) > max_bytes:
            skipped.append({"file": rel, "why": "larger than %d bytes in this tier" % max_bytes})
            continue
        prob = FIXTURE_PROBLEMS.get(rel)
        jobs.append({"op": "c18.fixture_info", "domain": f, "problem": str(REPO / "tests" / prob) if prob else None,
                     "seed": rng.randint(1, 10 ** 6), "calls": 3, "steps": 2, "rel": rel})
    cases = []
    for job, info in zip(jobs, run_impl(jobs, nproc=min(8, max(1, len(jobs))))):
        if "actions" not in info:
            skipped.append({"file": job["rel"], "why": "the library rejects it: %s" % info.get("raised")})
            continue
        try:
            info["domain_text"].encode("latin-1")
        except UnicodeEncodeError:
            skipped.append({"file": job["rel"], "why": "non-latin1 text"})
            continue
        names = sorted(info["actions"], key=lambda n: -(len(info["actions"][n]["params"]) + 2 * info["actions"][n]["n_when"]
                                                        + 2 * info["actions"][n]["n_forall"]))
        big = [n for n in names if info["actions"][n].get("text_len", 0) > 6000]
        if big:
            skipped.append({"file": job["rel"], "why": "actions with more than 6000 characters of text left out: %s" % ", ".join(big)})
        chosen = [n for n in names if n not in big][:per_domain]
        w = FixtureWorld(info["consts"])
        for name in chosen:
            ai = info["actions"][name]
            action = {"params": [tuple(x) for x in ai["params"]], "pre": [["forall", [b]] for b in ai["bound"]], "eff": []}
            probes = []
            for stt in info["states"]:
                o = []
                for n, t in info["objects"]:
                    o += [n, "-", t]
                st = stt["state"]
                init = [["=", [fn] + a, repr(float.fromhex(v))] for fn, a, v in st["fluents"]] + [[p] + a for p, a in st["facts"]]
                ptxt = G.render(["define", ["problem", "fx"], [":domain", info["domain_name"]], [":objects"] + o,
                                 [":init"] + init, [":goal", ["and"]]])
                for args in stt["calls"].get(name, []):
                    probes.append({"args": args, "state": st, "problem_text": ptxt})
            kinds = ["library-style"] + rng.sample(["rotation", "swap", "chain", "permutation", "overlap"], 1)
            for kind in kinds:
                m = make_mapping(rng, w, action, kind)
                if m is None:
                    continue
                cases.append({"domain_text": info["domain_text"], "objects": [tuple(x) for x in info["objects"]], "action": name,
                              "mapping": m, "kind": kind, "probes": probes, "features": ["fixture:" + job["rel"]],
                              "action_features": (["when"] if ai["n_when"] else []) + (["forall"] if ai["n_forall"] or ai["bound"] else []),
                              "nparams": len(ai["params"]), "witness_of": None})
    return cases, skipped


# ---------------------------------------------------------------------------------------------- exhaustive small scope
def exhaustive_cases(rng, n_actions):
    """for some generated actions: EVERY injective mapping of the parameters into (the parameters + two fresh names),
    i.e. all permutations, all partial overlaps, all chains of that action at once"""
    cases, done = [], 0
    while done < n_actions:
        w = G.gen_world(rng, max_actions=1)
        a = w.actions[0]
        ps = [p for p, _ in a["params"]]
        if len(ps) < 2:
            continue
        done += 1
        objs = G.gen_objects(rng, w)
        text = G.render(w.domain_tree("dom"))
        st = G.gen_state(rng, w, objs)
        ptxt = G.problem_text(w, objs, st, domain="dom")
        probes = [{"args": args, "state": st, "problem_text": ptxt} for args in G.calls_for(rng, w, objs, a, limit=2)]
        bound = bound_vars(a["pre"]) | bound_vars(a["eff"])
        fresh = fresh_names(rng, 2, set(ps) | bound | {c for c, _ in w.consts})
        feats = action_features(a) + (["constant"] if uses_constant(w, a) else [])
        for image in itertools.permutations(ps + fresh, len(ps)):
            m = [[p, q] for p, q in zip(ps, image)]
            cases.append({"domain_text": text, "objects": objs, "action": a["name"], "mapping": m, "kind": "exhaustive",
                          "probes": probes, "features": sorted(w.features), "action_features": feats,
                          "nparams": len(ps), "witness_of": None})
    return cases


def cpairs(pairs):
    return clist(["(%s, %s)" % (cstr(a), cstr(b)) for a, b in pairs])


def case_literal(c, res, eps_hex):
    nums = clist(["(%s, %s)" % (cstr(k), chex(float.fromhex(v))) for k, v in sorted(res["nums"].items())])
    objs = cpairs(c["objects"])
    renamed_ok = "value" in res.get("renamed", {})
    sig = "(Returned %s)" % cpairs(res["sig"]) if renamed_ok else "Raised"
    p1 = res.get("print1", {})
    print1 = "(Returned %s)" % cstr(p1["value"]) if renamed_ok and "value" in p1 else "Raised"
    probes = []
    if renamed_ok:
        for pr, r in zip(c["probes"], res["probes"]):
            o, n = r["orig"], r["ren"]
            if "problem_raised" in o or "problem_raised" in n:
                continue
            probes.append("{| q_args := %s; q_state := %s; q_app0 := %s; q_succ0 := %s; q_app1 := %s; q_succ1 := %s |}" % (
                clist([cstr(a) for a in pr["args"]]), cstate(pr["state"]), cobs_bool(o["app"]), cobs_state(o["succ"]),
                cobs_bool(n["app"]), cobs_state(n["succ"])))
    r1 = res.get("rest1", {})
    rest1 = "(Returned %s)" % cstr(r1["value"]) if "value" in r1 else "Raised"
    lit = ("{| r_text := %s; r_nums := %s; r_eps := %s; r_objs := %s; r_action := %s; r_map := %s; r_more := %s; r_sig := %s; "
           "r_print0 := %s; r_print1 := %s; r_rest0 := %s; r_rest1 := %s; r_probes := %s |}") % (
        cstr(c["domain_text"]), nums, chex(float.fromhex(eps_hex)), objs, cstr(c["action"]), cpairs(c["mapping"]),
        clist([cpairs(m) for m in c.get("more", [])]), sig,
        cstr(res.get("print0", "")), print1, cstr(res.get("rest0", "")), rest1, clist(probes))
    return lit, NU + 2 * len(probes), len(probes)


UNIT_NAMES = ["signature", "text", "isolation"]
NU = len(UNIT_NAMES)


def run(args):
    rep = Report(PROP, args.tier, args.seed)
    standard_proof_part(rep, PROP)
    rng = random.Random(args.seed * 7919 + 18)
    fx_skipped = []
    if args.replay:
        data = json.load(open(args.replay))
        cases = [data["input"]["case"]]
    else:
        fx, fx_skipped = fixture_cases(rng, args.tier)
        cases = corpus_cases() + handwritten_cases() + fx + generate(rng, args.tier) + exhaustive_cases(rng, {"quick": 2, "thorough": 30}[args.tier])
        cases += mirror_cases(rng, args.tier)
        cases += alias_cases(rng, args.tier)
        cases += alpha_cases(rng, args.tier)
        cases += sequence_cases(rng, cases, {"quick": 24, "thorough": 80}[args.tier])
    cfg = run_impl([{"op": "core.numeric_config"}], nproc=1)[0]
    hashseeds = [0] if args.tier == "quick" else [0, 1]
    # the cases with mirrored set members run under further hash seeds (which member a set-walking renaming meets first -
    # and so whether one is lost - depends on the iteration order of the hash sets)
    mirror_hashseeds = [1] if args.tier == "quick" else [2, 3]
    if args.replay:
        hashseeds, mirror_hashseeds = [int(data["input"].get("hashseed", 0))], []
    all_units, all_verdicts = [], ""
    info_total = {"shards": 0, "shard_errors": [], "cmd": ""}
    stats = {"cases": 0, "kinds": {}, "admissible_kinds": 0, "foreign_kinds": 0, "nparams": {}, "probes": 0,
             "app_true": 0, "app_false": 0, "app_raised": 0, "succ_returned": 0, "succ_refused_or_raised": 0,
             "change_signature_raised": 0, "domain_rejected": 0, "action_features": {}, "world_features": {},
             "mapping_mutated_by_call": 0, "moved_parameters": {}}
    timing = {"impl_s": 0.0, "coq_s": 0.0}
    all_cases = cases
    seen_lits = set()
    stats["same_observation_under_another_hash_seed"] = 0
    for hs in hashseeds + mirror_hashseeds:
        cases = all_cases if hs in hashseeds else [c for c in all_cases if c.get("mirror")]
        if not cases:
            continue
        jobs = [{"op": "c18.rename", "domain_text": c["domain_text"], "action": c["action"], "mapping": c["mapping"],
                 "more": c.get("more", []),
                 "probes": [{"args": p["args"], "problem_text": p["problem_text"]} for p in c["probes"]]} for c in cases]
        t_impl = time.time()
        results = run_impl(jobs, hashseed=hs)
        timing["impl_s"] += time.time() - t_impl
        lits, units, kept = [], [], []
        for c, res in zip(cases, results):
            if "parse_raised" in res or "raised" in res:
                if hs == hashseeds[0]:
                    stats["domain_rejected"] += 1
                continue
            lit, u, nprobes = case_literal(c, res, cfg["epsilon"])
            if lit in seen_lits:
                # a further hash seed that changed nothing observable: the verdicts would be those already recorded
                stats["same_observation_under_another_hash_seed"] += 1
                continue
            seen_lits.add(lit)
            lits.append(lit)
            units.append(u)
            kept.append((c, res, nprobes))
        t_coq = time.time()
        verdicts, info = run_case_shards(PROP, "Corr.C18", lits, shard_size=20, units=units, header_extra=HEADER,
                                         max_bytes=60_000)
        timing["coq_s"] += time.time() - t_coq
        info_total["shards"] += info["shards"]
        info_total["shard_errors"] += info["shard_errors"]
        info_total["cmd"] = info["cmd"]
        pos = 0
        for (c, res, nprobes), lit, u in zip(kept, lits, units):
            chunk = verdicts[pos:pos + u]
            pos += u
            moved = sum(1 for o, n in c["mapping"] if o != n)
            base = {"case": dict({k: c[k] for k in ("domain_text", "objects", "action", "mapping", "kind", "probes",
                                                    "features", "action_features")}, more=c.get("more", [])),
                    "hashseed": hs,
                    "implementation": {k: res.get(k) for k in ("renamed", "sig", "print0", "print1", "rest0", "rest1",
                                                               "same_object")}}
            for k, ch in enumerate(chunk):
                unit = UNIT_NAMES[k] if k < NU else ("applicability" if (k - NU) % 2 == 0 else "successor")
                inp = dict(base, unit=unit)
                if k >= NU:
                    pi = (k - NU) // 2
                    inp["probe_index"] = pi
                    inp["probe_result"] = res["probes"][pi] if pi < len(res["probes"]) else None
                nontrivial = moved > 0 and c["kind"].split(":")[-1] in JUDGED_KINDS and bool(c["action_features"] or c["features"]) \
                    and (k < NU or len(c["probes"][min((k - NU) // 2, len(c["probes"]) - 1)]["state"]["facts"]) > 0)
                all_units.append({"lit": lit, "input": inp, "nontrivial": nontrivial, "witness_of": c.get("witness_of")})
            all_verdicts += chunk
            if hs == hashseeds[0]:
                stats["cases"] += 1
                stats["kinds"][c["kind"]] = stats["kinds"].get(c["kind"], 0) + 1
                stats["admissible_kinds" if c["kind"].split(":")[-1] in JUDGED_KINDS else "foreign_kinds"] += 1
                if c.get("more"):
                    stats["several_calls"] = stats.get("several_calls", 0) + 1
                stats["nparams"][str(c.get("nparams", "?"))] = stats["nparams"].get(str(c.get("nparams", "?")), 0) + 1
                stats["moved_parameters"][str(moved)] = stats["moved_parameters"].get(str(moved), 0) + 1
                for f in c["action_features"]:
                    stats["action_features"][f] = stats["action_features"].get(f, 0) + 1
                for f in c["features"]:
                    f = "fixture" if f.startswith("fixture:") else f
                    f = "handwritten" if f.startswith("handwritten:") else f
                    stats["world_features"][f] = stats["world_features"].get(f, 0) + 1
                if "value" not in res["renamed"]:
                    stats["change_signature_raised"] += 1
                if not res.get("mapping_untouched", True):
                    stats["mapping_mutated_by_call"] += 1
                for r in res["probes"]:
                    n = r.get("ren") or {}
                    if "app" not in n:
                        continue
                    stats["probes"] += 1
                    if "value" in n["app"]:
                        stats["app_true" if n["app"]["value"] else "app_false"] += 1
                    else:
                        stats["app_raised"] += 1
                    stats["succ_returned" if "value" in n.get("succ", {}) else "succ_refused_or_raised"] += 1
    decide(rep, PROP, "Corr.C18", all_units, all_verdicts, info_total, explain_expr="explain %s", header_extra=HEADER,
           max_replays=5)
    cov = rep.coverage
    cov["input_distribution"] = stats
    cov["hash_seeds"] = hashseeds
    cov["hash_seeds_mirrored_cases"] = hashseeds + mirror_hashseeds
    cases = all_cases
    stats["fixture_files"] = sorted({f[len("fixture:"):] for c in cases for f in c["features"] if f.startswith("fixture:")})
    stats["fixture_files_skipped"] = fx_skipped
    cov["timing"] = {k: round(v, 1) for k, v in timing.items()}
    cov["numeric_config"] = cfg
    cov["exhaustive"] = False
    cov["rule"] = ("generated typed domains (harness/pddlgen: <=4 types, constants, 2-4 predicates, <=3 functions, 1-2 actions of 0-3 parameters "
                   "with and/or/not/=/forall/comparison preconditions and add/del/assign/increase/decrease/when/forall-when effects) x one action x one "
                   "mapping: three of the admissible kinds " + ", ".join(ADMISSIBLE_KINDS) + " and one of the kinds "
                   + ", ".join(FOREIGN_KINDS) + " (collapse, moves-constant, onto-unrenamed are outside the property's quantifier: only the model "
                   "has to agree there; capture and capture-and-move - a parameter takes the name of a quantified variable - are judged like the "
                   "admissible kinds since /repo eb5fde6; onto-constant is the class of the open finding D75) x 2 states x <=3 type-correct calls. "
                   "Plus the repository's own domain files (tests/**, a sample in the quick tier, all below 40 kB in the thorough tier): their "
                   "largest actions x (fresh ?param_i names, one overlapping kind), with probes along a short walk from the shipped problem where one exists. "
                   "Plus, for a few generated actions with >= 2 parameters (2 in the quick tier, 30 in the thorough tier), EVERY injective mapping of the "
                   "parameters into the parameters plus two fresh names (kind 'exhaustive': all permutations, overlaps and chains of that action). "
                   "Plus 'mirror' worlds (18 quick / 80 thorough): an action with >= 2 parameters of one type whose operand sets and effect sets "
                   "(top-level conjunction, nested and/or, forall bodies, when- and forall-when conditions, effect lists) hold members that are images "
                   "of each other under the swap / permutation / rotation / chain / overlap that is then applied (and, as a control, under fresh names), "
                   "with probe states in which one member holds and its image does not; these cases run under further hash seeds "
                   "(hash_seeds_mirrored_cases) and a case whose observation does not change with the hash seed is not judged twice. "
                   "Plus sequences of calls on one action (24 quick / 80 thorough): a mapping then its inverse, the same mapping two or three "
                   "times, a second mapping chosen for the renamed action (kinds 'roundtrip:', 'twice:', 'then:', 'there-and-back-and-on:'). "
                   "Plus 'alias' worlds (12 quick / 40 thorough; also 35% of the ordinary worlds): the variables of the (:predicates) / "
                   "(:functions) declarations carry the NAMES of the action parameters ((f0 ?x0 - t) used as (f0 ?x0)), every action of the "
                   "domain has the same parameter names, and the applications spelt like their declaration occur 1, 2, 3, 4 ... times in one "
                   "action (precondition, nested or, when- and forall-when conditions, target and right-hand side of numeric effects; action "
                   "features declared-application-occurs:even/odd), under swap / rotation / chain / permutation / overlap / fresh mappings. "
                   "Plus 'alpha' worlds (20 quick / 60 thorough, kind 'alpha-pool'): an action with a quantified precondition and/or a "
                   "forall-when effect in which names of the shape the library picks for a quantified variable ?v that has to move (?v_0, ?v_1, "
                   "?v_2; ?v_00, ?v_0x, ?v_0_0, ?v_10: candidates that are substrings of a name) are already taken - by a parameter that occurs "
                   "inside ?v's quantifier / only in the effect part of the forall-when / only outside the quantifier (then it is a key of the "
                   "mapping), by another quantified variable, by a further quantifier nested inside - and the mapping's new names are drawn from "
                   "the quantified variables, those shapes (mostly ?v then ?v_0 then ?v_1, in that order), the other parameters and fresh names. "
                   "Each case yields a signature unit, a text unit, an isolation unit (the declared predicates and functions of the domain and "
                   "its other actions print after the call(s) what they printed before - demanded whatever the mapping) and (applicability, "
                   "successor) units per probe. A unit is non-trivial when the "
                   "mapping moves at least one parameter, is of an admissible kind, the action/world uses an optional feature and (for probes) the "
                   "state has facts; distinct by input hash. Admissibility is re-decided inside Coq on the spec's reading of the action.")
    cov["samples"] = [{"action_text": u["input"]["implementation"]["print0"], "mapping": u["input"]["case"]["mapping"],
                       "kind": u["input"]["case"]["kind"], "renamed_text": u["input"]["implementation"]["print1"]}
                      for u in all_units[:1] + all_units[len(all_units) // 2:len(all_units) // 2 + 1] + all_units[-1:]]
    rep.assumptions = ["fluent magnitudes below 1e4; ASCII text; states define every fluent",
                       "successors are compared for calls whose simultaneously firing effects are consistent (the spec's own test); "
                       "for the others the result depends on the iteration order of hash sets, which a renaming legitimately changes"]
    return rep.finish()
