"""C13 — simplified numeric conditions are valid PDDL and mean the same as the originals.

Translation validation: sympy is an untrusted oracle.  Every output of the library's simplifying printers is
validated inside Coq by the checker of Spec/Poly.v (proved sound in Proofs/C13_Poly.v), read back from the
printed text with the proved tokenizer model and a restricted grammar (binary + - * / only); input and output
are additionally evaluated at rational points (second oracle); the library's own reader must accept the text.
The glue around sympy (transform_expression, extract_atom, _convert_internal_expression_to_pddl) is modelled
(Model/SymbolicGlue.v) and compared with the implementation on every sympy tree the run produced.
"""
import json
import os
import random
import time
from fractions import Fraction
from pathlib import Path

from .. import c13_gen as G
from ..common import (Report, cbool, clist, cobs, cstr, decide, load_findings, run_case_shards, run_impl,
                      standard_proof_part, write_replay)

PROP = "C13"
G_DEFAULT_DIGITS = 2          # pddl_precondition.DEFAULT_DECIMAL_DIGITS: what str(precondition) uses; re-read from the library on every run
CORPUS_DIR = Path(__file__).resolve().parents[2] / "corpus" / PROP
STRIP = set("()-? \t\n\r\x0b\x0c")


# ------------------------------------------------------------------ Coq literals
def cq(fr):
    fr = Fraction(fr)
    return "(Qmake (%d) %d)" % (fr.numerator, fr.denominator)


def ctree(t):
    k = t[0]
    if k in ("add", "mul"):
        return "(%s %s)" % ("SAdd" if k == "add" else "SMul", clist([ctree(a) for a in t[1]]))
    if k == "pow":
        return "(SPow %s %s)" % (ctree(t[1]), ctree(t[2]))
    if k == "flt":
        return "(SFloat (Qmake (%s) %s))" % (t[1], t[2])
    if k == "int":
        return "(SInt (%s))" % t[1]
    if k == "rat":
        return "(SRat (%s) %s)" % (t[1], t[2])
    if k == "sym":
        return "(SSym %s)" % cstr(t[1])
    return "(SOther %s)" % cstr(t[1])


def cpairs(pairs):
    return clist(["(%s, %s)" % (cstr(a), cstr(b)) for a, b in pairs])


def cpoint(p):
    return clist(["(%s, %s)" % (cstr(k), cq(v)) for k, v in p])


LIT_ENTRY = {"str": "print"}       # str(precondition) is Precondition.print with the default decimals


def e2e_lit(job, res, points):
    outs = res.get("ok")
    return "(CE2E %s %d %s %s %s %s %s %s)" % (
        cstr(LIT_ENTRY.get(job["entry"], job["entry"])), job["digits"], clist([cstr(c) for c in job["conds"]]),
        clist([cstr(c) for c in job.get("assumptions", [])]),
        cobs(outs, render=lambda l: clist([cstr(x) for x in l])), cbool(res.get("reader_ok", False)),
        clist([cpoint(p) for p in points]), clist([cstr(h) for h in res.get("hints", [])]))


def tree_size(t):
    if t[0] in ("add", "mul"):
        return 1 + sum(tree_size(a) for a in t[1])
    if t[0] == "pow":
        return 1 + tree_size(t[1]) + tree_size(t[2])
    return 1


def tree_ok(t):
    """symbol names cross unescaped inside trees: they must be plain identifiers; only 53-bit floats are modelled"""
    if t[0] in ("add", "mul"):
        return all(tree_ok(a) for a in t[1])
    if t[0] == "pow":
        return tree_ok(t[1]) and tree_ok(t[2])
    if t[0] == "sym":
        return all(c.isalnum() or c == "_" for c in t[1]) and t[1].isascii()
    if t[0] == "flt":
        return t[3] == 53
    return True


def glue_lits(res):
    """(literal, input description, nontrivial) for every recorded convert / transform call"""
    out = []
    for g in res.get("glue", []):
        if g["kind"] == "convert":
            if g.get("tree") is None or g.get("symmap") is None or not tree_ok(g["tree"]) or not isinstance(g["digits"], int):
                continue
            observed = g.get("result") if "raised" not in g else None
            if "raised" not in g and not isinstance(observed, str):
                continue
            lit = "(CGlue %d %s %s %s %s)" % (g["digits"], cbool(g["flag"]), cpairs(g["symmap"]), ctree(g["tree"]),
                                             cobs(observed))
            out.append((lit, {"glue": g}, tree_size(g["tree"]) > 1))
        elif g["kind"] == "elim":
            if g.get("conds") is None:
                continue
            cpair = lambda p: "(%s, %s)" % (cstr(p[0]), cstr(p[1]))
            calls = clist(["(%s, (%s, %s))" % (cbool(c["ineq"]), clist([cpair(a) for a in c["assumptions"]]),
                                               "None" if c.get("result") is None else "(Some %s)" % cstr(c["result"]))
                           for c in g["calls"]])
            lit = "(CElim %s %s %s %s)" % (clist([cstr(c) for c in g["conds"]]),
                                           clist(["None" if x is None else "(Some %s)" % cpair(x) for x in g["extracted"]]),
                                           calls, cobs(g.get("out"), render=lambda l: clist([cstr(x) for x in l])))
            out.append((lit, {"glue": g}, len(g["conds"]) > 1))
        elif g["kind"] == "transform" and "raised" not in g:
            given = g["given"] or []
            after = g["map"] or []
            lit = "(CTrans %s %s %s %s)" % (cstr(g["text"]), cpairs(given), cstr(g["result"]), cpairs(after))
            out.append((lit, {"glue": g}, len(after) > 0))
    return out


# ------------------------------------------------------------------ classification (Python side, on the input)
def symname(text):
    return "".join(c for c in text if c not in STRIP)


def canon(text):
    return " ".join(text.replace("(", " ( ").replace(")", " ) ").split())


def collides(fluents):
    fl = sorted(set(canon(f) for f in fluents))
    names = {}
    for f in fl:
        names.setdefault(symname(f), set()).add(f)
    return any(len(v) > 1 for v in names.values())


# ------------------------------------------------------------------ inputs
def small_point(rng, fluents, conds):
    """a small rational point on the solution set of the linear equalities among conds (exact solve); a random small point
    when the equalities have no common solution"""
    rho = G.solve_point(rng, fluents, [c for c in conds if c[0] == "="])
    if rho is None:
        rho = {f: Fraction(rng.randint(-6, 6), rng.choice([1, 1, 2, 2, 3])) for f in fluents}
    return sorted(rho.items())


def well_defined(rng, trees, fluents):
    """no division by a constant zero / identically vanishing divisor: defined at some random point"""
    for _ in range(4):
        rho = G.rand_point(rng, fluents)
        try:
            for t in trees:
                G.ev(t, rho)
            return True
        except ZeroDivisionError:
            continue
    return False


def defined_somewhere(rng, trees, fluents, equalities, points):
    cands = [dict(p) for p in points] + [dict(small_point(rng, fluents, equalities)) for _ in range(4)]
    for rho in cands:
        try:
            for t in trees:
                G.ev(t, rho)
            return True
        except ZeroDivisionError:
            continue
    return False


def chain_equalities(rng, vocab):
    """two linear equalities  a + (k b) = r1,  b + (k' c) = r2  in either order: eliminating a brings b in, which the other
    equality eliminates"""
    a, b, c = rng.sample(vocab, 3)
    kb = G.num(G.coef(rng, rng.choice(["int", "dec"])))
    kc = G.num(G.coef(rng, rng.choice(["int", "dec"])))
    e1 = ("=", ("+", ("fl", a), ("*", ("fl", b), kb)), G.num(G.coef(rng, "int")))
    e2 = ("=", ("+", ("fl", b), ("*", ("fl", c), kc)), G.num(G.coef(rng, "int")) if rng.random() < 0.7 else G.term(rng, [c], 1, "int"))
    return [e1, e2] if rng.random() < 0.5 else [e2, e1]


def or_group(rng, vocab):
    conds, kind = [], "plain"
    if rng.random() < 0.6:
        if len(vocab) >= 2 and rng.random() < 0.35:
            sc = G.shape_case(rng, vocab)          # any shape of equality with its companions: nothing may be eliminated
            if sc is not None:
                rng.shuffle(sc[0])
                return sc[0], "with-shaped-equality"
        conds.append(G.linear_equality(rng, vocab))
        kind = "with-equality"
    for _ in range(rng.randint(1, 3)):
        if conds and conds[0][0] == "=" and rng.random() < 0.5:
            # a condition over the very sum the equality fixes (what a conjunction would eliminate or omit)
            left = conds[0][1] if rng.random() < 0.5 else ("*", conds[0][1], G.term(rng, vocab, 1))
            conds.append((rng.choice(G.CMPS[:4]), left, G.rhs(rng, vocab, "int" if rng.random() < 0.5 else None)))
        else:
            e, _k = G.expression(rng, vocab, allow_div=False)
            conds.append((rng.choice(G.CMPS[:4]), e, G.rhs(rng, vocab)))
    if rng.random() < 0.08:
        t = G.poly(rng, vocab, 1, 2)
        conds.append(("=", t, t))            # a disjunct that always holds: it must be kept
        kind += "+identity"
    rng.shuffle(conds)
    return conds, kind


def group_points(rng, tier, conds, as_or):
    fl = []
    for c in conds:
        G.fluents_of(("+", c[1], c[2]), fl)
    npts = 3 if tier == "quick" else 4
    return fl, [small_point(rng, fl, [] if as_or else conds) for _ in range(npts)]


def make_nested(rng, kind_counts, tier, vocab, d):
    """a compound precondition: conjunction at the top (0-2 equalities + inequalities), a nested disjunction, a universally
    quantified conjunction or disjunction; printed by CompoundPrecondition.print or str()"""
    top = [G.linear_equality(rng, vocab) for _ in range(rng.choice([0, 1, 1, 2]))]
    if len(vocab) >= 2 and rng.random() < 0.35:
        sc = G.shape_case(rng, vocab)
        if sc is not None:
            top = sc[0]
            note_shape(kind_counts, sc[1], sc[2], sc[3], "nested/top")
    for _ in range(rng.randint(1, 2)):
        e, _k = G.expression(rng, vocab, allow_div=False)
        top.append((rng.choice(G.CMPS[:4]), e, G.rhs(rng, vocab)))
    rng.shuffle(top)
    groups = {"top": top, "or": [], "forall": []}
    if rng.random() < 0.8:
        groups["or"] = or_group(rng, vocab)[0]
    fa_head = rng.choice(["and", "and", "or"])
    if rng.random() < 0.6 or not groups["or"]:
        qvocab = vocab + ["(q-level ?q)"]
        if fa_head == "or":
            groups["forall"] = or_group(rng, qvocab)[0]
        else:
            fa = [G.linear_equality(rng, qvocab) for _ in range(rng.choice([0, 1]))]
            if rng.random() < 0.35:
                sc = G.shape_case(rng, qvocab)
                if sc is not None:
                    fa = sc[0]
                    note_shape(kind_counts, sc[1], sc[2], sc[3], "nested/forall")
            for _ in range(rng.randint(1, 2)):
                e, _k = G.expression(rng, qvocab, allow_div=False)
                fa.append((rng.choice(G.CMPS[:4]), e, G.rhs(rng, qvocab)))
            groups["forall"] = fa
    via = "str" if rng.random() < 0.3 else "print"
    if via == "str":
        d = G_DEFAULT_DIGITS
    gpoints = {}
    for name, conds in groups.items():
        if not conds:
            continue
        as_or = name == "or" or (name == "forall" and fa_head == "or")
        fl, pts = group_points(rng, tier, conds, as_or)
        trees = [x for c in conds for x in (c[1], c[2])]
        if not fl or any(not G.fluents_of(("+", c[1], c[2])) for c in conds):
            return None
        if not defined_somewhere(rng, trees, fl, [] if as_or else conds, pts):
            return None
        gpoints[name] = [[[k, str(v)] for k, v in p] for p in pts]
    job = {"op": "c13.run", "entry": "nested", "digits": d, "via": via, "forall_head": fa_head,
           "groups": {k: [G.show(c) for c in v] for k, v in groups.items()}, "conds": [], "assumptions": []}
    kind = "nested/%s%s%s/%s" % ("top", "+or" if groups["or"] else "", "+forall-" + fa_head if groups["forall"] else "", via)
    kind_counts[("nested", kind.split("/", 1)[1])] = kind_counts.get(("nested", kind.split("/", 1)[1]), 0) + 1
    return {"job": job, "points": [], "group_points": gpoints, "kind": kind, "nontrivial": True, "fluents": None}


def exactly_printable(t, d):
    """every constant of the tree is an integer or has at most min(d, 1) decimals... conservatively: integers,
    and decimals k/2, k/4, k/5, k/10 that divisions by the generator's constants can create stay printable at
    d >= 3 digits"""
    if t[0] == "num":
        return Fraction(t[1]).denominator == 1
    if t[0] == "fl":
        return True
    return exactly_printable(t[1], d) and exactly_printable(t[2], d)


def nontrivial_tree(t):
    def ops(x):
        return 0 if x[0] in ("num", "fl") else 1 + ops(x[1]) + ops(x[2])
    return ops(t) >= 2


def note_shape(kind_counts, shape, right, hows, entry):
    st = kind_counts.setdefault("equality-shapes", {"shape x right side": {}, "companion": {}, "entry": {}})
    key = "%s/%s" % (shape, right)
    st["shape x right side"][key] = st["shape x right side"].get(key, 0) + 1
    for h in hows:
        st["companion"][h] = st["companion"].get(h, 0) + 1
    st["entry"][entry] = st["entry"].get(entry, 0) + 1


def finish_conj_job(rng, tier, entry, d, conds, kind):
    """a conjunction job (entries pre / print / str) from generator trees: the guards of make_job (a fluent in every
    condition, defined somewhere on the solution set) and the rational points; None when a guard fails"""
    fluents = []
    for c in conds:
        G.fluents_of(("+", c[1], c[2]), fluents)
    trees = [x for c in conds for x in (c[1], c[2])]
    if not fluents or any(not G.fluents_of(("+", c[1], c[2])) for c in conds) or not well_defined(rng, trees, fluents):
        return None
    npts = 3 if tier == "quick" else 4
    points = [small_point(rng, fluents, conds) for _ in range(npts)]
    if not defined_somewhere(rng, trees, fluents, conds, points):
        return None
    job = {"op": "c13.run", "entry": entry, "digits": d, "conds": [G.show(c) for c in conds], "assumptions": []}
    return {"job": job, "points": [[[k, str(v)] for k, v in p] for p in points], "kind": "%s/%s" % (entry, kind),
            "nontrivial": True, "fluents": fluents}


def shape_grid(rng, kind_counts, tier):
    """the grid equality shape x right-hand side x companion inequality (G.EQ_SHAPES x G.EQ_RIGHTS x G.EQ_COMPANIONS): every
    (shape, right side) cell with 2 distinct companions in the quick tier, with all of them in the thorough tier; vocabulary,
    coefficients, entry point (pre / print / str) and digits drawn at random"""
    out = []
    for shape in G.EQ_SHAPES:
        for right in G.EQ_RIGHTS:
            hows = list(G.EQ_COMPANIONS) if tier != "quick" else rng.sample(G.EQ_COMPANIONS, 2)
            for how in hows:
                for _ in range(6):
                    vocab = rng.sample(rng.choice(G.VOCABS), rng.choice([3, 3, 4]))
                    sc = G.shape_case(rng, vocab, shape, right, how)
                    if sc is None:
                        continue
                    conds, _s, _r, hs = sc
                    entry = rng.choice(["pre", "print", "print", "str"])
                    d = G_DEFAULT_DIGITS if entry == "str" else rng.choice([0, 1, 2, 2, 3, 4, 5, 6])
                    if rng.random() < 0.5:
                        rng.shuffle(conds)
                    j = finish_conj_job(rng, tier, entry, d, conds, "equality-shape-grid")
                    if j:
                        note_shape(kind_counts, shape, right, hs, entry)
                        kind_counts[(entry, "equality-shape-grid")] = kind_counts.get((entry, "equality-shape-grid"), 0) + 1
                        out.append(j)
                        break
    return out


def make_job(rng, kind_counts, tier):
    vocab_all = rng.choice(G.VOCABS)
    vocab = rng.sample(vocab_all, rng.randint(1, 4))
    # digits 0..6; 0 and 1 - where many constants round to zero or to an integer - a third of the time
    d = rng.choice([0, 1]) if rng.random() < 0.33 else rng.randint(0, 6)
    entry = rng.choice(["expr", "ineq", "ineq", "eq", "tree", "pre", "pre", "print", "or", "str", "nested"])
    if entry == "nested":
        return make_nested(rng, kind_counts, tier, vocab, d)
    if entry == "str":
        d = G_DEFAULT_DIGITS
    assumptions = []
    if entry == "expr":
        e, kind = G.expression(rng, vocab)
        conds = [e]
    elif entry in ("ineq", "tree"):
        e, kind = G.expression(rng, vocab)
        conds = [(rng.choice(G.CMPS[:4]), e, G.rhs(rng, vocab, "int" if kind == "rational" else None))]
        if rng.random() < 0.08:
            # a constant left side (D21i / D21j): a number or a constant expression against a term with a function
            left = G.num(G.coef(rng)) if rng.random() < 0.5 else G.const_expr(rng)
            conds = [(conds[0][0], left, G.term(rng, vocab, 1) if rng.random() < 0.7 else G.poly(rng, vocab, 2, 2))]
            kind = "const-left"
        if rng.random() < 0.04:
            # an unsatisfiable / identically true comparison whose functions cancel (D21b remainder, D21k)
            t = G.poly(rng, vocab, 2, 2)
            conds = [(conds[0][0], ("-", t, t), G.num(G.coef(rng, "int")))]
            kind = "cancelling"
        if entry == "ineq" and kind != "rational" and rng.random() < 0.4 and len(vocab) >= 2:
            # explicit assumptions, the interface of simplify_inequality:  A = R - B
            if len(vocab) >= 3 and rng.random() < 0.35:
                # a chain: the second assumption eliminates a function that the first one introduces (either order)
                les = chain_equalities(rng, vocab)
                kind += "+chain"
            else:
                les = [G.linear_equality(rng, vocab) for _ in range(rng.randint(1, 2))]
            for le in les:
                r = rng.random()
                a_, b_, r_ = le[1][1], le[1][2], le[2]
                if r < 0.6:
                    assumptions.append(("=", a_, ("-", r_, b_)))                    # A = R - B
                elif r < 0.7:
                    assumptions.append(("=", a_, ("*", G.num("-1"), b_)))           # A = -1 * B   (what the library builds for R = 0)
                elif r < 0.8:
                    assumptions.append(("=", a_, ("+", r_, b_)))                    # A = R + B   (from a difference)
                elif r < 0.9:
                    assumptions.append(("=", a_, b_))                               # A = B
                else:
                    assumptions.append(("=", ("-", r_, b_), a_))                    # R - B = A   (the function on the right)
            kind += "+assumptions"
    elif entry == "eq":
        e, kind = G.expression(rng, vocab, allow_div=rng.random() < 0.15)
        conds = [("=", e, G.rhs(rng, vocab))]
        if rng.random() < 0.06:
            conds = [("=", e, e)]
            kind = "identity"
        elif rng.random() < 0.06:
            conds = [("=", e, ("+", e, G.num(G.coef(rng, "int"))))]
            kind = "unsat"
        elif rng.random() < 0.08:
            conds = [G.decimal_identity(rng, vocab)]
            kind = "decimal-identity"
    elif entry == "or":
        # the numeric conditions of a disjunction: often with a linear equality (which must NOT be used for elimination)
        conds, kind = or_group(rng, vocab)
    else:
        n_eq = rng.choice([0, 1, 1, 2])
        kind = "%d-equalities" % n_eq
        if n_eq == 2 and len(vocab) >= 3 and rng.random() < 0.4:
            conds = chain_equalities(rng, vocab)
            kind += "+chain"
        elif n_eq >= 1 and len(vocab) >= 2 and rng.random() < 0.4:
            # equalities of every shape around the elimination decision (sum / difference / reversed / plain / scaled / a number
            # first; zero, small, large or fluent right side) with inequalities over the same operands
            conds = []
            for _ in range(n_eq):
                sc = G.shape_case(rng, vocab)
                if sc is None:
                    continue
                conds += sc[0]
                note_shape(kind_counts, sc[1], sc[2], sc[3], entry)
            kind += "+shaped"
        else:
            conds = [G.linear_equality(rng, vocab) for _ in range(n_eq)]
        for _ in range(rng.randint(0 if ("+shaped" in kind and conds) else 1, 3)):
            if rng.random() < 0.2:
                conds.append(G.domain_style(rng, vocab))      # the style of the shipped domains' numeric preconditions
                continue
            e, _k = G.expression(rng, vocab, allow_div=rng.random() < 0.15)
            conds.append((rng.choice(G.CMPS[:4]), e, G.rhs(rng, vocab)))
        if rng.random() < 0.1:
            conds.append(conds[-1])          # a duplicated condition
            kind += "+dup"
        if rng.random() < 0.1:
            t = G.poly(rng, vocab, 2)
            conds.append(("=", t, t))        # an identity, to be omitted
            kind += "+identity"
        if rng.random() < 0.06:
            conds.append(G.decimal_identity(rng, vocab))   # an identity only in exact arithmetic (D21m / D21n)
            kind += "+decimal-identity"
        rng.shuffle(conds)
    # expressions with a non-constant divisor: the checker has no rounding tolerance for them, so they are
    # generated with integer coefficients and enough digits to print the constants exactly
    if any(G.has_nonconst_div(c if entry == "expr" else ("-", c[1], c[2])) for c in conds + assumptions):
        if entry == "str" and d < 3:
            return None          # str() prints with the library's default decimals: they cannot be raised
        d = max(d, 3)
        if not all(exactly_printable(c, d) for c in conds + assumptions):
            return None
    fluents = []
    for c in conds + assumptions:
        G.fluents_of(c if c[0] not in G.CMPS else ("+", c[1], c[2]), fluents)
    trees = []
    for c in conds + assumptions:
        trees += [c] if entry == "expr" and c[0] not in G.CMPS else [c[1], c[2]]
    if not fluents or not well_defined(rng, trees, fluents):
        return None
    # every condition handed to the library must have a fluent on its left or right (the library cannot
    # simplify constant-only comparisons: transform_expression returns no symbol table)
    for c in conds:
        if not G.fluents_of(c if c[0] not in G.CMPS else ("+", c[1], c[2])):
            return None
    # unsatisfiable equalities (sympy returns BooleanFalse; printed as given since D21k) are kept and counted
    for c in conds:
        if c[0] == "=" and not G.has_nonconst_div(("-", c[1], c[2])):
            vals = set()
            for _ in range(3):
                rho = G.rand_point(rng, fluents)
                try:
                    vals.add(G.ev(c[1], rho) - G.ev(c[2], rho))
                except ZeroDivisionError:
                    pass
            if len(vals) == 1 and 0 not in vals and "unsat" not in kind:
                kind += "+unsat"
    job = {"op": "c13.run", "entry": entry, "digits": d,
           "conds": [G.show(c) for c in conds], "assumptions": [G.show(a) for a in assumptions]}
    has_div = any(G.has_nonconst_div(c if entry == "expr" else ("-", c[1], c[2])) for c in conds + assumptions)
    npts = 3 if tier == "quick" else 4
    # a disjunction has no solution set to stay on; everything else is judged at points that satisfy its linear equalities
    eqs_for_points = [] if entry == "or" else conds + assumptions
    points = [small_point(rng, fluents, eqs_for_points) for _ in range(npts)]
    # the input must be defined somewhere on the solution set of its equalities: a divisor that an equality of the set forces
    # to zero (x = -50 x next to 1 / x) is outside the property (rational expressions are compared where they are
    # defined), and sympy meets 0/0 there
    if not defined_somewhere(rng, trees, fluents, eqs_for_points, points):
        return None
    if has_div and G.solve_point(rng, fluents, [c for c in eqs_for_points if c[0] == "="]) is None:
        # equalities without a common solution next to a non-constant divisor: there is no solution set to be defined on (each
        # equality alone may force the divisor to zero: s - 3 s = 0, s + 5 s = -2, 1 / s)
        return None
    if entry == "expr" and has_div:
        points = []
    kind_counts[(entry, kind)] = kind_counts.get((entry, kind), 0) + 1
    nontrivial = any(nontrivial_tree(c if entry == "expr" else ("-", c[1], c[2])) for c in conds) or len(conds) > 1
    return {"job": job, "points": [[[k, str(v)] for k, v in p] for p in points], "kind": "%s/%s" % (entry, kind),
            "nontrivial": nontrivial, "fluents": fluents}


CORPUS = [
    # the 16 pinned tests' inputs (those that are conditions/expressions in scope), re-judged by meaning
    ("expr", 4, ["(* (distance ?c2 ?c1) (zoom-limit ?a))"], []),
    ("expr", 4, ["(* 0.0 (* (distance ?c2 ?c1) (zoom-limit ?a)))"], []),
    ("expr", 4, ["(* 1.0 (* (distance ?c2 ?c1) (zoom-limit ?a)))"], []),
    ("expr", 4, ["(* 1.0 (* (distance ?c2 ?c1) (distance ?c2 ?c1)))"], []),
    ("expr", 4, ["(+ (* (- (capacity ?a) 8823.0) -0.01) (* 1.0 (* (* (distance ?c2 ?c1) (distance ?c2 ?c1)) (distance ?c2 ?c1))))"], []),
    ("expr", 4, ["(+ (* (- (capacity ?a) 8823.0) 0) (* 1.0 (* (* (distance ?c2 ?c1) (distance ?c2 ?c1)) (distance ?c2 ?c1))))"], []),
    ("expr", 4, ["(+ (+ (* (distance ?c2 ?c1) 0.00) (* (zoom-limit ?a) 0.01)) (* (capacity ?a) -1.00))"], []),
    ("ineq", 4, ["(<= (distance ?c2 ?c1) (zoom-limit ?a))"], []),
    ("ineq", 2, ["(<= (+ (* (- (capacity ?a) 8823) 1.5000) (* 1 (* (* (distance ?c2 ?c1) (distance ?c2 ?c1)) (distance ?c2 ?c1)))) 3657.14)"], []),
    ("ineq", 2, ["(<= (+ (* (- (capacity ?a) 8823) 1.5) (* 1 (* (* (distance ?c2 ?c1) (distance ?c2 ?c1)) (distance ?c2 ?c1)))) 3657.14)"],
     ["(= (capacity ?a) (* -1 (* (distance ?c2 ?c1) -1)))"]),
    ("ineq", 2, ["(<= (+ (* (- (capacity ?a) 8823) 1.5) (* 1 (* (* (distance ?c2 ?c1) (distance ?c2 ?c1)) (distance ?c2 ?c1)))) 3657.14)"],
     ["(= (- (capacity ?a) 54) (* -1 (* (- (distance ?c2 ?c1) 54) -1)))"]),
    ("ineq", 2, ["(>= (+ (* (- (capacity ?a) 8823) 1.5) (* 1 (* (* (distance ?c2 ?c1) (distance ?c2 ?c1)) (distance ?c2 ?c1)))) 3657.14)"],
     ["(= (- (capacity ?a) 54) (* -1 (* (- (distance ?c2 ?c1) 54) -1)))"]),
    ("ineq", 4, ["(<= (+ (* (- (capacity ?a) 1.0) 1.5) (* 1.0 (* (* (distance ?c2 ?c1) (distance ?c2 ?c1)) (distance ?c2 ?c1)))) 0)"],
     ["(= (- (capacity ?a) 54) (* -1 (* (- (distance ?c2 ?c1) 54) -1)))"]),
    ("eq", 4, ["(= (- (capacity ?a) 54) (* -1 (* (- (distance ?c2 ?c1) 54) -1)))"], []),
    ("eq", 4, ["(= (- (capacity ?a) 54) (- (capacity ?a) 54))"], []),
    # the D21 classes of DESIGN.md table 1.1
    ("expr", 4, ["(* 2.99999 (x ?a))"], []),
    ("ineq", 2, ["(<= (x ?a) 3.999)"], []),
    ("expr", 2, ["(* 0.004 (x ?a))"], []),
    ("ineq", 2, ["(<= (* 0.004 (x ?a)) 5)"], []),
    ("ineq", 2, ["(<= 0.004 (x ?a))"], []),
    ("expr", 4, ["(/ (x ?a) 2)"], []),
    ("ineq", 3, ["(<= (/ (x ?a) 2) 3)"], []),
    ("expr", 4, ["(/ 1 (* (x ?a) (x ?a)))"], []),
    ("expr", 4, ["(* (+ (x ?a) 1) (+ (x ?a) 1))"], []),
    ("expr", 4, ["(+ (x ?a) (- 3 4))"], []),
    ("ineq", 4, ["(<= (+ (x ?a) (- 3 4)) 5)"], []),
    ("pre", 6, ["(= (+ (x ?a) (y ?a)) 1)", "(<= (* (x ?a) 0.333333) 3)", "(= (* (y ?a) 3) 1)"], []),
    ("print", 3, ["(= (+ (x ?a) (y ?a)) 3)", "(<= (+ (* (x ?a) (x ?a)) (+ (x ?a) (y ?a))) 10)", "(>= (z ?b) 0.0004)"], []),
    ("pre", 2, ["(<= (x ?a) 2.00001)", "(<= (x ?a) 1.99999)"], []),
]


def build_inputs(rng, tier):
    inputs, kinds = [], {}
    for f in load_findings(PROP):
        w = f.get("witness")
        if not w:
            continue
        inputs.append({"job": {"op": "c13.run", "entry": w["entry"], "digits": w["digits"], "conds": w["conds"],
                               "assumptions": w.get("assumptions", [])},
                       "points": [], "kind": "finding-witness", "nontrivial": True,
                       "witness_of": f["id"] if f.get("status") == "open" else None, "fluents": None})
    for entry, d, conds, assum in CORPUS:
        inputs.append({"job": {"op": "c13.run", "entry": entry, "digits": d, "conds": conds, "assumptions": assum},
                       "points": [], "kind": "corpus", "nontrivial": True, "fluents": None})
    # the minimised / recorded cases of corpus/C13/*.json (alarms of earlier runs: false alarms repaired in the checker's hint
    # generator, and the witnesses of repaired defects), with the rational points they were judged at
    for f in sorted(CORPUS_DIR.glob("*.json")):
        src = json.load(open(f))["input"]
        inputs.append({"job": src["job"], "points": src.get("points", []), "kind": "corpus-file:" + f.stem,
                       "nontrivial": True, "fluents": None})
    # symbol collisions (finding D21): a few per run
    for _ in range(4 if tier == "quick" else 20):
        pair = rng.choice(G.COLLIDING)
        a, b = ("fl", pair[0]), ("fl", pair[1])
        c = (rng.choice(G.CMPS[:4]), (rng.choice("+-"), ("*", a, G.num(G.coef(rng, "int"))), b), G.num(G.coef(rng, "int")))
        inputs.append({"job": {"op": "c13.run", "entry": rng.choice(["ineq", "tree", "pre"]), "digits": 4,
                               "conds": [G.show(c)], "assumptions": []},
                       "points": [], "kind": "collision", "nontrivial": True, "fluents": None})
    # the numeric precondition sets of the shipped domains (tests/**/*.pddl): Precondition.print and
    # _simplify_numeric_preconditions on them (large sets are cut to their equalities plus a few inequalities:
    # the checker's cost is quadratic in the number of conditions)
    fx = run_impl([{"op": "c13.fixtures"}], nproc=1)[0]
    sets = fx.get("sets", [])
    kinds["fixture-files/parsed-domains/sets"] = [fx.get("files"), fx.get("parsed_domains"), len(sets)]
    if tier == "quick":
        sets = rng.sample(sets, min(12, len(sets)))
    for st in sets:
        conds = st["conds"]
        if len(conds) > 6:
            eqs = [c for c in conds if c.startswith("(= ")][:2]
            rest = [c for c in conds if not c.startswith("(= ")]
            conds = eqs + rng.sample(rest, min(6 - len(eqs), len(rest)))
        for entry, d in (("pre", rng.choice([0, 1, 2, 3, 4])), ("print", rng.choice([2, 4, 6]))):
            inputs.append({"job": {"op": "c13.run", "entry": entry, "digits": d, "conds": conds, "assumptions": []},
                           "points": [], "kind": "fixture:%s:%s" % (st["file"], st["action"]), "nontrivial": True, "fluents": None})
    # the same domains through their OWN precondition objects: Precondition.print(should_simplify=True) on every and / or node
    # that has numeric conditions (the implementation has already run: these inputs come with their results)
    pre_done = []
    cycles = [[0, 1, 2, 4]] if tier == "quick" else [[0, 1, 2, 3, 4, 6], [1, 0, 4, 6, 5, 2]]
    nodes_seen = 0
    for cyc in cycles:
        fxn = run_impl([{"op": "c13.fixture_nodes", "digits": cyc}], nproc=1)[0]
        for nd in fxn.get("nodes", []):
            nodes_seen += 1
            job = {"op": "c13.run", "entry": nd["entry"], "digits": nd["digits"], "conds": nd["conds"], "assumptions": []}
            pre_done.append(({"job": job, "points": text_points(rng, tier, nd["conds"], nd["entry"] == "or"),
                              "kind": "fixture-node:%s:%s" % (nd["file"], nd["action"]), "nontrivial": True, "fluents": None}, nd))
    kinds["fixture-nodes"] = nodes_seen
    inputs += shape_grid(rng, kinds, tier)
    n = len(inputs) + (340 if tier == "quick" else 3000)
    tries = 0
    while len(inputs) < n and tries < 20 * n:
        tries += 1
        j = make_job(rng, kinds, tier)
        if j:
            inputs.append(j)
    return inputs, kinds, pre_done


def parse_tree(text):
    """PDDL prefix text -> generator tree (num / fl / binary op); None when the text has another shape"""
    toks = text.replace("(", " ( ").replace(")", " ) ").split()
    pos = [0]

    def rd():
        t = toks[pos[0]]
        pos[0] += 1
        if t != "(":
            return t
        l = []
        while toks[pos[0]] != ")":
            l.append(rd())
        pos[0] += 1
        return l

    def conv(e):
        if isinstance(e, str):
            Fraction(e)
            return ("num", e)
        if e and e[0] in G.ARITH + G.CMPS and len(e) == 3 and not (isinstance(e[1], str) and e[1].startswith("?")):
            return (e[0], conv(e[1]), conv(e[2]))
        if e and isinstance(e[0], str) and all(isinstance(x, str) for x in e):
            return ("fl", "(" + " ".join(e) + ")")
        raise ValueError(text)
    try:
        return conv(rd())
    except Exception:  # noqa
        return None


def text_points(rng, tier, cond_texts, as_or):
    conds = [parse_tree(c) for c in cond_texts]
    if any(c is None or c[0] not in G.CMPS for c in conds):
        return []
    fl, pts = group_points(rng, tier, conds, as_or)
    return [[[k, str(v)] for k, v in p] for p in pts] if fl else []


def fluents_in_texts(texts):
    import re
    out = []
    for t in texts:
        out += re.findall(r"\([A-Za-z_][\w-]*\s[?\w\-\s]*\)", t)
    return out


def classify(inp, res):
    return None          # no open finding class: every deviation is a violation


def run(args):
    rep = Report(PROP, args.tier, args.seed, level="translation_validation")
    standard_proof_part(rep, PROP)
    rng = random.Random(args.seed * 104729 + 13)
    global G_DEFAULT_DIGITS
    facts = run_impl([{"op": "c13.facts"}], nproc=1)[0]
    if isinstance(facts.get("pre_default_digits"), int):
        G_DEFAULT_DIGITS = facts["pre_default_digits"]
    if args.replay:
        data = json.load(open(args.replay))
        src = data["input"]
        if "job" in src:
            inputs = [{"job": src["job"], "points": src.get("points", []), "kind": "replay", "nontrivial": True,
                       "witness_of": None, "fluents": None}]
        else:
            inputs = []
        replay_glue = src.get("glue")
        kinds, pre_done = {}, []
    else:
        inputs, kinds, pre_done = build_inputs(rng, args.tier)
        replay_glue = None
    t0 = time.time()
    results = run_impl([i["job"] for i in inputs], hashseed=args.seed % 3)
    t_impl = time.time() - t0
    inputs = inputs + [i for i, _ in pre_done]
    results = list(results) + [r for _, r in pre_done]
    cases, seen_glue = [], set()
    n_glue = n_trans = n_elim = 0
    elim_stats = {"equalities used for elimination": 0, "equalities not used": 0,
                  "conjunctions with >= 1 assumption and >= 1 inequality": 0}
    for inp, res in zip(inputs, results):
        slim = {k: v for k, v in res.items() if k != "glue"}
        if inp["job"]["entry"] == "nested" and "groups" in res:
            # one case per printed group (top-level conjunction, nested disjunction, quantified body)
            for g in res["groups"]:
                gjob = {"op": "c13.run", "entry": g["entry"], "digits": g["digits"], "conds": g["conds"], "assumptions": []}
                gp = inp.get("group_points", {}).get(g["name"], [])
                pts = [[(k, Fraction(v)) for k, v in p] for p in gp]
                cases.append({"lit": e2e_lit(gjob, g, pts),
                              "input": {"job": inp["job"], "group": g["name"], "group_job": gjob, "points": gp, "kind": inp["kind"],
                                        "implementation": {k: v for k, v in g.items()}, "printed": res.get("printed")},
                              "nontrivial": True, "witness_of": None, "klass": None, "what": "e2e"})
            continue
        job = inp["job"]
        if job["entry"] == "nested":
            # the library raised (or printed another structure): judged as a failed print of the top-level conjunction
            job = {"op": "c13.run", "entry": "print", "digits": job["digits"], "conds": job["groups"]["top"], "assumptions": []}
        pts = [[(k, Fraction(v)) for k, v in p] for p in inp["points"]]
        cases.append({"lit": e2e_lit(job, res, pts),
                      "input": {"job": inp["job"], "points": inp["points"], "kind": inp["kind"], "implementation": slim},
                      "nontrivial": inp["nontrivial"], "witness_of": inp.get("witness_of"),
                      "klass": classify(inp, res), "what": "e2e"})
    glue_budget = 1200 if args.tier == "quick" else 10000
    elim_budget = 700 if args.tier == "quick" else 6000        # elimination cases have a budget of their own
    for inp, res in zip(inputs, results):
        for lit, desc, nontrivial in glue_lits(res):
            is_elim = lit.startswith("(CElim")
            if lit in seen_glue or (n_elim >= elim_budget if is_elim else n_glue + n_trans >= glue_budget):
                continue
            seen_glue.add(lit)
            if lit.startswith("(CGlue"):
                n_glue += 1
            elif lit.startswith("(CElim"):
                n_elim += 1
                for x in desc["glue"]["extracted"]:
                    elim_stats["equalities used for elimination" if x is not None else "equalities not used"] += 1
                elim_stats["conjunctions with >= 1 assumption and >= 1 inequality"] += int(
                    any(x is not None for x in desc["glue"]["extracted"]) and any(c["ineq"] for c in desc["glue"]["calls"]))
            else:
                n_trans += 1
            cases.append({"lit": lit, "input": desc, "nontrivial": nontrivial, "witness_of": None, "what": "glue"})
    if replay_glue is not None:
        for lit, desc, nontrivial in glue_lits({"glue": [replay_glue]}):
            cases.append({"lit": lit, "input": desc, "nontrivial": nontrivial, "witness_of": None, "what": "glue"})
    t0 = time.time()
    # run2 prints two characters per case: the verdict and the part of the checker that validated the outputs (evidence)
    both, info = run_case_shards(PROP, "Corr.C13", [c["lit"] for c in cases], shard_size=40, run_fn="run2",
                                 units=[2] * len(cases),
                                 header_extra="From Coq Require Import QArith.\nFrom Verif Require Import Model.SymbolicGlue Spec.Poly.\n")
    verdicts, paths = both[0::2], both[1::2]
    rep.coverage["timing_s"] = {"implementation": round(t_impl, 1), "coq_shards": round(time.time() - t0, 1)}
    if os.environ.get("C13_DEBUG"):
        json.dump([{"v": v, "what": c["what"], "input": c["input"]} for c, v in zip(cases, verdicts) if v != "."],
                  open(os.environ["C13_DEBUG"], "w"), indent=1)
    decide(rep, PROP, "Corr.C13", cases, verdicts, info, explain_expr="explain %s",
           header_extra="From Coq Require Import QArith.\nFrom Verif Require Import Model.SymbolicGlue Spec.Poly.\n")
    facts_ok = (facts.get("float_fmt") == ["0.12", "2.68", "-0.00", "2", "0.12", "-0.001"]
                and facts.get("float_str") == ["0.125000000000000", "2.67500000000000", "1234.56789000000", "1.00000000000000e-5"]
                and isinstance(facts.get("pre_default_digits"), int) and 0 <= facts["pre_default_digits"] <= 6
                and facts.get("strip_regex") == r"[\(\-\)\s\?]"
                and facts.get("fluent_regex") == r"(\([^\W\d][\w-]*\s[?\w\-\s]*\))")
    if not facts_ok:
        p = write_replay(PROP, "library_facts", {"kind": "correspondence", "why": "sympy number formatting / library regex facts differ from the model", "facts": facts})
        rep.violation(p, False)
    cov = rep.coverage
    e2e = [(c, v) for c, v in zip(cases, verdicts) if c["what"] == "e2e"]
    cov["programs"] = len(e2e)
    cov["disagreements_checked"] = sum(1 for c, v in e2e if v != ".")
    cov["glue_cases"] = {"convert": n_glue, "transform": n_trans, "elimination": n_elim}
    cov["elimination_cases"] = elim_stats
    # which part of the proved checker validated the outputs of each end-to-end case (Corr.C13.ev_path)
    names = {"p": "coefficientwise (polynomial normal forms)", "e": "structural rounding of the output itself (eround, no hint)",
             "h": "structural rounding of a hint (eround, hint verified exactly equivalent)",
             "i": "nothing printed: every condition an identity or implied by the kept equalities", "-": "not validated", "?": "shard failed"}
    by_path, by_entry = {}, {}
    for (c, v), pth in zip(zip(cases, verdicts), paths):
        if c["what"] != "e2e":
            continue
        by_path[names.get(pth, pth)] = by_path.get(names.get(pth, pth), 0) + 1
        ent = c["input"]["job"]["entry"] + ("/" + c["input"]["group"] if "group" in c["input"] else "")
        by_entry.setdefault(ent, {})
        by_entry[ent][pth] = by_entry[ent].get(pth, 0) + 1
    cov["validated_by"] = by_path
    cov["validated_by_entry"] = {k: dict(sorted(v.items())) for k, v in sorted(by_entry.items())}
    cov["validated_by_digits"] = {}
    for (c, v), pth in zip(zip(cases, verdicts), paths):
        if c["what"] == "e2e":
            dd = cov["validated_by_digits"].setdefault(str(c["input"].get("group_job", c["input"]["job"])["digits"]), {})
            dd[pth] = dd.get(pth, 0) + 1
    # entry point x digits: which part of the checker validated how many outputs (str(precondition) exists only at the library's
    # default number of decimals - it has no digits parameter -, so its row has one column by construction)
    table = {}
    for (c, v), pth in zip(zip(cases, verdicts), paths):
        if c["what"] != "e2e":
            continue
        gj = c["input"].get("group_job", c["input"]["job"])
        ent = c["input"]["job"]["entry"] + ("/" + c["input"]["group"] if "group" in c["input"] else "")
        if c["input"]["job"].get("via") == "str":
            ent += "(str)"          # str(compound precondition): default decimals only
        cell = table.setdefault(ent, {}).setdefault(str(gj["digits"]), {})
        cell[pth] = cell.get(pth, 0) + 1
    cov["validated_by_entry_digits"] = {e: {d: dict(sorted(c.items())) for d, c in sorted(row.items())} for e, row in sorted(table.items())}
    fixed_digits = lambda e: e == "str" or e.endswith("(str)")
    cov["entry_digits_empty_cells"] = sorted(
        "%s@%d" % (e, d) for e, row in table.items() for d in range(0, 7)
        if not any(k in ("p", "e", "h", "i") for k in row.get(str(d), {})) and not (fixed_digits(e) and d != G_DEFAULT_DIGITS))
    cov["fixtures"] = kinds.pop("fixture-files/parsed-domains/sets", None)
    cov["fixture_nodes"] = kinds.pop("fixture-nodes", None)
    cov["equality_shapes"] = kinds.pop("equality-shapes", None)
    cov["input_distribution"] = {"%s/%s" % k: v for k, v in sorted(kinds.items())}
    cov["input_distribution"]["fixture"] = sum(1 for i in inputs if i["kind"].startswith("fixture:"))
    cov["input_distribution"]["fixture-node"] = sum(1 for i in inputs if i["kind"].startswith("fixture-node:"))
    cov["input_distribution"]["corpus-file"] = sum(1 for i in inputs if i["kind"].startswith("corpus-file:"))
    cov["digits"] = {str(d): sum(1 for i in inputs if i["job"]["digits"] == d) for d in range(0, 7)}
    cov["outcomes"] = {"returned": sum(1 for r in results if "ok" in r), "raised": sum(1 for r in results if "ok" not in r),
                       "reader_rejected": sum(1 for r in results if "ok" in r and not r.get("reader_ok"))}
    cov["library_facts"] = facts
    cov["exhaustive"] = False
    cov["rule"] = ("programs = calls of the library's simplifying printers (simplify_complex_numeric_expression, simplify_inequality "
                   "with and without assumptions, simplify_equality, NumericalExpressionTree.simplify_complex_numerical_pddl_expression, "
                   "Precondition._simplify_numeric_preconditions, Precondition.print on a conjunction and on a DISJUNCTION, str(precondition), "
                   "CompoundPrecondition.print / str() on a compound precondition with a nested (or ...) and a universally quantified (and ...) / "
                   "(or ...) - one case per printed group) on generated inputs: polynomials (sums of coefficient*monomial in several shapes, "
                   "products of small sums, constant sub-expressions) and rational expressions (division by constants and by fluent "
                   "expressions) of degree <= 3 over 1-4 fluents from 6 vocabularies (lifted and grounded, dashes, underscores, digits), "
                   "integer / short-decimal / near-integer (k +- 1e-5) / rounding-boundary / tiny coefficients, all comparison operators, 0-2 "
                   "linear equalities usable for elimination (also chains: the second eliminates what the first brings in, either order), "
                   "equalities of every SHAPE around the elimination decision (G.EQ_SHAPES: sum / difference / reversed / plain / scaled / a "
                   "number first / the sum inside a product / nested differences; right side 0, 0.0, -0.0, small, large, a function) next to "
                   "inequalities in which the eliminated operand occurs alone / in the same or the other pattern / swapped / not at all and "
                   "conditions in the style of the shipped domains - as a grid (every shape x right side with 2 companions in quick, all 6 "
                   "in thorough) and at random inside pre / print / str / nested / or, "
                   "duplicates and identities, digits 0..6 with 0 and 1 a third of the time (>= 3 when a divisor is not constant: the checker "
                   "has no rounding tolerance there); inputs that are undefined on the whole solution set of their own linear equalities (a "
                   "divisor forced to zero) are not generated.  Plus the pinned tests' inputs, the witnesses of every repaired defect, "
                   "corpus/C13/*.json, colliding fluent names, the numeric condition sets of the shipped domains (re-built, entries pre and "
                   "print) and Precondition.print on the shipped domains' OWN precondition nodes.  Each output is validated in Coq by "
                   "check_pre / check_under / check_expr / check_or and at 3-4 rational points on the solution set of the input's linear "
                   "equalities (exact solve).  Every convert_expr_to_pddl / transform_expression call made by the library is replayed on the "
                   "Coq glue model (deduplicated), its symbol table checked for the shape C13_glue_readback assumes and its tree for the shape "
                   "C13_glue assumes (wf_tree).  Every call of _simplify_numeric_preconditions is replayed on the model of the elimination "
                   "decision (Model/Elimination.v: what extract_eliminated_expressions returned for each equality, the assumptions each "
                   "simplify_inequality call received, the order of the calls, the returned list) and every extracted assumption must follow "
                   "from the input equalities.  Non-trivial: the "
                   "input has >= 2 arithmetic operators or several conditions (glue: the tree is not a single atom); distinct by input hash.")
    cov["samples"] = [c["input"] for c in cases[:2]] + [c["input"] for c in e2e_sample(cases)]
    cov["explanation"] = ("translation validation: Coq theorem C13_checker_sound (and C13_inequality_sound, C13_expression_sound, C13_disjunction_sound) makes each "
                          "accepted output a proof of equivalence up to rounding for that input; nothing is claimed for inputs that were not run")
    cov["trusted_base"] = cov.get("trusted_base", []) + [
        "sympy is NOT trusted: each of its outputs is checked; what is not checked is its behaviour on inputs not generated in this run",
        "the restricted-grammar reader cond_of_sexp / read_number (Spec/Poly.v) defines what 'uses only binary + - * /' and the value of a printed constant mean",
        "the library's own reader (tokenizer + construct_expression_tree) is run on every output by the harness (acceptance only)",
    ]
    rep.assumptions = ["ASCII lower-case fluent names; exact comparison semantics (the library's EPSILON tolerance of = <= >= is not part of the statement)",
                       "valuations at which some divisor of the input or output vanishes are excluded",
                       "sympy number formatting facts re-checked on this run: %s" % facts_ok]
    return rep.finish()


def e2e_sample(cases):
    picks, kinds = [], set()
    for c in cases:
        if c["what"] != "e2e":
            continue
        k = c["input"]["kind"]
        if k not in kinds and len(picks) < 6:
            kinds.add(k)
            picks.append(c)
    return picks
