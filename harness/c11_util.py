"""Helpers shared by the C11 driver (python3-vt) and the C11 implementation ops (/venv/bin/python).
Standard library only; nothing of /repo is imported here."""

MASK63 = (1 << 63) - 1
M1 = 1000003
M2 = 6364136223846793005


def digest(tokens):
    """(number of tokens, two 63-bit polynomial checksums of the tokens, each followed by a blank).
    The same fold is Corr.C11.digest on the Coq side."""
    h1 = h2 = 0
    for t in tokens:
        for ch in t:
            c = ord(ch) + 1
            h1 = (h1 * M1 + c) & MASK63
            h2 = (h2 * M2 + c) & MASK63
        h1 = (h1 * M1 + 33) & MASK63
        h2 = (h2 * M2 + 33) & MASK63
    return [len(tokens), h1, h2]


def flatten_iter(tree):
    """token stream of a nested list (iterative: large trees)"""
    out = []
    stack = [tree]
    while stack:
        x = stack.pop()
        if isinstance(x, str):
            out.append(x)
        else:
            out.append("(")
            stack.append(")")
            for y in reversed(x):
                stack.append(y)
    return out


def expand_segs(segs):
    """segments -> text, the same expansion as Corr.BigText.expand: [block, reps] repeats the block; a dict
    {"pre", "width", "start", "count", "post"} stands for the lines pre + "%<width>d" % i + post, i = start ..."""
    out = []
    for sg in segs:
        if isinstance(sg, dict):
            out.extend("%s%*d%s" % (sg["pre"], sg["width"], i, sg["post"]) for i in range(sg["start"], sg["start"] + sg["count"]))
        else:
            out.append(sg[0] * sg[1])
    return "".join(out)


def seg_len(sg):
    return len(expand_segs([sg]))


def expand_toks(tsegs):
    out = []
    for toks, reps in tsegs:
        out.extend(list(toks) * reps)
    return out


def label_text(text, file_mode=True):
    """one label per character: 'a' atom character, 'p' parenthesis, 'w' whitespace outside comments,
    'c' comment (from ';' up to, not including, its terminator), 'n' the comment's terminator."""
    lab = []
    in_c = False
    n = len(text)
    i = 0
    while i < n:
        ch = text[i]
        if in_c:
            if ch == "\n" or (file_mode and ch == "\r"):
                lab.append("n")
                in_c = False
            else:
                lab.append("c")
        elif ch == ";":
            lab.append("c")
            in_c = True
        elif ch in "()":
            lab.append("p")
        elif ch in "\t\n\x0b\x0c\r\x1c\x1d\x1e\x1f ":
            lab.append("w")
        else:
            lab.append("a")
        i += 1
    return "".join(lab)


def boundary_class(text, labels, o):
    """where does a cut between characters o-1 and o fall?"""
    if o <= 0 or o >= len(text):
        return "outside"
    a, b = labels[o - 1], labels[o]
    if text[o - 1] == "\r" and text[o] == "\n":
        return "inside-crlf"
    if a == "a" and b == "a":
        return "inside-token"
    if a == "c" and b in "cn":
        # would the rest of the comment, read as a line of its own, yield a token?
        e = o
        while e < len(text) and labels[e] == "c":
            e += 1
        tail = text[o:e].strip()
        return "inside-comment" if tail and not tail.startswith(";") else "inside-comment-blank-tail"
    if text[o - 1] == "\n":
        return "after-newline"
    return "between-tokens"
