"""Implementation driver for C10: build a trajectory with the real exporters (or read a shipped trajectory file),
export it, write it to a file, parse it back with the real TrajectoryParser (with the problem's objects and with
deduced objects) and report everything the property observes."""
import os
import random
import tempfile
from pathlib import Path

from pddl_plus_parser.lisp_parsers import DomainParser, ProblemParser, TrajectoryParser
from pddl_plus_parser.models import Operator, NOPOperator, ActionCall, State
from pddl_plus_parser.exporters.numeric_trajectory_exporter import TrajectoryExporter, TrajectoryTriplet
from pddl_plus_parser.multi_agent.multi_agent_trajectory_exporter import (MultiAgentTrajectoryExporter,
                                                                          MultiAgentTrajectoryTriplet)

from ops_c14 import dump_state, exc, fhex

TMP = Path(os.environ.get("VERIF_WORK", "/verif/work")) / "C10" / "tmp"


_FIXED_DIR = None     # set by after_noise(same_paths): every file of the job is written to the SAME path again and again


def write_tmp(text, suffix=".pddl", name=None):
    TMP.mkdir(parents=True, exist_ok=True)
    if _FIXED_DIR is not None:
        p = Path(_FIXED_DIR) / ((name or "file") + suffix)
        p.write_text(text)
        return p
    fd, fname = tempfile.mkstemp(dir=str(TMP), suffix=suffix)
    with os.fdopen(fd, "w") as fh:
        fh.write(text)
    return Path(fname)


def vocabulary(domain):
    return {"types": [[n, t.parent.name if t.parent is not None else "object"] for n, t in domain.types.items() if n != "object"],
            "consts": [[n, c.type.name] for n, c in domain.constants.items()],
            "preds": [[n, [[p, t.name] for p, t in pr.signature.items()]] for n, pr in domain.predicates.items()],
            "funcs": [[n, [[p, t.name] for p, t in f.signature.items()]] for n, f in domain.functions.items()]}


def call_str(c):
    return "(%s %s)" % (c[0], " ".join(c[1]))


def applicable(domain, problem, state, c):
    try:
        return bool(Operator(domain.actions[c[0]], domain, list(c[1]), problem.objects).is_applicable(state))
    except Exception:  # noqa
        return False


def walk_single(domain, problem, rnd, cands, steps, exporter):
    """a random walk that prefers applicable calls; returns the plan as call data"""
    state = State(problem.initial_state_predicates, problem.initial_state_fluents, is_init=True)
    plan = []
    for _ in range(steps):
        if not cands:
            break
        good = [c for c in cands if applicable(domain, problem, state, c)]
        c = rnd.choice(good) if good and rnd.random() < 0.85 else rnd.choice(cands)
        plan.append(c)
        state = exporter.create_single_triplet(state, call_str(c), problem.objects).next_state
    return plan


def walk_joint(domain, problem, rnd, cands, steps, nagents, exporter):
    state = State(problem.initial_state_predicates, problem.initial_state_fluents, is_init=True)
    plan = []
    for _ in range(steps):
        joint = []
        for _ in range(nagents):
            good = [c for c in cands if applicable(domain, problem, state, c)]
            if rnd.random() < 0.4 or not good:
                joint.append(["nop", []])
            else:
                joint.append(rnd.choice(good))
        text = "[" + ",".join(call_str(c) if c[0] != "nop" else "(nop )" for c in joint) + "]"
        try:
            state = exporter.create_multi_agent_triplet(state, text, problem.objects, allow_inapplicable_actions=True).next_state
        except Exception:  # noqa
            break
        plan.append(joint)
    return plan


def observe_parse(domain, problem, path, agents, triplets):
    try:
        obs = TrajectoryParser(domain, problem).parse_trajectory(path, executing_agents=agents)
    except Exception as e:  # noqa
        return exc(e)
    steps = []
    prev_next = None
    for i, comp in enumerate(obs.components):
        if hasattr(comp, "grounded_joint_action"):
            calls = [[a.name, list(a.parameters)] for a in comp.grounded_joint_action.actions]
        else:
            a = comp.grounded_action_call
            calls = [[a.name, list(a.parameters)]]
        st = {"calls": calls}

        def attempt(name, fn):
            try:
                st[name] = {"value": fn()}
            except Exception as e:  # noqa
                st[name] = exc(e)
        attempt("prev", lambda: comp.previous_state.serialize())
        attempt("next", lambda: comp.next_state.serialize())
        if i < len(triplets):
            attempt("eq_prev", lambda: bool(comp.previous_state == triplets[i].previous_state))
            attempt("eq_next", lambda: bool(comp.next_state == triplets[i].next_state))
        else:
            st["eq_prev"] = st["eq_next"] = {"raised": "NoTriplet", "msg": ""}
        attempt("chain", lambda: True if prev_next is None else bool(comp.previous_state == prev_next))
        prev_next = comp.next_state
        steps.append(st)
    return {"value": {"objects": [[n, o.type.name] for n, o in obs.grounded_objects.items()], "steps": steps,
                      "len": len(obs)}}


def op_call(op):
    if isinstance(op, NOPOperator):
        return ["nop", []]
    if isinstance(op, ActionCall):
        return [op.name, list(op.parameters)]
    return [op.name, list(op.grounded_call_objects)]


def finish(domain, problem, triplets, joint, agents, exporter_cls, source_text=None):
    out = {"vocab": vocabulary(domain),
           "objects": [[n, o.type.name] for n, o in problem.objects.items()] if problem is not None else []}
    if triplets:
        out["first"] = dump_state(triplets[0].previous_state)
    steps = []
    chain = True
    for i, t in enumerate(triplets):
        if joint:
            act = [op_call(op) for op in t.joint_action]
        else:
            act = [op_call(t.operator)]
        steps.append({"act": act, "post": dump_state(t.next_state)})
        if i + 1 < len(triplets):
            nxt = triplets[i + 1].previous_state
            chain = chain and (nxt is t.next_state or bool(nxt == t.next_state))
    out["steps"] = steps
    out["chain"] = chain
    try:
        lines = exporter_cls.export(triplets)
        text = "".join(lines)
        out["export"] = {"value": text}
    except Exception as e:  # noqa
        out["export"] = exc(e)
        return out
    # through the file, as the library's users do
    path = write_tmp("", ".trajectory", name="observed")
    try:
        exporter_cls(domain).export_to_file(triplets, path)
        out["file_same"] = path.read_text() == text
        if problem is not None:
            out["with"] = observe_parse(domain, problem, path, agents, triplets)
        out["deduced"] = observe_parse(domain, None, path, agents, triplets)
        try:
            o = TrajectoryParser(domain, problem).parse_trajectory(path, executing_agents=agents,
                                                                   strict_trajectory_validation=True)
            out["strict"] = {"value": len(o)}
        except Exception as e:  # noqa
            out["strict"] = exc(e)
    finally:
        path.unlink()
    if source_text is not None:
        out["source"] = source_text
    return out


def trajectory(job):
    """job: domain_text, problem_text, mode single|joint, plan (explicit) or walk {seed, steps, agents, cands}, allow_invalid"""
    dpath = write_tmp(job["domain_text"], name="domain")
    ppath = write_tmp(job["problem_text"], name="problem")
    try:
        domain = DomainParser(dpath).parse_domain()
        joint = job["mode"] == "joint"
        rnd = random.Random(job.get("walk", {}).get("seed", 0))
        if joint:
            exporter = MultiAgentTrajectoryExporter(domain)
            nagents = job.get("walk", {}).get("agents", 2)
            plan = job.get("plan")
            if plan is None:
                problem = ProblemParser(ppath, domain).parse_problem()
                plan = walk_joint(domain, problem, rnd, job["walk"]["cands"], job["walk"]["steps"], nagents, exporter)
            problem = ProblemParser(ppath, domain).parse_problem()
            texts = ["[" + ",".join(call_str(c) if c[0] != "nop" else "(nop )" for c in j) + "]" for j in plan]
            triplets = exporter.parse_plan(problem, action_sequence=texts, allow_inapplicable_actions=True)
            agents = ["agent%d" % i for i in range(max([len(j) for j in plan] + [nagents]))]
            out = finish(domain, problem, triplets, True, agents, MultiAgentTrajectoryExporter)
            out["agents"] = agents
        else:
            exporter = TrajectoryExporter(domain, allow_invalid_actions=bool(job.get("allow_invalid", False)))
            plan = job.get("plan")
            if plan is None:
                problem = ProblemParser(ppath, domain).parse_problem()
                plan = walk_single(domain, problem, rnd, job["walk"]["cands"], job["walk"]["steps"], exporter)
            problem = ProblemParser(ppath, domain).parse_problem()
            triplets = exporter.parse_plan(problem, action_sequence=[call_str(c) for c in plan])
            out = finish(domain, problem, triplets, False, None, TrajectoryExporter)
            out["agents"] = None
        out["plan"] = plan
        return out
    finally:
        dpath.unlink()
        ppath.unlink()


# ---------------------------------------------------------------- observe - mutate - observe (wave 3)
VALUES = [0.0, 1.0, -1.0, 2.5, -2.5, 0.5, 3.0, 0.1, 1e-05, 1e16, 1e22, 123456.789, -0.0, 5e-05, 1 / 3, -7.0, 42.0]


def build_triplets(job, domain, ppath):
    """the triplets of a `trajectory` job: (problem, triplets, joint, agents, exporter class, plan)"""
    joint = job["mode"] == "joint"
    rnd = random.Random(job.get("walk", {}).get("seed", 0))
    if joint:
        exporter = MultiAgentTrajectoryExporter(domain)
        nagents = job.get("walk", {}).get("agents", 2)
        plan = job.get("plan")
        if plan is None:
            problem = ProblemParser(ppath, domain).parse_problem()
            plan = walk_joint(domain, problem, rnd, job["walk"]["cands"], job["walk"]["steps"], nagents, exporter)
        problem = ProblemParser(ppath, domain).parse_problem()
        texts = ["[" + ",".join(call_str(c) if c[0] != "nop" else "(nop )" for c in j) + "]" for j in plan]
        triplets = exporter.parse_plan(problem, action_sequence=texts, allow_inapplicable_actions=True)
        agents = ["agent%d" % i for i in range(max([len(j) for j in plan] + [nagents]))]
        return problem, triplets, True, agents, MultiAgentTrajectoryExporter, plan
    exporter = TrajectoryExporter(domain, allow_invalid_actions=bool(job.get("allow_invalid", False)))
    plan = job.get("plan")
    if plan is None:
        problem = ProblemParser(ppath, domain).parse_problem()
        plan = walk_single(domain, problem, rnd, job["walk"]["cands"], job["walk"]["steps"], exporter)
    problem = ProblemParser(ppath, domain).parse_problem()
    triplets = exporter.parse_plan(problem, action_sequence=[call_str(c) for c in plan])
    return problem, triplets, False, None, TrajectoryExporter, plan


def state_slots(triplets):
    """the states of the trajectory, first to last; slot i lists the DISTINCT Python objects that play state i (in an
    exporter's triplet list next_state i is previous_state i+1, in a parsed Observation the latter is a copy)"""
    slots = [[triplets[0].previous_state]]
    for i, t in enumerate(triplets):
        objs = [t.next_state]
        if i + 1 < len(triplets) and triplets[i + 1].previous_state is not t.next_state:
            objs.append(triplets[i + 1].previous_state)
        slots.append(objs)
    return slots


def choose_state_mutation(rnd, domain, objects, state):
    """an in-place change that keeps the state inside the domain's vocabulary (type-correct arguments, no repeated
    argument in a fluent): descriptor for ops_c14.apply_mutation.  Deterministic given rnd (everything is sorted)."""
    from ops_c14 import fluent_vars
    facts = sorted((g.name, tuple(g.object_mapping.values())) for grp in state.state_predicates.values() for g in grp)
    fluents = sorted((f.name, tuple(fluent_vars(f))) for f in state.state_fluents.values())
    names = sorted(objects)

    def cands(t):
        return [n for n in names if objects[n].type.is_sub_type(t)]

    def random_args(sig, distinct):
        args = []
        for t in sig.values():
            c = [n for n in cands(t) if not (distinct and n in args)]
            if not c:
                return None
            args.append(rnd.choice(c))
        return args
    kinds = ["rebuild-dicts", "add-fact", "add-fact", "add-fact", "put-fluent"]
    kinds += ["discard-fact"] * 4 + ["del-group", "remap-fact", "remap-fact"] if facts else []
    kinds += ["set-value"] * 4 + ["del-fluent", "remap-fluent", "remap-fluent"] if fluents else []
    for _ in range(6):
        k = rnd.choice(kinds)
        if k == "rebuild-dicts":
            return {"kind": k, "reverse": rnd.random() < 0.5}
        if k == "add-fact" and domain.predicates:
            pname = rnd.choice(sorted(domain.predicates))
            pr = domain.predicates[pname]
            args = random_args(pr.signature, False)
            if args is None:
                continue
            sig = [[p_, t.name] for p_, t in pr.signature.items()]
            return {"kind": k, "key": pr.untyped_representation,
                    "fact": {"name": pname, "sig": sig, "map": [[p_, o] for (p_, _), o in zip(sig, args)], "pos": True}}
        if k == "discard-fact":
            n, args = rnd.choice(facts)
            return {"kind": k, "name": n, "args": list(args), "how": rnd.choice(["discard", "remove", "difference_update", "new-set"])}
        if k == "del-group":
            return {"kind": k, "name": rnd.choice(facts)[0], "how": rnd.choice(["del", "clear"])}
        if k == "remap-fact" and [x for x in facts if x[0] in domain.predicates and x[1]]:
            n, args = rnd.choice([x for x in facts if x[0] in domain.predicates and x[1]])
            new = random_args(domain.predicates[n].signature, False)
            if new is None or len(new) != len(args) or (n, tuple(new)) in facts:
                continue
            return {"kind": k, "name": n, "args": list(args), "new_args": new}
        if k == "remap-fluent" and [x for x in fluents if x[0] in domain.functions and x[1]]:
            n, args = rnd.choice([x for x in fluents if x[0] in domain.functions and x[1]])
            new = random_args(domain.functions[n].signature, True)
            if new is None or len(new) != len(args) or (n, tuple(new)) in fluents:
                continue
            return {"kind": k, "name": n, "args": list(args), "new_args": new}
        if k == "set-value":
            n, args = rnd.choice(fluents)
            cur = [f.value for f in state.state_fluents.values() if (f.name, tuple(fluent_vars(f))) == (n, args)][0]
            if rnd.random() < 0.4 and isinstance(cur, float) and cur == cur and abs(cur) != float("inf"):
                # a value a comparison of numbers cannot tell from the present one, or only just
                import math
                near = [-cur, -cur, cur] if cur == 0 else [-cur, cur, math.nextafter(cur, math.inf), math.nextafter(cur, -math.inf)]
                return {"kind": k, "name": n, "args": list(args), "val": fhex(rnd.choice(near))}
            return {"kind": k, "name": n, "args": list(args), "val": fhex(rnd.choice(VALUES))}
        if k == "del-fluent":
            n, args = rnd.choice(fluents)
            return {"kind": k, "name": n, "args": list(args), "how": rnd.choice(["del", "pop"])}
        if k == "put-fluent" and domain.functions:
            fname = rnd.choice(sorted(domain.functions))
            args = random_args(domain.functions[fname].signature, True)
            if args is None:
                continue
            return {"kind": k, "args": args, "key": "(%s %s)" % (fname, " ".join(args)),
                    "fluent": {"name": fname, "sig": [[o, objects[o].type.name] for o in args], "val": fhex(rnd.choice(VALUES)), "rep": []}}
    return {"kind": "rebuild-dicts", "reverse": False}


def omo(job):
    """observe - mutate - observe on ONE trajectory: the triplet list (via 'triplets': as the exporter built it; via
    'observation': made from the components of the Observation the library parsed from the exported file) is dumped,
    exported, written, parsed back and compared (moment 0); then a state of it is changed IN PLACE through its public
    attributes and the SAME list is dumped, exported, parsed back and compared again -- one moment per change."""
    from ops_c14 import apply_mutation
    main = job["main"]
    dpath = write_tmp(main["domain_text"], name="domain")
    ppath = write_tmp(main["problem_text"], name="problem")
    try:
        domain = DomainParser(dpath).parse_domain()
        problem, triplets, joint, agents, cls, plan = build_triplets(main, domain, ppath)
        if job.get("via") == "observation" and triplets:
            path = write_tmp("", ".trajectory", name="first")
            try:
                cls(domain).export_to_file(triplets, path)
                obs = TrajectoryParser(domain, problem).parse_trajectory(path, executing_agents=agents)
            finally:
                path.unlink()
            # the exporter's objects stay alive and untouched; the observation's states are the ones under test
            if joint:
                triplets = [MultiAgentTrajectoryTriplet(c.previous_state, list(c.grounded_joint_action.actions), c.next_state)
                            for c in obs.components]
            else:
                triplets = [TrajectoryTriplet(c.previous_state, c.grounded_action_call, c.next_state) for c in obs.components]

        def moment():
            try:
                out = finish(domain, problem, triplets, joint, agents, cls)
            except Exception as e:  # noqa
                return exc(e)
            out["agents"] = agents
            out["plan"] = plan
            return out
        moments = [moment()]
        applied = []
        rnd = random.Random(job.get("mut_seed", 0))
        objects = {**domain.constants, **problem.objects}
        script = list(job.get("script") or [])
        last = None
        for _ in range(job.get("muts", 0) if triplets else 0):
            slots = state_slots(triplets)
            i = rnd.randrange(len(slots))
            m = None
            forced = script.pop(0) if script else None
            if forced == "set-zero":
                # a fluent of some state is given the value 0.0 ...
                withf = [k for k, sl in enumerate(slots) if sl[0].state_fluents]
                if withf:
                    i = rnd.choice(withf)
                    f = slots[i][0].state_fluents[sorted(slots[i][0].state_fluents)[rnd.randrange(len(slots[i][0].state_fluents))]]
                    from ops_c14 import fluent_vars
                    last = (i, f.name, fluent_vars(f))
                    m = {"kind": "set-value", "name": last[1], "args": last[2], "val": fhex(rnd.choice([0.0, -0.0]))}
            elif forced == "flip-zero" and last is not None:
                # ... and then the OTHER zero: an equal number, another value
                i = last[0]
                cur = [f.value for f in slots[i][0].state_fluents.values() if f.name == last[1]]
                import math
                neg = bool(cur) and cur[0] == 0 and math.copysign(1, cur[0]) > 0
                m = {"kind": "set-value", "name": last[1], "args": last[2], "val": fhex(-0.0 if neg else 0.0)}
            if m is None:
                m = choose_state_mutation(rnd, domain, objects, slots[i][0])
            done = []
            for k, s in enumerate(slots[i]):
                try:
                    done.append({"value": apply_mutation(dict(m, target=k), slots[i])})
                except Exception as e:  # noqa
                    done.append(exc(e))
            applied.append({"state": i, "objects": len(slots[i]), "mut": m, "done": done})
            moments.append(moment())
        return {"moments": moments, "applied": applied}
    finally:
        dpath.unlink()
        ppath.unlink()


def after_noise(job):
    """One job = one controlled order inside the worker process: first a whole unrelated round trip (build, export,
    parse back; usually with repeated-argument fluents -- the D07 area; its result is dropped), then the trajectory
    that is judged.  What the judged trajectory must look like does not depend on what the process did before.
    With same_paths every file of the job (domain, problem, trajectory) is written to the same path again and again,
    as a user does who re-exports into one scratch file."""
    global _FIXED_DIR
    if job.get("same_paths"):
        TMP.mkdir(parents=True, exist_ok=True)
        _FIXED_DIR = tempfile.mkdtemp(dir=str(TMP))
    try:
        for n in job["noise"]:
            try:
                trajectory(n)
            except Exception:  # noqa
                pass
        return trajectory(job["main"])
    finally:
        if _FIXED_DIR is not None:
            import shutil
            shutil.rmtree(_FIXED_DIR, ignore_errors=True)
            _FIXED_DIR = None


def shipped(job):
    """job: domain (path), problem (path or None), trajectory (path), agents (list or None)"""
    domain = DomainParser(Path(job["domain"]), partial_parsing=True).parse_domain()
    problem = ProblemParser(Path(job["problem"]), domain).parse_problem() if job.get("problem") else None
    agents = job.get("agents")
    obs = TrajectoryParser(domain, problem).parse_trajectory(Path(job["trajectory"]), executing_agents=agents)
    joint = agents is not None
    triplets = []
    for comp in obs.components:
        if joint:
            triplets.append(MultiAgentTrajectoryTriplet(comp.previous_state, list(comp.grounded_joint_action.actions),
                                                        comp.next_state))
        else:
            triplets.append(TrajectoryTriplet(comp.previous_state, comp.grounded_action_call, comp.next_state))
    out = finish(domain, problem, triplets, joint, agents,
                 MultiAgentTrajectoryExporter if joint else TrajectoryExporter,
                 source_text=Path(job["trajectory"]).read_text())
    out["agents"] = agents
    out["plan"] = [s["act"] for s in out["steps"]]
    return out
