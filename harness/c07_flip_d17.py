"""Records that D17 (refused trajectory step aliases its input state) was repaired in /repo.

usage: python3-vt harness/c07_flip_d17.py fixed <commit>      (or: open, to undo)
Edits findings.d/C07.json and regenerates known_findings.json.  The C07 check derives the model's configuration
(switch fix17 of Model/Store.v) from the status recorded here, so nothing else has to change."""
import json
import subprocess
import sys
from pathlib import Path

ROOT = Path(__file__).resolve().parent.parent


def main():
    status = sys.argv[1]
    p = ROOT / "findings.d" / "C07.json"
    fs = json.load(open(p))
    for f in fs:
        if f["id"] == "D17":
            f["status"] = status
            if status == "fixed":
                f["commit"] = sys.argv[2]
                f["what"] = "fixed: property=C07 %s %s" % (sys.argv[2], f["what"].replace("fixed: property=C07 ", ""))
                f.pop("why_not_fixed", None)
            else:
                f.pop("commit", None)
    json.dump(fs, open(p, "w"), indent=1)
    subprocess.check_call(["python3-vt", str(ROOT / "tools" / "merge_findings.py")])


if __name__ == "__main__":
    main()
